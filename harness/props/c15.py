"""C15 — the saved-iteration file is always a sound restart point.

Tie: correspondence (C).  Real `BIOGEME` objects with `save_iterations` on receive generated
histories of `calculate_likelihood_and_derivatives`; the file `__<model>.iter` is read after
every call and compared with the Lean model (`IterFile.trace`) and with the property oracle
(best finite point so far, complete lines, bit-for-bit values).  The write protocol is recorded
from the real code (harness-side wrapping of `open`/`write`/`os.replace`), checked to be the
protocol of theorem `C15.crash_safe`, and every crash point is injected for real.
"""

from __future__ import annotations

import json
import math
import os
import subprocess
import sys
from pathlib import Path

import numpy as np

from lib import core
from lib.core import Result, f2b

READY = True
MANIFEST = dict(
    text='Proof (Lean 4): for every history of evaluations the iteration file holds the best evaluated point with finite gradient '
    '(invariant by induction, C15.file_is_best / every_prefix_is_best / never_below_start); re-reading a rendered line returns name and value '
    '(C15.parse_render, names may contain "="); restart overrides exactly the saved names; the write protocol tmp-then-rename is safe at every crash point '
    '(C15.crash_safe, all k, all chunk lists). Tie: correspondence on real BIOGEME objects (file read after every call, real restart, recorded write protocol '
    'compared with the model protocol, every crash point injected for real).',
    design='DESIGN.md §5 C15',
    technique='Lean 4 theorems over an executable state-machine model + differential correspondence with real BIOGEME runs and crash injection',
    note='Partial: CPython float repr/parse round trip and OS rename atomicity are trusted; f and the finite-gradient flag come from the engine.',
)

TRUSTED = [
    'CPython str(float)/float() round trip (values are opaque tokens in the model)',
    'the engine computes f and the gradient; the model receives the real f and the finite-gradient flag',
    'OS: rename is atomic; a stopped process leaves a prefix of the issued write operations',
]
ASSUMPTIONS = ['likelihood values compared by >= are not NaN (GeOK hypothesis of the theorems)']
RULE = (
    'histories of 1-8 evaluations (improving, worsening, tied, non-finite) on 1-3 parameter concave '
    'likelihoods with adversarial names; non-trivial = history with >= 1 worsening or non-finite step after a finite one'
)

TOML = '[Estimation]\nsave_iterations = "True"\n'

NAME_POOL = ['b10', 'b2', 'alpha', 'zeta', 'B_TIME', 'asc=1', 'β_coût', 'x y', 'a=b=c', 'Z', 'a']


def build(names, tag):
    """a concave likelihood in the given free parameters; parameter k is non-finite beyond ~1.01"""
    import pandas as pd
    import biogeme.biogeme as bio
    import biogeme.database as db
    from biogeme.expressions import Beta, Variable, exp

    df = pd.DataFrame({'X': [0.25, 0.5, -0.25], 'Y': [700.0, 700.0, 700.0]})
    d = db.Database('t', df)
    X = Variable('X')
    Y = Variable('Y')
    ll = None
    for k, n in enumerate(names):
        b = Beta(n, 0.3 + 0.1 * k, None, None, 0)
        if n == sorted(names)[-1]:
            term = -((b + 0.9 - X * 0.1) ** 2)       # optimum of the last parameter near -0.88, next to the singularity at -1
        else:
            term = -((b - X * (k + 1)) ** 2)
        ll = term if ll is None else ll + term
    b0 = Beta(names[0], 0.3, None, None, 0)
    ll = ll - exp(b0 * Y) * 1e-300
    # a term with a finite value but an infinite derivative at b_last = -1 (a point with non-finite gradient whose
    # likelihood is NOT low), zero contribution elsewhere up to 1e-3
    bl = Beta(sorted(names)[-1], 0.3 + 0.1 * names.index(sorted(names)[-1]), None, None, 0)
    ll = ll + ((bl + 1.0) ** 0.5) * 0.001
    B = bio.BIOGEME(d, ll)
    B.modelName = tag
    return B


def read_file(path):
    if not os.path.exists(path):
        return None
    return Path(path).read_text(encoding='utf-8')


def oracle_file(sorted_names, text, evals):
    """property oracle, written from the statement: None when the file is acceptable, else why"""
    finite = [e for e in evals if e['finite']]
    if text is None:
        return None if not finite else 'no file although a finite point was evaluated'
    if not finite:
        return 'file exists although no finite point was evaluated'
    lines = text.split('\n')
    if lines[-1] != '':
        return 'last line incomplete'
    lines = lines[:-1]
    if len(lines) != len(sorted_names):
        return f'{len(lines)} lines for {len(sorted_names)} free parameters'
    vals = []
    for n, l in zip(sorted_names, lines):
        pre = f'{n} = '
        if not l.startswith(pre):
            return f'line {l!r} does not start with {pre!r}'
        try:
            vals.append(float(l[len(pre):]))
        except ValueError:
            return f'value of line {l!r} is not a float'
    best = max(e['f'] for e in finite)
    for e in finite:
        if e['f'] == best and [f2b(v) for v in e['x']] == [f2b(v) for v in vals]:
            return None
    for e in evals:
        if [f2b(v) for v in e['x']] == [f2b(v) for v in vals]:
            return f'file holds an evaluated point with f={e["f"]}, finite={e["finite"]}; best finite f so far is {best}'
    return 'file holds a point that was never evaluated (bit-for-bit)'


def gen_history(rng, k):
    n = rng.randint(1, 8)
    pts = []
    if rng.random() < 0.3:
        # poor start, then a high point with infinite gradient, then points in between (must be saved)
        opt = [0.16 * (j + 1) for j in range(k)]
        opt[-1] = -0.88
        pts.append([0.5] * k)
        sing = list(opt)
        sing[-1] = -1.0
        pts.append(sing)
        mid = list(opt)
        mid[-1] = -0.5
        pts.append(mid)
        mid2 = list(opt)
        mid2[-1] = -0.8
        pts.append(mid2)
    for i in range(n):
        kind = rng.choice(['rand', 'rand', 'rand', 'repeat', 'nonfinite', 'better'])
        if kind == 'repeat' and pts:
            pts.append(list(rng.choice(pts)))
        elif kind == 'nonfinite':
            x = [rng.uniform(-1, 0.9) for _ in range(k)]
            if rng.random() < 0.5:
                x[0] = rng.choice([2.0, 5.0, 1.5])      # overflow: f = -inf
            else:
                x = [0.16 * (j + 1) for j in range(k)]   # near the optimum in the other coordinates ...
                x[-1] = -1.0                              # ... and on the singularity: f finite and high, gradient infinite
                if k == 1:
                    pass
            pts.append(x)
        elif kind == 'better':
            x = [0.16 * (j + 1) + rng.uniform(-0.05, 0.05) for j in range(k)]
            x[-1] = -0.88 + rng.uniform(-0.05, 0.05)
            pts.append(x)
        else:
            pts.append([rng.choice([rng.uniform(-1, 0.9), rng.randint(-8, 7) / 8.0]) for _ in range(k)])
    return pts


def run_history(names, pts, tag, second=True):
    """real code: returns per step (f, finite, file text), then what a restart reads"""
    out = []
    with core.scratch(TOML):
        B = build(names, tag)
        fname = f'__{tag}.iter'
        sorted_names = list(B.free_beta_names)
        for x in pts:
            r = B.calculate_likelihood_and_derivatives(np.array(x, dtype=float), scaled=False, hessian=False, bhhh=False)
            g = np.linalg.norm(r.gradient)
            out.append({'x': list(map(float, x)), 'f': float(r.function), 'finite': bool(np.isfinite(g)), 'file': read_file(fname)})
        restart = None
        if second:
            B2 = build(names, tag)
            before = dict(zip(B2.free_beta_names, map(float, B2.id_manager.free_betas_values)))
            try:
                B2._load_saved_iteration()
                restart = {'ok': True, 'values': dict(zip(B2.free_beta_names, map(float, B2.id_manager.free_betas_values))), 'before': before}
            except Exception as e:  # noqa: BLE001
                restart = {'ok': False, 'error': f'{type(e).__name__}: {e}', 'before': before}
        others = sorted(p for p in os.listdir('.') if p not in ('biogeme.toml', fname))
    return sorted_names, out, restart, others


def tokens_of_file(text, sorted_names):
    """value tokens of a well-formed file (used for the comparison with the model), else None"""
    if text is None:
        return None
    lines = text.split('\n')[:-1]
    toks = []
    for n, l in zip(sorted_names, lines):
        pre = f'{n} = '
        if not l.startswith(pre):
            return ['<malformed>']
        toks.append(l[len(pre):])
    if len(lines) != len(sorted_names):
        return ['<malformed>']
    return toks


# ----- crash injection -------------------------------------------------------------------------

CHILD = r'''
import sys, os, json, builtins
sys.path.insert(0, {harness!r})
import warnings; warnings.simplefilter('ignore')
import numpy as np
from props import c15
spec = json.loads(sys.argv[1])
os.chdir(spec['dir'])
B = c15.build(spec['names'], spec['tag'])
import biogeme.biogeme as bb
trace = []
limit = spec['k']
def tick():
    if limit is not None and len(trace) >= limit:
        sys.stdout.write('@@TRACE@@' + json.dumps(trace)); sys.stdout.flush()
        os._exit(0)
real_open = builtins.open
class Proxy:
    def __init__(self, path, f):
        self.path, self.f = path, f
    def write(self, s):
        self.f.write(s); self.f.flush(); os.fsync(self.f.fileno())
        trace.append(['write', self.path, s]); tick()
        return len(s)
    def __enter__(self): return self
    def __exit__(self, *a):
        self.f.close(); trace.append(['close', self.path]); tick(); return False
    def close(self):
        self.f.close(); trace.append(['close', self.path]); tick()
    def flush(self): self.f.flush()
def my_open(path, mode='r', *a, **k):
    if isinstance(path, str) and '.iter' in path and 'w' in mode:
        f = real_open(path, mode, *a, **k)
        trace.append(['open', path]); tick()
        return Proxy(path, f)
    return real_open(path, mode, *a, **k)
bb.open = my_open
real_replace = os.replace
def my_replace(s, t, *a, **k):
    real_replace(s, t, *a, **k)
    trace.append(['replace', s, t]); tick()
os.replace = my_replace
real_rename = os.rename
def my_rename(s, t, *a, **k):
    real_rename(s, t, *a, **k)
    trace.append(['replace', s, t]); tick()
os.rename = my_rename
tick()
B.calculate_likelihood_and_derivatives(np.array(spec['x'], dtype=float), scaled=False, hessian=False, bhhh=False)
sys.stdout.write('@@TRACE@@' + json.dumps(trace)); sys.stdout.flush()
'''


def crash_child(d, names, tag, x, k):
    code = CHILD.format(harness=str(core.VERIF / 'harness'))
    spec = json.dumps({'dir': str(d), 'names': names, 'tag': tag, 'x': x, 'k': k})
    env = dict(os.environ)
    env['PYTHONWARNINGS'] = 'ignore'
    p = subprocess.run([core.PY, '-c', code, spec], capture_output=True, text=True, timeout=300, env=env)
    if '@@TRACE@@' not in p.stdout:
        raise RuntimeError('crash child failed: ' + p.stderr[-1500:])
    return json.loads(p.stdout.split('@@TRACE@@', 1)[1])


def crash_experiment(ctx, res, names, tag, x_old, x_new):
    """one save over an existing file; full trace to the model, then every crash point for real"""
    with core.scratch(TOML) as d:
        fname = f'__{tag}.iter'
        # a first complete save (no crash) creates the old file, unless x_old is None
        if x_old is not None:
            crash_child(d, names, tag, x_old, None)
        old = read_file(d / fname)
        saved_old = old
        full = crash_child(d, names, tag, x_new, None)
        new = read_file(d / fname)
        case = {'names': names, 'x_old': x_old, 'x_new': x_new}
        # (ii) every crash point for real (before asking the model: one driver batch at the end)
        observed = []
        for k in range(len(full) + 1):
            for p in os.listdir(d):
                if p != 'biogeme.toml':
                    os.unlink(d / p)
            if saved_old is not None:
                Path(d / fname).write_text(saved_old, encoding='utf-8')
            crash_child(d, names, tag, x_new, k)
            got = read_file(d / fname)
            observed.append(got)
            res.tally('crash_points')
            if got != saved_old and got != new:
                res.violate(
                    f'a stop after primitive file operation {k} of a save leaves a partial iteration file',
                    {**case, 'crash_after': k, 'trace': full},
                    got,
                    [saved_old, new],
                    where='calculate_likelihood_and_derivatives: write of the iteration file',
                )
            else:
                # the restart must succeed from whatever is there
                cwd = os.getcwd()
                try:
                    os.chdir(d)
                    B2 = build(names, tag)
                    B2._load_saved_iteration()
                except Exception as e:  # noqa: BLE001
                    res.violate(
                        f'restart fails after a stop at primitive operation {k}: {type(e).__name__}: {e}',
                        {**case, 'crash_after': k}, got, 'restart succeeds', where='_load_saved_iteration')
                finally:
                    os.chdir(cwd)
        # (i) the recorded protocol is the one of theorem crash_safe, for its own chunks
        chunks = [op[2] for op in full if op[0] == 'write']
        tmp = full[0][1] if full and full[0][0] == 'open' else None
        req = [
            {'op': 'protocol', 'tmp': tmp or '?', 'file': fname, 'chunks': chunks},
            {'op': 'crash', 'dir': ([[fname, old]] if old is not None else []), 'ops': full, 'file': fname, 'new': new or ''},
        ]
        res.count({'crash_protocol': case, 'trace': full}, nontrivial=x_old is not None)
        res.traces_validated += 1

        def cb(ans):
            shape_ok = ans[0].get('ops') == full and ans[0].get('content') == new and tmp != fname
            if not shape_ok:
                res.diverge('write protocol differs from IterFile.protocol (hypothesis of C15.crash_safe)', case, ans[0].get('ops'), full)
            if not ans[1].get('safe'):
                res.diverge('recorded protocol is not crash safe in the model', case, ans[1], full)
            states = ans[1].get('states', [])
            for k, got in enumerate(observed):
                ms = states[k] if k < len(states) else '<none>'
                if got != ms:
                    res.diverge(f'directory after a stop at primitive operation {k}', case, ms, got)

        ctx.batch.add_many(req, cb)


# ----- the check ----------------------------------------------------------------------------------

CORPUS = [
    # F08: latest-not-worse-than-first instead of best
    {'names': ['b'], 'pts': [[-1.0], [0.25], [0.0]]},
    {'names': ['zeta', 'alpha'], 'pts': [[0.0, 0.0], [0.16, 0.32], [0.1, 0.1], [2.0, 0.0], [0.5, 0.5]]},
    # F16: '=' in a name
    {'names': ['asc=1', 'b'], 'pts': [[0.0, 0.0], [0.1, 0.1]]},
    # a high-likelihood point with infinite gradient must not raise the best-so-far marker
    {'names': ['b'], 'pts': [[0.5], [-1.0], [-0.5], [-0.8]]},
    {'names': ['zeta', 'alpha'], 'pts': [[0.5, 0.5], [0.16, -1.0], [0.16, -0.5], [0.16, -0.8]]},
]


def check_history(ctx, res, names, pts, tag):
    sorted_names, steps, restart, others = run_history(names, pts, tag)
    case = {'names': names, 'points': pts}
    worse_or_nonfinite = any(
        (not s['finite']) or (i > 0 and s['f'] < max([t['f'] for t in steps[:i] if t['finite']] or [-math.inf]))
        for i, s in enumerate(steps)
    )
    res.count(case, nontrivial=worse_or_nonfinite and len(steps) >= 2)
    for s in steps:
        res.tally('finite' if s['finite'] else 'nonfinite')
    # property oracle on the real outputs
    for i, s in enumerate(steps):
        why = oracle_file(sorted_names, s['file'], steps[: i + 1])
        if why:
            res.violate(
                f'iteration file after evaluation {i}: {why}',
                {**case, 'step': i, 'f': [t['f'] for t in steps[: i + 1]], 'finite': [t['finite'] for t in steps[: i + 1]]},
                s['file'],
                'complete file holding the best evaluated point with finite derivatives',
                where='calculate_likelihood_and_derivatives (save_iterations)',
            )
            break
    if others:
        res.notes.append(f'other files left in the directory: {others}')
        if any(not o.endswith('.tmp') for o in others):
            res.diverge('unexpected files next to the iteration file', case, [], others)
    final = steps[-1]['file'] if steps else None
    toks = tokens_of_file(final, sorted_names)
    if restart is not None and not restart['ok']:
        res.violate(
            f'restart from the saved file fails: {restart["error"]}', case, restart, 'restart succeeds', where='_load_saved_iteration')
    # model (deferred: one driver batch for the whole run)
    reqs = [{
        'op': 'history',
        'init_file': None,
        'evals': [{'x': [str(np.float64(v)) for v in s['x']], 'f': f2b(s['f']), 'finite': s['finite']} for s in steps],
    }]
    if restart is not None and restart['ok']:
        inits = [[n, repr(restart['before'][n])] for n in sorted_names]
        filej = None if toks is None else [[n, t] for n, t in zip(sorted_names, toks)]
        reqs.append({'op': 'restart', 'inits': inits, 'file': filej})
    else:
        reqs.append({'op': 'restart', 'inits': [], 'file': None})
    well = toks is not None and toks != ['<malformed>']
    render_reqs = [{'op': 'render', 'name': n, 'value': t} for n, t in zip(sorted_names, toks)] if well else []
    parse_reqs = [{'op': 'parse', 'line': l} for l in final.split('\n')[:-1]] if well else []

    def cb(ans):
        model_files = ans[0].get('files')
        for i, s in enumerate(steps):
            got = tokens_of_file(s['file'], sorted_names)
            exp = model_files[i] if model_files else '<no model>'
            if got != exp:
                res.diverge(f'file content after evaluation {i}', case, exp, got)
        if restart is not None and restart['ok']:
            exp = {n: float(v) for n, v in ans[1]['inits']}
            got = restart['values']
            if {n: f2b(v) for n, v in exp.items()} != {n: f2b(v) for n, v in got.items()}:
                res.diverge('starting values after _load_saved_iteration', case, exp, got)
                if well:
                    res.violate('a later estimation does not start from the saved values', case, got, exp, where='_load_saved_iteration')
        if well:
            lines = final.split('\n')[:-1]
            r_out = ans[2 : 2 + len(render_reqs)]
            p_out = ans[2 + len(render_reqs) :]
            if [o.get('line') for o in r_out] != lines:
                res.diverge('text of the file vs IterFile.renderLine', case, [o.get('line') for o in r_out], lines)
            exp_pairs = [[n, t] for n, t in zip(sorted_names, toks)]
            got_pairs = [[o.get('name'), o.get('value')] for o in p_out]
            if got_pairs != exp_pairs:
                res.diverge('IterFile.parseLine on the real file text', case, got_pairs, exp_pairs)

    ctx.batch.add_many(reqs + render_reqs + parse_reqs, cb)
    return steps


def check(ctx) -> Result:
    res = Result(rule=RULE, tolerance='exact (bit patterns and strings)')
    rng = ctx.rng
    tagc = 0
    for c in CORPUS:
        tagc += 1
        check_history(ctx, res, c['names'], c['pts'], f'm{tagc}')
        res.tally('corpus')
    n_hist = ctx.n(40, 1500)
    for _ in range(n_hist):
        k = rng.randint(1, 3)
        names = rng.sample(NAME_POOL, k)
        pts = gen_history(rng, k)
        tagc += 1
        check_history(ctx, res, names, pts, f'm{tagc}')
        res.tally(f'params={k}')
        res.tally(f'len={len(pts)}')
        if len(res.violations) > 3:
            break
    # crash points
    n_crash = ctx.n(2, 12)
    for i in range(n_crash):
        k = rng.randint(1, 3)
        names = rng.sample(NAME_POOL, k)
        x_old = None if i == 0 else [rng.uniform(-1, 0.0) for _ in range(k)]
        x_new = [0.16 * (j + 1) for j in range(k)]
        tagc += 1
        crash_experiment(ctx, res, names, f'm{tagc}', x_old, x_new)
    # a real estimate() starts from the file (spy on the first evaluated point)
    for i in range(ctx.n(3, 10)):
        k = rng.randint(1, 3)
        names = rng.sample(NAME_POOL, k)
        estimate_restart(ctx, res, names, [rng.choice([0.0, 0.0, rng.randint(-6, 6) / 8.0]) for _ in range(k)], f'e{i}')
    ctx.batch.flush()
    return res


def estimate_restart(ctx, res, names, saved, tag):
    import biogeme.biogeme as bio

    with core.scratch(TOML):
        B = build(names, tag)
        sorted_names = list(B.free_beta_names)
        Path(f'__{tag}.iter').write_text(''.join(f'{n} = {v}\n' for n, v in zip(sorted_names, saved)), encoding='utf-8')
        seen = []
        orig = bio.BIOGEME.calculate_likelihood_and_derivatives

        def spy(self, x, *a, **k):
            seen.append([float(v) for v in x])
            return orig(self, x, *a, **k)

        orig_l = bio.BIOGEME.calculate_likelihood

        def spy_l(self, x, *a, **k):
            seen.append([float(v) for v in x])
            return orig_l(self, x, *a, **k)

        bio.BIOGEME.calculate_likelihood_and_derivatives = spy
        bio.BIOGEME.calculate_likelihood = spy_l
        try:
            B.generate_html = False
            B.generate_pickle = False
            B.estimate()
        except Exception as e:  # noqa: BLE001
            res.notes.append(f'estimate() raised {type(e).__name__}: {e}')
        finally:
            bio.BIOGEME.calculate_likelihood_and_derivatives = orig
            bio.BIOGEME.calculate_likelihood = orig_l
        case = {'names': names, 'saved': saved}
        res.count({'estimate_restart': case}, nontrivial=True)
        if not seen:
            res.diverge('estimate() evaluated nothing', case, saved, seen)
        elif [f2b(v) for v in seen[0]] != [f2b(v) for v in saved]:
            res.diverge('first point evaluated by estimate()', case, saved, seen[0])
            res.violate('a later estimation does not start from the saved values', case, seen[0], saved, where='estimate / _load_saved_iteration')


def search(ctx, res, broken):
    """something broke without a concrete failing input: widen the generated stream and apply the
    property oracle on the real code"""
    rng = core.rng_for('C15-search', ctx.seed)
    for i in range(300):
        k = rng.randint(1, 3)
        names = rng.sample(NAME_POOL, k)
        pts = gen_history(rng, k)
        r2 = Result()
        try:
            check_history(ctx, r2, names, pts, f's{i}')
            ctx.batch.items.clear()
        except core.LeanError:
            # model unavailable: oracle only
            sorted_names, steps, restart, _ = run_history(names, pts, f's{i}')
            for j, s in enumerate(steps):
                why = oracle_file(sorted_names, s['file'], steps[: j + 1])
                if why:
                    r2.violate(f'iteration file after evaluation {j}: {why}', {'names': names, 'points': pts}, s['file'], 'best finite point')
                    break
            if restart and not restart['ok']:
                r2.violate(f'restart fails: {restart["error"]}', {'names': names, 'points': pts}, restart, 'restart succeeds')
        if r2.violations:
            res.violations.extend(r2.violations[:1])
            return


def replay(ctx, obj):
    case = obj.get('case', {})
    out = {'replayed': obj.get('what')}
    if 'points' in case:
        sorted_names, steps, restart, _ = run_history(case['names'], case['points'], 'replay')
        fails = None
        for j, s in enumerate(steps):
            why = oracle_file(sorted_names, s['file'], steps[: j + 1])
            if why:
                fails = f'step {j}: {why}'
                break
        if restart and not restart['ok']:
            fails = fails or restart['error']
        out.update({'observed': [s['file'] for s in steps], 'f': [s['f'] for s in steps], 'property_fails': bool(fails), 'why': fails})
    elif 'crash_after' in case:
        r = Result()
        crash_experiment(ctx, r, case['names'], 'replay', case.get('x_old'), case['x_new'])
        ctx.batch.items.clear()
        out.update({'property_fails': bool(r.violations), 'violations': r.violations[:2]})
    else:
        out.update({'property_fails': False, 'note': 'nothing to replay (no concrete input in this file)'})
    return out
