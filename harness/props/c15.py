"""C15 — the saved-iteration file is always a sound restart point.

Tie: correspondence (C).  Real `BIOGEME` objects with `save_iterations` on receive generated
histories of `calculate_likelihood_and_derivatives`; the file `__<model>.iter` is read after
every call and compared with the Lean model (`IterFile.trace`) and with the property oracle
(best finite point so far, complete lines, bit-for-bit values).  Sessions: the 1-3 objects of ONE working directory
(often sharing a model name) receive generated sequences of public calls (direct evaluations with every combination of
scaled/hessian/bhhh, check_derivatives, the finite-difference hessian, estimate - several times, before and after renames,
with each of the optimisation algorithms -, quick_estimate, estimate with bootstrapping) interleaved with assignments of
modelName; every derivative evaluation is recorded (wrapped public method) with all iteration files after it, and compared
with the world model (`IterFile.wtrace`) and with the session oracle (`oracle_session`).

Crash points (round 3): one fresh interpreter per experiment forks one child per crash point.  The child records the REAL
primitives of the save (the file object returned by `open`: write / writelines / flush / close with the real buffering;
`os.replace` / `os.rename` / `os.remove`) and is stopped with `os._exit` right after its k-th primitive (buffered text is
lost, as for a killed process); the parent reads the directory and a second child performs the real restart
(`_load_saved_iteration`, then a full `estimate()`).  The Lean model of the recorded primitives (`IterFile.crashB` for
every k, with user-space buffers and handles that follow a renamed file) decides which prefixes are unsafe
(`unsafePoints`, sound by `C15.unsafePoints_nil_safe`), predicts the directory at every crash point (compared with the
real one) and names the shape (`protocolB`: `C15.crash_safe_buffered`; family `tmpThenReplace`:
`C15.tmp_then_replace_safe`; `protocolReplaceBeforeClose`: `C15.replace_before_close_unsafe`).  A second, independent stream
stops the child before every executed LINE of the saving function.  The property oracle (`oracle_crash`) is applied to the
real directory at every crash point; a violation is reported with that crash point as replay.
"""

from __future__ import annotations

import json
import math
import os
import subprocess
import sys
from pathlib import Path

import numpy as np

from lib import core
from lib.core import Result, f2b

READY = True
MANIFEST = dict(
    text='Proof (Lean 4): for every history of evaluations the iteration file holds the best evaluated point with finite gradient '
    '(invariant by induction, C15.file_is_best / every_prefix_is_best / never_below_start); re-reading a rendered line returns name and value '
    '(C15.parse_render, names may contain "="); restart overrides exactly the saved names (a saved 0.0 included). Write protocol with user-space buffers '
    '(write = buffered, text in the file only after flush/close, an open handle follows a renamed file): tmp-close-rename is safe at every crash point '
    '(C15.crash_safe_buffered, all k, all chunk lists), so is every protocol "anything on the temporary file, then one rename" (C15.tmp_then_replace_safe, '
    'C15.crash_before_publish_keeps_file); the shape "rename inside the with block" is unsafe for every non-empty text (C15.replace_before_close_unsafe), '
    'rewriting in place too (C15.in_place_unsafe); the decision taken by the driver on a recorded trace is sound (C15.unsafePoints_nil_safe). '
    'Sessions (C15.session_*): the best point is in the file of the name the object had when it was evaluated, the scaled flag is irrelevant, an evaluation '
    'touches only the file of the current name, the first finite point after estimate() is saved under the current name (estimate, rename, estimate), '
    'evaluations on bootstrap resamples change nothing (repaired behaviour, finding FC15-boot). Several objects in one directory (C15.world_*): every file '
    'holds a point evaluated with finite gradient by one of the objects, objects do not disturb each other\'s marker. '
    'Tie: correspondence on real BIOGEME objects (file read after every call, real restart); real primitives recorded with the real buffering, the model of the '
    'recorded primitives compared with the real directory at EVERY crash point (child stopped with os._exit after the k-th primitive), real '
    '_load_saved_iteration + estimate() after every stop; independent crash points before every executed line of the saving function; sessions on the objects of '
    'one directory through every entry point that evaluates derivatives (8 optimisation algorithms, bootstrap, quick_estimate, renames, shared model names); '
    '_load_saved_iteration on files not written by the model (other parameter sets, repeated names, blanks, values exactly 0).',
    design='DESIGN.md §5 C15',
    technique='Lean 4 theorems over an executable state-machine model + differential correspondence with real BIOGEME runs and crash injection at recorded primitives and at executed lines',
    note='Partial: CPython float repr/parse round trip and OS rename atomicity are trusted; f and the finite-gradient flag come from the engine; '
    'files larger than one I/O buffer are checked by the oracle only (the model has no automatic flush); finding FC15-boot (bootstrap iterates overwrote the file) is repaired in /repo by feecadb; its matcher suppresses nothing any more.',
)

TRUSTED = [
    'CPython str(float)/float() round trip (values are opaque tokens in the model)',
    'the engine computes f and the gradient; the model receives the real f and the finite-gradient flag',
    'OS: rename is atomic; a stopped process leaves on disk what the completed primitives put there and loses the user-space buffers (os._exit in a forked child reproduces it); '
    'a machine crash that loses flushed-but-not-synced data is outside the model',
    'the recorders see the file object returned by open()/io.open() for paths containing ".iter" and os.replace/rename/remove/unlink; a save that bypasses them '
    '(os.open/os.write) is seen by the comparison of the final directory with the model and by the crash points by executed line',
]
ASSUMPTIONS = [
    'likelihood values compared by >= are not NaN (GeOK hypothesis of the theorems)',
    'sessions: the sample size is 4, so the value returned by a scaled call times N is exactly the log likelihood on the data '
    '(checked against calculate_likelihood on every recorded point evaluated on the estimation data)',
    'crash model: iteration files smaller than one I/O buffer (no automatic flush); larger files go through the oracle only',
    '"best evaluated so far" is read per estimation of one object: another object (or a new estimation) sharing the model name starts a new marker',
]
RULE = (
    'histories of 1-8 evaluations (improving, worsening, tied, non-finite) on 1-3 parameter concave '
    'likelihoods with adversarial names; non-trivial = history with >= 1 worsening or non-finite step after a finite one; '
    'sessions of 3-9 public operations on the 1-3 objects of one directory (eval with random scaled/hessian/bhhh flags, check_derivatives, finite-difference hessian, '
    'estimate up to 3 times, quick_estimate, bootstrap, modelName assignments, points with coordinates exactly 0.0/-0.0): non-trivial = >= 2 recorded evaluations and '
    '(finite evaluations with both scaled flags, or a rename after the first evaluation, or two objects evaluating under one model name); '
    'crash experiments: one save over nothing / over an existing file, every primitive and every executed line as crash point; '
    'load: 0-5 hand-written lines over the names of the model and foreign names'
)

# max_iterations: every optimisation algorithm stops (a degenerate bootstrap resample can keep some of them busy for
# minutes); the number of iterations is irrelevant for the property
TOML = '[SimpleBounds]\nmax_iterations = 40\n[Estimation]\nsave_iterations = "True"\nbootstrap_samples = 3\n'

NAME_POOL = ['b10', 'b2', 'alpha', 'zeta', 'B_TIME', 'asc=1', 'β_coût', 'x y', 'a=b=c', 'Z', 'a']


def build(names, tag, rows=3, variant=0):
    """a concave likelihood in the given free parameters; parameter k is non-finite beyond ~1.01.
    `tag` None: the model is not named (default model name).  `rows` = 4: a sample size that is a power of
    two, so that the value returned by a scaled call times N is exactly the log likelihood on the data."""
    import pandas as pd
    import biogeme.biogeme as bio
    import biogeme.database as db
    from biogeme.expressions import Beta, Variable, exp

    # variant > 0: another data set (another model of the same directory has its own data); dyadic values
    xs = [v + 0.125 * variant * (1 if i % 2 else -2) for i, v in enumerate([0.25, 0.5, -0.25, 0.375])]
    df = pd.DataFrame({'X': xs[:rows], 'Y': [700.0] * rows})
    d = db.Database('t', df)
    X = Variable('X')
    Y = Variable('Y')
    ll = None
    for k, n in enumerate(names):
        b = Beta(n, 0.3 + 0.1 * k, None, None, 0)
        if n == sorted(names)[-1]:
            term = -((b + 0.9 - X * 0.1) ** 2)       # optimum of the last parameter near -0.88, next to the singularity at -1
        else:
            term = -((b - X * (k + 1)) ** 2)
        ll = term if ll is None else ll + term
    b0 = Beta(names[0], 0.3, None, None, 0)
    ll = ll - exp(b0 * Y) * 1e-300
    # a term with a finite value but an infinite derivative at b_last = -1 (a point with non-finite gradient whose
    # likelihood is NOT low), zero contribution elsewhere up to 1e-3
    bl = Beta(sorted(names)[-1], 0.3 + 0.1 * names.index(sorted(names)[-1]), None, None, 0)
    ll = ll + ((bl + 1.0) ** 0.5) * 0.001
    B = bio.BIOGEME(d, ll)
    if tag is not None:
        B.modelName = tag
    return B


def read_file(path):
    if not os.path.exists(path):
        return None
    return Path(path).read_text(encoding='utf-8')


def oracle_file(sorted_names, text, evals):
    """property oracle, written from the statement: None when the file is acceptable, else why"""
    finite = [e for e in evals if e['finite']]
    if text is None:
        return None if not finite else 'no file although a finite point was evaluated'
    if not finite:
        return 'file exists although no finite point was evaluated'
    vals, why = parse_iter(sorted_names, text)
    if why:
        return why
    best = max(e['f'] for e in finite)
    for e in finite:
        if e['f'] == best and [f2b(v) for v in e['x']] == [f2b(v) for v in vals]:
            return None
    for e in evals:
        if [f2b(v) for v in e['x']] == [f2b(v) for v in vals]:
            return f'file holds an evaluated point with f={e["f"]}, finite={e["finite"]}; best finite f so far is {best}'
    return 'file holds a point that was never evaluated (bit-for-bit)'


def gen_history(rng, k):
    n = rng.randint(1, 8)
    pts = []
    if rng.random() < 0.3:
        # poor start, then a high point with infinite gradient, then points in between (must be saved)
        opt = [0.16 * (j + 1) for j in range(k)]
        opt[-1] = -0.88
        pts.append([0.5] * k)
        sing = list(opt)
        sing[-1] = -1.0
        pts.append(sing)
        mid = list(opt)
        mid[-1] = -0.5
        pts.append(mid)
        mid2 = list(opt)
        mid2[-1] = -0.8
        pts.append(mid2)
    for i in range(n):
        kind = rng.choice(['rand', 'rand', 'rand', 'repeat', 'nonfinite', 'better'])
        if kind == 'repeat' and pts:
            pts.append(list(rng.choice(pts)))
        elif kind == 'nonfinite':
            x = [rng.uniform(-1, 0.9) for _ in range(k)]
            if rng.random() < 0.5:
                x[0] = rng.choice([2.0, 5.0, 1.5])      # overflow: f = -inf
            else:
                x = [0.16 * (j + 1) for j in range(k)]   # near the optimum in the other coordinates ...
                x[-1] = -1.0                              # ... and on the singularity: f finite and high, gradient infinite
                if k == 1:
                    pass
            pts.append(x)
        elif kind == 'better':
            x = [0.16 * (j + 1) + rng.uniform(-0.05, 0.05) for j in range(k)]
            x[-1] = -0.88 + rng.uniform(-0.05, 0.05)
            pts.append(x)
        else:
            pts.append([rng.choice([rng.uniform(-1, 0.9), rng.randint(-8, 7) / 8.0]) for _ in range(k)])
    return pts


def run_history(names, pts, tag, second=True):
    """real code: returns per step (f, finite, file text), then what a restart reads"""
    out = []
    with core.scratch(TOML):
        B = build(names, tag)
        fname = f'__{tag}.iter'
        sorted_names = list(B.free_beta_names)
        for x in pts:
            r = B.calculate_likelihood_and_derivatives(np.array(x, dtype=float), scaled=False, hessian=False, bhhh=False)
            g = np.linalg.norm(r.gradient)
            out.append({'x': list(map(float, x)), 'f': float(r.function), 'finite': bool(np.isfinite(g)), 'file': read_file(fname)})
        restart = None
        if second:
            B2 = build(names, tag)
            before = dict(zip(B2.free_beta_names, map(float, B2.id_manager.free_betas_values)))
            try:
                B2._load_saved_iteration()
                restart = {'ok': True, 'values': dict(zip(B2.free_beta_names, map(float, B2.id_manager.free_betas_values))), 'before': before}
            except Exception as e:  # noqa: BLE001
                restart = {'ok': False, 'error': f'{type(e).__name__}: {e}', 'before': before}
        others = sorted(p for p in os.listdir('.') if p not in ('biogeme.toml', fname))
    return sorted_names, out, restart, others


def tokens_of_file(text, sorted_names):
    """value tokens of a well-formed file (used for the comparison with the model), else None"""
    if text is None:
        return None
    lines = text.split('\n')[:-1]
    toks = []
    for n, l in zip(sorted_names, lines):
        pre = f'{n} = '
        if not l.startswith(pre):
            return ['<malformed>']
        toks.append(l[len(pre):])
    if len(lines) != len(sorted_names):
        return ['<malformed>']
    return toks


# ----- sessions: several public entry points, option combinations and renames on ONE object --------------

MODEL_NAMES = ['pilot', 'final', 'm', 'M', 'm2', 'run 1', 'modèle', 'a.iter', 'b=1', 'x.tmp', '__m', 'mnl:time', 'a?b', 'q*']
# model NAMES as an input dimension: names of one group differ by one special character / case / blank / look-alike
# (the map name -> __<name>.iter is injective; the code's file name must be observed to be).  No '/' (not a file name)
# and no NUL.
NEAR_NAMES = [
    ['mnl:time', 'mnl_time', 'mnl?time', 'mnl*time', 'mnl|time', 'mnl time', 'mnl<time', 'mnl>time', 'mnl"time', 'mnl\\time', 'MNL_time', 'mnl-time', 'mnl.time'],
    ['modèle', 'modele', 'mode\u0300le', 'MODÈLE', 'modéle', 'mod_le'],
    ['a?b', 'a*b', 'a_b', 'a b', 'A_b', 'a__b', 'a_b ', ' a_b', 'a_b.iter'],
    ['run1', 'run 1', 'run_1', 'Run1', 'run１', 'run1.', 'run1~', 'run01'],
]


def parse_iter(sorted_names, text):
    """complete `name = value` lines, one per free parameter: (values, None) or (None, why)"""
    lines = text.split('\n')
    if lines[-1] != '':
        return None, 'last line incomplete'
    lines = lines[:-1]
    if len(lines) != len(sorted_names):
        return None, f'{len(lines)} lines for {len(sorted_names)} free parameters'
    vals = []
    for n, l in zip(sorted_names, lines):
        pre = f'{n} = '
        if not l.startswith(pre):
            return None, f'line {l!r} does not start with {pre!r}'
        try:
            vals.append(float(l[len(pre):]))
        except ValueError:
            return None, f'value of line {l!r} is not a float'
    return vals, None


def iter_files():
    """model name -> text of __<name>.iter, for every iteration file of the working directory"""
    return {p[2:-5]: read_file(p) for p in sorted(os.listdir('.')) if p.startswith('__') and p.endswith('.iter')}


def gen_point(rng, k, pts, kinds=('rand', 'rand', 'rand', 'repeat', 'nonfinite', 'better', 'better')):
    kind = rng.choice(kinds)
    if kind == 'repeat' and pts:
        return list(rng.choice(pts))
    if kind == 'nonfinite':
        x = [rng.uniform(-1, 0.9) for _ in range(k)]
        if rng.random() < 0.5:
            x[0] = rng.choice([2.0, 5.0, 1.5])           # overflow: f = -inf
        else:
            x = [0.16 * (j + 1) for j in range(k)]
            x[-1] = -1.0                                   # f finite and high, gradient infinite
        return x
    if kind == 'better':
        x = [0.16 * (j + 1) + rng.uniform(-0.05, 0.05) for j in range(k)]
        x[-1] = -0.88 + rng.uniform(-0.05, 0.05)
        return x
    if kind == 'zero':
        # coordinates that are exactly 0.0 / -0.0 (the default values of the model are not 0)
        x = [rng.choice([0.0, 0.0, -0.0, 0.16 * (j + 1)]) for j in range(k)]
        x[rng.randrange(k)] = rng.choice([0.0, -0.0])
        return x
    return [rng.choice([rng.uniform(-1, 0.9), rng.randint(-8, 7) / 8.0]) for _ in range(k)]


def gen_session(rng, k):
    """operations on the BIOGEME objects of one working directory (1-3 objects, often sharing a model name): direct
    evaluations with every combination of scaled/hessian/bhhh (array or list argument), check_derivatives,
    finite-difference hessian, estimate (several times, before and after renames), quick_estimate, estimate with
    bootstrapping, and assignments of modelName at any moment (before the first use, after it, back to an earlier name).
    Returns (names of the objects at construction, ops); every op has the number 'obj' of its object."""
    name0 = None if rng.random() < 0.45 else rng.choice(MODEL_NAMES)
    shape = rng.choice(['free', 'free', 'late_name', 'mixed_scale', 'objects', 'est_rename_est', 'zero_start', 'near_names', 'near_names'])
    n_obj = 1
    if shape in ('objects', 'near_names') or rng.random() < 0.15:
        n_obj = rng.choice([2, 2, 3])
    objs = [name0]
    for _ in range(n_obj - 1):
        objs.append(rng.choice([name0, name0, rng.choice(MODEL_NAMES), None]))
    pool = MODEL_NAMES
    if shape == 'near_names':
        # different models (each with its own data) whose names nearly collide; renames stay inside the group
        pool = rng.choice(NEAR_NAMES)
        objs = rng.sample(pool, n_obj)
    n = rng.randint(3, 9)
    ops, pts = [], []
    first_scaled = rng.random() < 0.5
    n_est = 0
    max_est = 3 if shape == 'est_rename_est' else 2
    for i in range(n):
        r = rng.random()
        o = rng.randrange(n_obj)
        if shape == 'late_name' and i == 0:
            r = rng.choice([0.0, 0.0, 0.75])
        if shape == 'late_name' and i == 1:
            r = 0.6
        if shape == 'mixed_scale':
            r = r * 0.62                                     # evaluations and renames only
        if shape == 'est_rename_est':
            r = [0.95, 0.6, 0.95, r, 0.6, 0.95, r, r, r][i]
        if shape == 'zero_start' and i < 2:
            r = [0.0, 0.95][i]
        if r < 0.55:
            kinds = ('rand', 'rand', 'rand', 'repeat', 'nonfinite', 'better', 'better', 'zero')
            if shape == 'zero_start' and i == 0:
                kinds = ('zero',)
            x = gen_point(rng, k, pts, kinds)
            pts.append(x)
            scaled = rng.random() < 0.5
            if shape == 'mixed_scale':
                scaled = first_scaled if len(pts) % 2 else not first_scaled
            ops.append({'k': 'eval', 'x': x, 'scaled': scaled, 'hessian': rng.random() < 0.3, 'bhhh': rng.random() < 0.2,
                        'aslist': rng.random() < 0.3})
        elif r < 0.72:
            ops.append({'k': 'rename', 'name': rng.choice(pool)})
        elif r < 0.81:
            x = gen_point(rng, k, pts, kinds=('rand', 'better', 'nonfinite'))
            ops.append({'k': 'check', 'x': x})
        elif r < 0.88:
            x = gen_point(rng, k, pts, kinds=('rand', 'better'))
            ops.append({'k': 'fdh', 'x': x})
        elif n_est < max_est:
            n_est += 1
            if rng.random() < 0.25:
                ops.append({'k': 'randinit', 'seed': rng.randrange(1000)})     # set_random_init_values -> change_init_values
                ops[-1]['obj'] = o
            ops.append({'k': rng.choice(['estimate', 'estimate', 'estimate', 'quick_estimate', 'quick_estimate', 'bootstrap'])})
            if ops[-1]['k'] == 'estimate' and rng.random() < 0.2:
                ops[-1]['recycle'] = True          # no pickle file exists: the estimation is performed
        else:
            ops.append({'k': 'rename', 'name': rng.choice(pool)})
        ops[-1]['obj'] = o
    boots = [i for i, op in enumerate(ops) if op['k'] == 'bootstrap']
    if boots and rng.random() < 0.7:
        ops.append(ops.pop(boots[0]))        # mostly as the last operation
    if shape == 'near_names':
        # interleaved use: every object evaluates at least once, and one of them is estimated at the end
        for o in range(n_obj):
            x = gen_point(rng, k, pts, ('rand', 'better', 'zero'))
            ops.insert(rng.randint(0, len(ops)), {'k': 'eval', 'x': x, 'scaled': rng.random() < 0.5, 'hessian': False, 'bhhh': False, 'aslist': False, 'obj': o})
        ops.append({'k': 'estimate', 'obj': rng.randrange(n_obj)})
    return objs, ops, shape == 'near_names'


WHERE_SESSION = 'iteration file over a session on one object (entry points, scaled flags, modelName)'
WHERE_BOOT = 'estimate(run_bootstrap=True): iteration file while the bootstrap samples are estimated'


def norm_objs(name0):
    """the names of the objects at construction: a case of earlier rounds gives the name of its single object"""
    return list(name0) if isinstance(name0, list) else [name0]


# simple_bounds_BFGS is left out: on a degenerate bootstrap resample it does not return within minutes
ALGOS = [None, None, None, 'scipy', 'LS-newton', 'TR-newton', 'LS-BFGS', 'TR-BFGS', 'simple_bounds_newton']


def pick_algo(rng, ops):
    """the optimisation algorithm of a session; sessions that bootstrap use the default one (resamples of 4 rows are often
    degenerate and some algorithms then run for minutes)"""
    a = rng.choice(ALGOS)
    return None if any(o['k'] == 'bootstrap' for o in ops) else a


def toml_for(algo):
    return TOML if not algo else TOML + f'optimization_algorithm = "{algo}"\n'


def run_session(names, name0, ops, rows=4, algo=None, own_data=False):
    """real code: every derivative evaluation of the objects is recorded by wrapping the public method (object, point,
    flags, model name at the call, log likelihood, finite gradient, whether the engine held a bootstrap resample, all
    iteration files after the call)"""
    import biogeme.biogeme as bio

    events, errors = [], []
    with core.scratch(toml_for(algo)):
        Bs = [build(names, nm, rows=rows, variant=(i if own_data else 0)) for i, nm in enumerate(norm_objs(name0))]
        for B in Bs:
            B.generate_html = False
            B.generate_pickle = False
        sorted_names = list(Bs[0].free_beta_names)
        start_names = [B.modelName for B in Bs]
        n_obs = float(Bs[0].database.get_sample_size())
        cur = {'op': None, 'first': None, 'boot': False, 'obj': None}
        orig = bio.BIOGEME.calculate_likelihood_and_derivatives
        orig_l = bio.BIOGEME.calculate_likelihood

        def index_of(obj):
            for i, B in enumerate(Bs):
                if obj is B:
                    return i
            return None

        def spy(self, x, scaled, hessian=False, bhhh=False, batch=None):
            oi = index_of(self)
            if oi is None:
                return orig(self, x, scaled, hessian, bhhh, batch)
            name = self.modelName
            xs = [float(v) for v in x]
            if cur['first'] is None and oi == cur['obj']:
                cur['first'] = xs
            r = orig(self, x, scaled, hessian, bhhh, batch)
            f = float(r.function) * (n_obs if scaled else 1.0)
            g = np.linalg.norm(r.gradient)
            events.append({'k': 'eval', 'op': cur['op'], 'obj': oi, 'name': name, 'x': xs, 'scaled': bool(scaled), 'hessian': bool(hessian),
                           'bhhh': bool(bhhh), 'f': f, 'finite': bool(np.isfinite(g)), 'boot': bool(cur['boot'] and oi == cur['obj']),
                           'files': iter_files()})
            return r

        def spy_l(self, x, *a, **kw):
            if index_of(self) == cur['obj'] and cur['first'] is None:
                cur['first'] = [float(v) for v in x]
            return orig_l(self, x, *a, **kw)

        def resampler(real):
            def f(*a, **kw):
                cur['boot'] = True            # from now on the engine holds a resample (until estimate() returns)
                return real(*a, **kw)
            return f

        for B in Bs:
            B.database.sample_with_replacement = resampler(B.database.sample_with_replacement)
        bio.BIOGEME.calculate_likelihood_and_derivatives = spy
        bio.BIOGEME.calculate_likelihood = spy_l
        try:
            for i, op in enumerate(ops):
                oi = op.get('obj', 0)
                B = Bs[oi]
                cur.update(op=i, first=None, boot=False, obj=oi)
                k = op['k']
                ev = None
                try:
                    if k == 'eval':
                        x = list(op['x']) if op.get('aslist') else np.array(op['x'], dtype=float)
                        B.calculate_likelihood_and_derivatives(x, scaled=op['scaled'], hessian=op['hessian'], bhhh=op['bhhh'])
                    elif k == 'check':
                        B.check_derivatives(np.array(op['x'], dtype=float))
                    elif k == 'fdh':
                        B.likelihood_finite_difference_hessian(np.array(op['x'], dtype=float))
                    elif k == 'rename':
                        B.modelName = op['name']
                        events.append({'k': 'rename', 'op': i, 'obj': oi, 'name': op['name'], 'files': iter_files()})
                    elif k in ('estimate', 'bootstrap'):
                        files = iter_files()
                        ev = {'k': 'reset', 'op': i, 'obj': oi, 'name': B.modelName, 'file_before': files.get(B.modelName), 'files': files, 'first': None}
                        events.append(ev)
                        if k == 'bootstrap':
                            B.estimate(run_bootstrap=True)
                        elif op.get('recycle'):
                            B.estimate(recycle=True)
                        else:
                            B.estimate()
                    elif k == 'randinit':
                        np.random.seed(op['seed'])
                        B.set_random_init_values(default_bound=0.9)
                    elif k == 'quick_estimate':
                        B.quick_estimate()
                    else:
                        raise ValueError(k)
                except Exception as e:  # noqa: BLE001
                    errors.append(f'op {i} ({k}): {type(e).__name__}: {e}')
                finally:
                    if ev is not None:
                        ev['first'] = cur['first']
                    cur['boot'] = False
        finally:
            bio.BIOGEME.calculate_likelihood_and_derivatives = orig
            bio.BIOGEME.calculate_likelihood = orig_l
        # reference values of the log likelihood on the data (no derivatives, nothing is saved), for the sanity
        # check of the recorded values and for the report
        ref = []
        for ev in events:
            if ev['k'] == 'eval':
                try:
                    ref.append(float(Bs[ev.get('obj', 0)].calculate_likelihood(np.array(ev['x'], dtype=float), scaled=False)))
                except Exception:  # noqa: BLE001
                    ref.append(None)
        others = sorted(p for p in os.listdir('.') if p != 'biogeme.toml' and not (p.startswith('__') and p.endswith('.iter')))
        listing = sorted(p for p in os.listdir('.') if p.endswith('.iter'))
    return {'listing': listing, 'sorted_names': sorted_names, 'start_names': start_names, 'events': events, 'errors': errors, 'ref': ref, 'others': others}


def oracle_session(sorted_names, events):
    """property oracle on a session, written from the statement (independent of the Lean model).  After EVERY derivative
    evaluation of an object of the directory, whatever the entry point and the flags of the call:
      (a) every iteration file is complete and holds bit-for-bit a point evaluated ON THE ESTIMATION DATA with finite
          derivatives while the evaluating object had the model name of that file (a point evaluated on a bootstrap
          resample is not such a point);
      (b1) a point strictly better (log likelihood on the data) than every finite point evaluated by the object since the
          start of its estimation is in the file of the CURRENT model name of the object;
      (b2) a file is only ever replaced by a point at least as good as every finite point evaluated by the acting object
          since the start of its estimation, and only the file of its current model name is touched;
      (c) estimate() starts from the values of the file of the current model name.
    Returns None or (what, index of the event, observed, expected)."""
    bits = lambda xs: [f2b(v) for v in xs]  # noqa: E731
    segs = {}           # object -> f of the finite points it evaluated on the data since the start of its estimation
    by_name = {}        # model name -> {bits of a finite point evaluated on the data under that name: its best f}
    prev = {}
    for idx, ev in enumerate(events):
        oi = ev.get('obj', 0)
        seg = segs.setdefault(oi, [])
        if ev['k'] == 'reset':
            segs[oi] = []
            fb = ev.get('file_before')
            if fb is not None and ev.get('first') is not None:
                vals, why = parse_iter(sorted_names, fb)
                if why is None and bits(vals) != bits(ev['first']):
                    return ('estimate() does not start from the values saved in the file of the current model name '
                            f'{ev["name"]!r}', idx, ev['first'], vals)
            continue
        files = ev['files']
        if ev['k'] == 'rename':
            if files != prev:
                return (f'assigning modelName = {ev["name"]!r} changed the iteration files', idx, files, prev)
            continue
        name, xb, f = ev['name'], tuple(bits(ev['x'])), ev['f']
        boot = bool(ev.get('boot'))
        finite = ev['finite'] and not boot          # an evaluation on the estimation data with finite derivatives
        if finite and math.isnan(f):
            return None          # assumption of the property check (no NaN likelihood at a finite gradient) not met
        prior = max(seg) if seg else None
        if finite:
            d = by_name.setdefault(name, {})
            d[xb] = max(f, d.get(xb, -math.inf))
        content = {}
        for m, text in sorted(files.items()):
            vals, why = parse_iter(sorted_names, text)
            if why:
                return (f'iteration file of model {m!r}: {why}', idx, text, 'complete name = value lines')
            vb = tuple(bits(vals))
            content[m] = vb
            if vb not in by_name.get(m, {}):
                elsewhere = sorted(o for o, dd in by_name.items() if vb in dd)
                return (f'iteration file of model {m!r} holds a point that was not evaluated on the estimation data with finite '
                        f'derivatives under that model name' + (f' (it was evaluated under {elsewhere})' if elsewhere else '')
                        + (' (the evaluation was made on a bootstrap resample)' if boot else ''), idx, text,
                        'an evaluated point of that model')
        for m in sorted(set(files) | set(prev)):
            if files.get(m) == prev.get(m):
                continue
            if m not in files:
                return (f'iteration file of model {m!r} disappeared', idx, None, prev.get(m))
            if m != name:
                return (f'an evaluation under the model name {name!r} rewrote the iteration file of model {m!r}', idx,
                        files[m], prev.get(m))
            if boot:
                return (f'an evaluation on a bootstrap resample rewrote the iteration file of model {m!r}', idx, files[m], prev.get(m))
            fc = by_name[m][content[m]]
            if prior is not None and fc < prior:
                return (f'iteration file of model {m!r} replaced by a point with log likelihood {fc}, worse than the best '
                        f'finite point evaluated so far ({prior})', idx, files[m], 'the best point evaluated so far')
        if finite and (prior is None or f > prior):
            if name not in files:
                return (f'a new best point (log likelihood {f}, previous best {prior}) was evaluated under the model name '
                        f'{name!r} but __{name}.iter does not exist', idx, sorted(files), f'__{name}.iter holding the point')
            if content[name] != xb:
                return (f'a new best point (log likelihood {f}, previous best {prior}) was evaluated under the model name '
                        f'{name!r} but __{name}.iter does not hold it', idx, files[name], ev['x'])
        if finite:
            seg.append(f)
        prev = files
    return None


def session_case(names, name0, ops, algo=None, own_data=False):
    c = {'session': True, 'names': names, 'name0': name0, 'ops': ops}
    if own_data:
        c['own_data'] = True
    if algo:
        c['algo'] = algo
    return c


def session_view(events, upto):
    """compact description of the recorded evaluations for a report"""
    return [
        {q: ev[q] for q in ('k', 'op', 'obj', 'name', 'x', 'scaled', 'hessian', 'f', 'finite', 'boot') if q in ev}
        for ev in events[: upto + 1]
    ][-12:]


def where_of(events, idx):
    """the marker of the unrepaired code is polluted from the first evaluation on a bootstrap resample on (finding
    FC15-boot): what is observed at or after it in the same session is attributed to that finding"""
    return WHERE_BOOT if any(ev.get('boot') for ev in events[: idx + 1]) else WHERE_SESSION


def apply_session_oracle(res, case, out):
    """sanity of the recorded values, then the property oracle; True when a violation was reported"""
    evals = [ev for ev in out['events'] if ev['k'] == 'eval']
    for ev, rf in zip(evals, out['ref']):
        if rf is None or math.isnan(rf) or math.isnan(ev['f']) or ev.get('boot'):
            continue
        if not (ev['f'] == rf or core.close(ev['f'], rf, 1e-9, 1e-12)):
            res.diverge('value returned by an evaluation (times N when scaled) is not the log likelihood on the data; '
                        'session oracle not applied', case, rf, {q: ev[q] for q in ('x', 'scaled', 'f')})
            return False
    bad = oracle_session(out['sorted_names'], out['events'])
    if bad:
        what, idx, observed, expected = bad
        res.violate(what, {**case, 'event': idx, 'recorded': session_view(out['events'], idx)}, observed, expected,
                    where=where_of(out['events'], idx))
        return True
    return False


def check_session(ctx, res, names, name0, ops, algo=None, own_data=False):
    out = run_session(names, name0, ops, algo=algo, own_data=own_data)
    case = session_case(names, name0, ops, algo, own_data)
    if own_data:
        res.tally('session with nearly colliding model names, one data set per object')
    if any(c in str(n) for n in norm_objs(name0) + [o.get('name') for o in ops if o['k'] == 'rename'] for c in '<>:"\\|?*'):
        res.tally('session with a model name holding one of < > : " \\ | ? *')
    if any(o['k'] in ('estimate', 'quick_estimate', 'bootstrap') for o in ops):
        res.tally(f'session algorithm {algo or "automatic"}')
    events = out['events']
    evals = [ev for ev in events if ev['k'] == 'eval']
    mixed = len({ev['scaled'] for ev in evals if ev['finite']}) > 1
    renamed_after_use = any(e1['k'] == 'eval' and e2['k'] == 'rename' and e2['name'] != e1['name'] and e2.get('obj', 0) == e1.get('obj', 0)
                            for i, e1 in enumerate(events) for e2 in events[i + 1:])
    shared = len({(ev.get('obj', 0)) for ev in evals}) > 1 and any(
        e1['name'] == e2['name'] and e1.get('obj', 0) != e2.get('obj', 0) for e1 in evals for e2 in evals)
    resets = [ev for ev in events if ev['k'] == 'reset']
    res.count(case, nontrivial=len(evals) >= 2 and (mixed or renamed_after_use or shared))
    res.tally('session')
    res.tally(f'session objects={len(norm_objs(name0))}')
    for ev in evals:
        res.tally('session eval scaled' if ev['scaled'] else 'session eval unscaled')
        if ev.get('boot'):
            res.tally('session eval on a bootstrap resample')
    for o in ops:
        res.tally('session op ' + o['k'])
    if mixed:
        res.tally('session with scaled and unscaled finite evaluations')
    if renamed_after_use:
        res.tally('session renamed after first use')
    if shared:
        res.tally('session with two objects evaluating under one model name')
    if len(resets) >= 2:
        res.tally('session with several estimations')
        if any(r1.get('obj', 0) == r2.get('obj', 0) and r1['name'] != r2['name'] for r1 in resets for r2 in resets):
            res.tally('session estimate, rename, estimate on one object')
    for r in resets:
        if r.get('file_before') is not None:
            res.tally('session estimate starting from a file')
            vals, why = parse_iter(out['sorted_names'], r['file_before'])
            if why is None and any(v == 0.0 for v in vals):
                res.tally('session estimate starting from a file with a value exactly 0')
    for e in out['errors']:
        # an operation that raised (e.g. a list argument at a point with non-finite gradient: the warning text needs an
        # array) saved nothing; the files observed by the later operations are still checked
        res.tally('session op raised ' + e.split(': ')[1])
    if out['others'] and any(not o.endswith('.tmp') for o in out['others']):
        res.diverge('unexpected files next to the iteration files', case, [], out['others'])
    apply_session_oracle(res, case, out)
    # the Lean model on the same session (deferred)
    sn = out['sorted_names']
    ops_m = []
    for ev in events:
        if ev['k'] == 'eval':
            ops_m.append({'k': 'boot' if ev.get('boot') else 'eval', 'obj': ev.get('obj', 0), 'x': [str(np.float64(v)) for v in ev['x']],
                          'f': f2b(ev['f']), 'finite': ev['finite'], 'scaled': ev['scaled']})
        elif ev['k'] == 'rename':
            ops_m.append({'k': 'rename', 'obj': ev.get('obj', 0), 'name': ev['name']})
        else:
            ops_m.append({'k': 'reset', 'obj': ev.get('obj', 0)})
    if not ops_m:
        return out
    observed = [[[m, tokens_of_file(t, sn)] for m, t in sorted(ev['files'].items())] for ev in events]

    def cb(ans):
        model = ans[0].get('files')
        if model is None or len(model) != len(observed):
            res.diverge('IterFile.wtrace on a session', case, ans[0], len(observed))
            return
        fn = ans[0].get('file_names')
        if fn is None or sorted(fn) != out['listing']:
            res.diverge('names of the iteration files in the directory at the end of a session vs IterFile.iterFileName (C15.file_name_injective)',
                        case, ans[0].get('file_names'), out['listing'])
        for i, (mo, ob) in enumerate(zip(model, observed)):
            if mo != ob:
                res.diverge(f'iteration files after recorded event {i} of a session ({events[i]["k"]})',
                            {**case, 'recorded': session_view(events, i)}, mo, ob, where=where_of(events, i))
                break

    ctx.batch.add_many([{'op': 'world', 'objs': out['start_names'], 'ops': ops_m}], cb)
    return out


def _bootstrap_case(case):
    return isinstance(case, dict) and any(o.get('k') == 'bootstrap' for o in case.get('ops', []) if isinstance(o, dict))


MATCHERS = {'bootstrap_session': _bootstrap_case}


SESSION_CORPUS = [
    # the model is named after its first use: the better point belongs in the file of the new name
    {'names': ['b'], 'name0': None, 'ops': [
        {'k': 'eval', 'x': [0.5], 'scaled': False, 'hessian': False, 'bhhh': False},
        {'k': 'rename', 'name': 'final'},
        {'k': 'eval', 'x': [-0.5], 'scaled': False, 'hessian': False, 'bhhh': False},
        {'k': 'eval', 'x': [-0.8], 'scaled': False, 'hessian': True, 'bhhh': False}]},
    # derivatives checked before the model is named, then estimated under its name
    {'names': ['zeta', 'alpha'], 'name0': None, 'ops': [
        {'k': 'check', 'x': [0.5, 0.5]}, {'k': 'rename', 'name': 'run 1'}, {'k': 'estimate'}]},
    # scaled and unscaled calls mixed: the marker is on the scale of the data log likelihood
    {'names': ['b'], 'name0': 'm', 'ops': [
        {'k': 'eval', 'x': [0.75], 'scaled': True, 'hessian': False, 'bhhh': False},
        {'k': 'eval', 'x': [0.25], 'scaled': False, 'hessian': False, 'bhhh': False},
        {'k': 'eval', 'x': [0.5], 'scaled': True, 'hessian': False, 'bhhh': False},
        {'k': 'eval', 'x': [-0.8], 'scaled': False, 'hessian': False, 'bhhh': False}]},
    {'names': ['b10', 'b2'], 'name0': 'm', 'ops': [
        {'k': 'eval', 'x': [0.1, -0.8], 'scaled': False, 'hessian': False, 'bhhh': True},
        {'k': 'eval', 'x': [0.5, 0.5], 'scaled': True, 'hessian': True, 'bhhh': False, 'aslist': True},
        {'k': 'fdh', 'x': [0.4, 0.4]},
        {'k': 'eval', 'x': [0.2, -0.5], 'scaled': True, 'hessian': False, 'bhhh': False}]},
    # back to an earlier name
    {'names': ['a'], 'name0': 'pilot', 'ops': [
        {'k': 'eval', 'x': [0.75], 'scaled': False, 'hessian': False, 'bhhh': False},
        {'k': 'rename', 'name': 'final'},
        {'k': 'eval', 'x': [-0.5], 'scaled': True, 'hessian': False, 'bhhh': False},
        {'k': 'rename', 'name': 'pilot'},
        {'k': 'eval', 'x': [0.25], 'scaled': False, 'hessian': False, 'bhhh': False},
        {'k': 'eval', 'x': [-0.85], 'scaled': False, 'hessian': False, 'bhhh': False},
        {'k': 'quick_estimate'}]},
    # estimate, rename, estimate on one object; the second estimation must start from the file of the new name
    {'names': ['b10', 'b2'], 'name0': ['pilot', 'final'], 'ops': [
        {'k': 'eval', 'x': [0.0, -0.5], 'scaled': False, 'hessian': False, 'bhhh': False, 'obj': 1},
        {'k': 'estimate', 'obj': 0},
        {'k': 'rename', 'name': 'final', 'obj': 0},
        {'k': 'estimate', 'obj': 0},
        {'k': 'eval', 'x': [0.5, 0.5], 'scaled': True, 'hessian': False, 'bhhh': False, 'obj': 0}]},
    # two objects sharing a model name: each has its own marker; a saved value exactly 0.0 / -0.0 is the start of the
    # estimation of the other object
    {'names': ['zeta', 'alpha'], 'name0': ['m', 'm'], 'ops': [
        {'k': 'eval', 'x': [0.0, -0.0], 'scaled': False, 'hessian': False, 'bhhh': False, 'obj': 0},
        {'k': 'estimate', 'obj': 1},
        {'k': 'eval', 'x': [0.5, 0.5], 'scaled': False, 'hessian': False, 'bhhh': False, 'obj': 0},
        {'k': 'eval', 'x': [0.4, 0.4], 'scaled': True, 'hessian': False, 'bhhh': False, 'obj': 1},
        {'k': 'quick_estimate', 'obj': 0}]},
    # two models whose names differ by one special character, each with its own data, used in turn
    {'names': ['b10', 'b2'], 'name0': ['mnl:time', 'mnl_time'], 'own_data': True, 'ops': [
        {'k': 'eval', 'x': [0.5, 0.5], 'scaled': False, 'hessian': False, 'bhhh': False, 'obj': 0},
        {'k': 'eval', 'x': [0.25, -0.5], 'scaled': True, 'hessian': False, 'bhhh': False, 'obj': 1},
        {'k': 'eval', 'x': [0.375, -0.75], 'scaled': False, 'hessian': False, 'bhhh': False, 'obj': 0},
        {'k': 'estimate', 'obj': 1},
        {'k': 'estimate', 'obj': 0}]},
    # bootstrapping: the resamples must not reach the iteration file (finding FC15-boot)
    {'names': ['b', 'a'], 'name0': ['boot'], 'ops': [
        {'k': 'bootstrap', 'obj': 0},
        {'k': 'eval', 'x': [0.4, -0.5], 'scaled': False, 'hessian': False, 'bhhh': False, 'obj': 0}]},
]


# ----- crash injection -------------------------------------------------------------------------
#
# One fresh interpreter per experiment (`core.run_isolated`): it builds the objects, then FORKS one child per
# crash point.  The child installs recorders around the primitives of the real code (the file object returned by
# `open` for an iteration file: write / writelines / flush / close; `os.replace` / `os.rename` / `os.remove`), runs
# the real evaluation and is stopped with `os._exit` right after its k-th primitive: what Python still holds in the
# buffer of an open file is lost, exactly as for a killed process.  The parent then looks at the directory and a
# second forked child performs the real restart (`_load_saved_iteration`, then a full `estimate()`).

WHERE_CRASH = 'calculate_likelihood_and_derivatives: write of the iteration file'
KNOWN_PRIMS = {'open': 2, 'write': 3, 'flush': 2, 'close': 2, 'replace': 3, 'remove': 2}


def _install_recorders(trace, limit, on_stop):
    """wrap the primitives; `limit` None: record only.  Returns nothing; acts on builtins / io / os of this
    (forked) process"""
    import builtins
    import io

    def tick():
        if limit is not None and len(trace) >= limit:
            on_stop()

    def rel(pth):
        try:
            pth = os.fspath(pth)
        except TypeError:
            return None
        if isinstance(pth, bytes):
            pth = pth.decode('utf-8', 'replace')
        if not isinstance(pth, str):
            return None
        ap = os.path.abspath(pth)
        cwd = os.getcwd()
        return os.path.relpath(ap, cwd) if ap.startswith(cwd + os.sep) else ap

    def text(x):
        return x if isinstance(x, str) else bytes(x).decode('utf-8', 'replace')

    class Proxy:
        """the real file object (real buffering), every call recorded"""

        def __init__(self, path, f):
            object.__setattr__(self, '_p', path)
            object.__setattr__(self, '_f', f)

        def write(self, x):
            n = self._f.write(x)
            trace.append(['write', self._p, text(x)])
            tick()
            return n

        def writelines(self, lines):
            for x in lines:          # as io.TextIOWrapper.writelines does
                self.write(x)

        def flush(self):
            self._f.flush()
            trace.append(['flush', self._p])
            tick()

        def close(self):
            if not self._f.closed:
                self._f.close()
                trace.append(['close', self._p])
                tick()

        def __enter__(self):
            return self

        def __exit__(self, *a):
            self.close()
            return False

        def __getattr__(self, name):
            return getattr(self._f, name)

        def __setattr__(self, name, value):
            setattr(self._f, name, value)

        def __iter__(self):
            return iter(self._f)

    def wrap_open(real):
        def my_open(file, mode='r', *a, **k):
            name = rel(file) if not isinstance(file, int) else None
            if name is not None and '.iter' in os.path.basename(name) and any(c in mode for c in 'wax+'):
                f = real(file, mode, *a, **k)
                if 'w' in mode:
                    trace.append(['open', name])
                else:
                    trace.append(['open_' + mode, name])          # not modelled
                tick()
                return Proxy(name, f)
            return real(file, mode, *a, **k)
        return my_open

    new_open = wrap_open(builtins.open)
    builtins.open = new_open
    io.open = new_open

    def wrap2(real, tag):
        def f(src, dst, *a, **k):
            r = real(src, dst, *a, **k)
            ns, nd = rel(src), rel(dst)
            if '.iter' in str(ns) or '.iter' in str(nd):
                trace.append([tag, ns, nd])
                tick()
            return r
        return f

    def wrap1(real, tag):
        def f(pth, *a, **k):
            r = real(pth, *a, **k)
            n = rel(pth)
            if '.iter' in str(n):
                trace.append([tag, n])
                tick()
            return r
        return f

    os.replace = wrap2(os.replace, 'replace')
    os.rename = wrap2(os.rename, 'replace')
    os.remove = wrap1(os.remove, 'remove')
    os.unlink = wrap1(os.unlink, 'remove')
    os.truncate = wrap1(os.truncate, 'truncate')                   # not modelled
    for nm in ('link', 'symlink'):
        if hasattr(os, nm):
            setattr(os, nm, wrap2(getattr(os, nm), nm))            # not modelled


def _dir_state(d):
    out = {}
    for q in sorted(os.listdir(d)):
        if q == 'biogeme.toml' or not os.path.isfile(os.path.join(d, q)):
            continue
        try:
            out[q] = Path(d, q).read_text(encoding='utf-8')
        except Exception:  # noqa: BLE001
            out[q] = '<unreadable>'
    return out


def _set_dir_state(d, state):
    for q in os.listdir(d):
        if q != 'biogeme.toml':
            try:
                os.unlink(os.path.join(d, q))
            except OSError:
                pass
    for q, t in state.items():
        Path(d, q).write_text(t, encoding='utf-8')


def _forked(fn, result_path=None, timeout=120):
    """run fn() in a forked child; the child ends with os._exit (nothing is flushed).  Returns (exit status,
    JSON written by the child to result_path or None)"""
    import signal
    import time
    sys.stdout.flush()
    sys.stderr.flush()
    pid = os.fork()
    if pid == 0:
        code = 0
        try:
            r = fn()
            if result_path is not None:
                fd = os.open(result_path, os.O_WRONLY | os.O_CREAT | os.O_TRUNC)
                os.write(fd, json.dumps(r).encode())
                os.close(fd)
        except BaseException as e:  # noqa: BLE001
            code = 7
            try:
                if result_path is not None:
                    fd = os.open(result_path, os.O_WRONLY | os.O_CREAT | os.O_TRUNC)
                    os.write(fd, json.dumps({'__error__': f'{type(e).__name__}: {e}'}).encode())
                    os.close(fd)
            except BaseException:  # noqa: BLE001
                pass
        os._exit(code)
    t0 = time.time()
    while True:
        done, status = os.waitpid(pid, os.WNOHANG)
        if done:
            break
        if time.time() - t0 > timeout:
            os.kill(pid, signal.SIGKILL)
            os.waitpid(pid, 0)
            status = -1
            break
        time.sleep(0.002)
    res = None
    if result_path is not None and os.path.exists(result_path):
        try:
            res = json.loads(Path(result_path).read_text())
        except Exception:  # noqa: BLE001
            res = None
        os.unlink(result_path)
    return status, res


def _line_tracer(limit, counter, on_stop):
    """stop before the `limit`-th line executed inside calculate_likelihood_and_derivatives (and the generator /
    comprehension frames defined in it): crash points that do not depend on the recorded primitives"""
    import biogeme.biogeme as bb
    target_file = bb.__file__
    first = bb.BIOGEME.calculate_likelihood_and_derivatives.__code__.co_firstlineno
    import inspect
    last = first + len(inspect.getsourcelines(bb.BIOGEME.calculate_likelihood_and_derivatives)[0])

    def local(frame, event, arg):
        if event == 'line':
            counter[0] += 1
            if limit is not None and counter[0] >= limit:
                on_stop()
        return local

    def glob(frame, event, arg):
        co = frame.f_code
        if co.co_filename == target_file and first <= co.co_firstlineno <= last:
            return local
        return None

    return glob


def crash_worker(payload):
    """runs in a fresh interpreter (core.run_isolated).  payload: names, tag, x_old (or None), x_new, toml,
    ks (None = every crash point), lines (bool: crash points by executed line instead of by primitive),
    estimate (bool: the restart also runs a full estimate()).  Nothing here raises for a misbehaving save: every
    failure is reported in the result."""
    import tempfile
    import shutil
    import warnings
    warnings.simplefilter('ignore')
    names, tag = payload['names'], payload['tag']
    d = tempfile.mkdtemp(prefix='vbg_crash_')
    side = tempfile.mkdtemp(prefix='vbg_side_')
    old_cwd = os.getcwd()
    out = {'errors': []}
    try:
        Path(d, 'biogeme.toml').write_text(payload.get('toml', TOML))
        os.chdir(d)
        B = build(names, tag)
        out['sorted_names'] = list(B.free_beta_names)
        out['defaults'] = [float(v) for v in B.id_manager.free_betas_values]
        fname = f'__{tag}.iter'
        out['fname'] = fname

        points_log = os.path.join(side, 'points')

        def evaluate(x, whole_estimation=False):
            if not whole_estimation:
                B.calculate_likelihood_and_derivatives(np.array(x, dtype=float), scaled=False, hessian=False, bhhh=False)
                return
            # a whole estimate() (started from x): every point handed to the likelihood is logged, unbuffered, before it
            # is evaluated, so that the parent knows the evaluated points even when the child is stopped
            import biogeme.biogeme as bio
            orig = bio.BIOGEME.calculate_likelihood_and_derivatives
            fd = os.open(points_log, os.O_WRONLY | os.O_CREAT | os.O_APPEND)

            def spy(self, xx, *a, **k):
                os.write(fd, (json.dumps([float(v) for v in xx]) + '\n').encode())
                return orig(self, xx, *a, **k)

            bio.BIOGEME.calculate_likelihood_and_derivatives = spy
            B.generate_html = False
            B.generate_pickle = False
            B.change_init_values(dict(zip(B.free_beta_names, map(float, x))))
            B.estimate()

        if payload.get('x_old') is not None:
            st, r = _forked(lambda: evaluate(payload['x_old']), os.path.join(side, 'r'))
            if st != 0:
                out['errors'].append(f'first save failed: {r}')
        old = _dir_state(d)
        out['old'] = old

        by_lines = bool(payload.get('lines'))

        def run_with(limit):
            trace, counter = [], [0]

            def stop():
                os._exit(0)

            if by_lines:
                sys.settrace(_line_tracer(limit, counter, stop))
            else:
                _install_recorders(trace, limit, stop)
                if limit == 0:
                    stop()
            try:
                evaluate(payload['x_new'], whole_estimation=payload.get('mode') == 'estimate')
            finally:
                if by_lines:
                    sys.settrace(None)
            return {'trace': trace, 'lines': counter[0]}

        st, full = _forked(lambda: run_with(None), os.path.join(side, 'r'))
        if st != 0 or full is None or '__error__' in (full or {}):
            out['errors'].append(f'the complete save failed under the recorders: status {st}, {full}')
            out['trace'], n_points = [], 0
        else:
            out['trace'] = full['trace']
            n_points = full['lines'] if by_lines else len(full['trace'])
        out['new'] = _dir_state(d)
        out['n_points'] = n_points

        def restart():
            import biogeme.biogeme as bio
            B2 = build(names, tag)
            r = {'before': [float(v) for v in B2.id_manager.free_betas_values]}
            try:
                B2._load_saved_iteration()
                r['load_ok'] = True
                r['values'] = [float(v) for v in B2.id_manager.free_betas_values]
            except Exception as e:  # noqa: BLE001
                r['load_ok'] = False
                r['load_error'] = f'{type(e).__name__}: {e}'
                return r
            if payload.get('estimate', True):
                B3 = build(names, tag)
                B3.generate_html = False
                B3.generate_pickle = False
                seen = []
                orig = bio.BIOGEME.calculate_likelihood_and_derivatives
                orig_l = bio.BIOGEME.calculate_likelihood

                def spy(self, x, *a, **k):
                    seen.append([float(v) for v in x])
                    return orig(self, x, *a, **k)

                def spy_l(self, x, *a, **k):
                    seen.append([float(v) for v in x])
                    return orig_l(self, x, *a, **k)

                bio.BIOGEME.calculate_likelihood_and_derivatives = spy
                bio.BIOGEME.calculate_likelihood = spy_l
                try:
                    B3.estimate()
                    r['estimate_ok'] = True
                except Exception as e:  # noqa: BLE001
                    r['estimate_ok'] = False
                    r['estimate_error'] = f'{type(e).__name__}: {e}'
                r['first'] = seen[0] if seen else None
            return r

        ks = payload.get('ks')
        if ks is None:
            ks = list(range(n_points + 1))
        elif isinstance(ks, dict):
            # a sample of the crash points of a long run: the first and last ones and `n` others
            import random
            r_ = random.Random(ks.get('seed', 0))
            inner = list(range(1, max(1, n_points - 1)))
            ks = sorted(set([0, n_points] + r_.sample(inner, min(len(inner), ks.get('n', 8)))))
        points = []
        for k in ks:
            _set_dir_state(d, old)
            if os.path.exists(points_log):
                os.unlink(points_log)
            st, _ = _forked(lambda k=k: run_with(k), None)
            state = _dir_state(d)
            evaluated = None
            if os.path.exists(points_log):
                evaluated = [json.loads(l) for l in Path(points_log).read_text().split('\n') if l]
            st2, rs = _forked(restart, os.path.join(side, 'r'))
            points.append({'k': k, 'status': st, 'state': state, 'restart': rs, 'evaluated': evaluated})
        out['points'] = points
    except Exception as e:  # noqa: BLE001
        import traceback
        out['errors'].append('crash worker: ' + traceback.format_exc()[-1200:])
    finally:
        os.chdir(old_cwd)
        shutil.rmtree(d, ignore_errors=True)
        shutil.rmtree(side, ignore_errors=True)
    return out


def oracle_crash(out, pt, x_old, x_new):
    """property oracle on the real directory after a stop (written from the statement, independent of the model and of
    what was recorded): the iteration file either does not exist or is complete and holds bit-for-bit an evaluated
    point; the restart succeeds and starts from the file.  None or (what, observed, expected)"""
    sn, fname = out['sorted_names'], out['fname']
    got = pt['state'].get(fname)
    bits = lambda xs: [f2b(float(v)) for v in xs]  # noqa: E731
    evaluated = [x for x in (x_old, x_new) if x is not None] + (pt.get('evaluated') or [])
    vals = None
    if got is not None:
        vals, why = parse_iter(sn, got)
        if why:
            return (f'leaves an iteration file that is not complete ({why})', got, 'no file, or one complete line per free parameter')
        if not any(bits(vals) == bits(x) for x in evaluated):
            return ('leaves an iteration file holding a point that was never evaluated', got, evaluated)
    rs = pt.get('restart')
    if not rs or '__error__' in rs:
        return (f'the restart could not be run: {rs}', rs, 'restart succeeds')
    if not rs.get('load_ok'):
        return (f'the restart fails: {rs.get("load_error")}', got, 'restart succeeds')
    expected = vals if vals is not None else rs['before']
    if bits(rs['values']) != bits(expected):
        return ('the restart does not start from the values of the file', rs['values'], expected)
    if 'estimate_ok' in rs:
        if not rs['estimate_ok']:
            return (f'estimate() fails on restart: {rs.get("estimate_error")}', got, 'restart succeeds')
        if rs.get('first') is not None and bits(rs['first']) != bits(expected):
            return ('estimate() does not start from the values of the file', rs['first'], expected)
    return None


def crash_payload(names, tag, x_old, x_new, **kw):
    return {'names': names, 'tag': tag, 'x_old': x_old, 'x_new': x_new, 'toml': TOML, **kw}


def crash_case(names, x_old, x_new, k, lines=False, mode=None):
    c = {'names': names, 'x_old': x_old, 'x_new': x_new, 'crash_after': k, 'crash_unit': 'executed line' if lines else 'primitive'}
    if mode:
        c['mode'] = mode
    return c


def apply_crash_oracle(res, out, names, x_old, x_new, lines=False, mode=None):
    """oracle at every crash point of a worker result; reports the first violation with its crash point"""
    unit = 'executed line of calculate_likelihood_and_derivatives' if lines else 'primitive file operation'
    for pt in out.get('points', []):
        bad = oracle_crash(out, pt, x_old, x_new)
        if bad:
            what, observed, expected = bad
            tr = out.get('trace') or []
            at = ''
            if not lines and 0 < pt['k'] <= len(tr):
                at = f' ({" ".join(map(str, tr[pt["k"] - 1][:2]))})'
            res.violate(f'a process stopped after {unit} {pt["k"]}{at} of {"an estimation" if mode else "a save"} {what}',
                        {**crash_case(names, x_old, x_new, pt['k'], lines, mode), 'trace': tr[-40:], 'directory': pt['state']},
                        observed, expected, where=WHERE_CRASH)
            return True
    return False


def run_crash_worker(payload):
    out = core.run_isolated('props.c15', 'crash_worker', payload, timeout=900)
    if not isinstance(out, dict) or '__error__' in out or 'points' not in out:
        return {'errors': [f'crash worker did not return: {str(out)[:800]}'], 'points': [], 'trace': []}
    return out


def crash_experiment(ctx, res, names, tag, x_old, x_new):
    """one save over an existing file: the real primitives are recorded, every crash point is injected for real
    (oracle on the real directory + real restart), and the Lean model of the recorded primitives decides which
    prefixes are unsafe and predicts the directory at every crash point"""
    case = {'names': names, 'x_old': x_old, 'x_new': x_new}
    out = run_crash_worker(crash_payload(names, tag, x_old, x_new))
    full = out.get('trace') or []
    for e in out.get('errors', []):
        res.diverge('crash experiment: ' + e, case, 'a save that completes under the recorders', e)
    res.count({'crash_protocol': case, 'trace': full}, nontrivial=x_old is not None)
    for pt in out.get('points', []):
        res.tally('crash_points')
    found = apply_crash_oracle(res, out, names, x_old, x_new)
    if not out.get('points'):
        return found
    fname = out['fname']
    new_text = out['new'].get(fname)
    # the complete save itself
    why = oracle_file(out['sorted_names'], new_text, ([{'x': x_old, 'f': 0.0, 'finite': True}] if x_old is not None else [])
                      + [{'x': x_new, 'f': 1.0, 'finite': True}])
    if why and not found:
        res.violate(f'iteration file after a complete save: {why}', {**case, 'trace': full}, new_text, x_new, where=WHERE_CRASH)
    unknown = [op for op in full if KNOWN_PRIMS.get(op[0]) != len(op)]
    for op in full:
        res.tally('primitive ' + op[0])
    if unknown:
        res.diverge('the save uses a file primitive that the model does not know', case, sorted(KNOWN_PRIMS), unknown[:3])
        return found
    res.traces_validated += 1
    observed = [[[q, t] for q, t in sorted(pt['state'].items())] for pt in out['points']]
    req = [{'op': 'crashb', 'dir': [[q, t] for q, t in sorted(out['old'].items())], 'ops': full, 'file': fname, 'new': new_text or ''}]

    def cb(ans):
        a = ans[0]
        res.tally('protocol shape ' + str(a.get('shape')))
        if a.get('shape') not in ('tmp_close_replace', 'tmp_only_then_replace'):
            # tmp_close_replace: C15.crash_safe_buffered (all k, all chunk lists); tmp_only_then_replace (explicit flushes,
            # other chunkings, ...): C15.tmp_then_replace_safe (all k before the rename, all such traces)
            res.diverge(f'write protocol has the shape {a.get("shape")!r}: neither IterFile.protocolB (hypothesis of C15.crash_safe_buffered) '
                        'nor the family IterFile.tmpThenReplace (hypothesis of C15.tmp_then_replace_safe)',
                        case, 'primitives on the temporary file only, then one rename as the last primitive', full)
        if a.get('content') != new_text:
            res.diverge('text written by the recorded primitives is not the final iteration file', case, a.get('content'), new_text)
        disks = a.get('disks', [])
        for k, got in enumerate(observed):
            ms = disks[k] if k < len(disks) else '<none>'
            if got != ms:
                res.diverge(f'directory after a stop at primitive operation {k}', {**case, 'trace': full}, ms, got)
                break
        for k in a.get('unsafe', ['<no answer>']):
            # the model says this prefix is unsafe: the real run at that crash point was judged by the oracle above
            res.diverge(f'the model of the recorded primitives is unsafe at crash point {k}', {**case, 'trace': full},
                        disks[k] if isinstance(k, int) and k < len(disks) else None, observed[k] if isinstance(k, int) and k < len(observed) else None)

    ctx.batch.add_many(req, cb)
    return found


def crash_search(res, rng, n=2):
    """a correspondence of the write protocol broke: look for a concrete crash point on the real code, first at every
    recorded primitive, then at every executed line of the saving function (independent of what was recorded), on
    small and on large files (larger than one I/O buffer)"""
    for i in range(n):
        for k_par in ([2, 1, 3][i % 3], 44):
            names = [f'beta_{j:03d}_{"x" * 200}' for j in range(k_par)] if k_par > 3 else rng.sample(NAME_POOL, k_par)
            x_old = [rng.uniform(-1, 0.0) for _ in range(k_par)]
            x_new = [0.16 * ((j % 5) + 1) for j in range(k_par)]
            if k_par > 3:
                x_new[-1] = -0.88
            for lines in (False, True):
                kw = {}
                if k_par > 3:
                    kw['estimate'] = False
                out = run_crash_worker(crash_payload(names, f'cs{i}', x_old, x_new, lines=lines, **kw))
                if k_par > 3 and out.get('n_points', 0) > 60:
                    pass
                if apply_crash_oracle(res, out, names, x_old, x_new, lines=lines):
                    return True
    return False


# ----- the check ----------------------------------------------------------------------------------

CORPUS = [
    # F08: latest-not-worse-than-first instead of best
    {'names': ['b'], 'pts': [[-1.0], [0.25], [0.0]]},
    {'names': ['zeta', 'alpha'], 'pts': [[0.0, 0.0], [0.16, 0.32], [0.1, 0.1], [2.0, 0.0], [0.5, 0.5]]},
    # F16: '=' in a name
    {'names': ['asc=1', 'b'], 'pts': [[0.0, 0.0], [0.1, 0.1]]},
    # a high-likelihood point with infinite gradient must not raise the best-so-far marker
    {'names': ['b'], 'pts': [[0.5], [-1.0], [-0.5], [-0.8]]},
    {'names': ['zeta', 'alpha'], 'pts': [[0.5, 0.5], [0.16, -1.0], [0.16, -0.5], [0.16, -0.8]]},
]


def check_history(ctx, res, names, pts, tag):
    sorted_names, steps, restart, others = run_history(names, pts, tag)
    case = {'names': names, 'points': pts}
    worse_or_nonfinite = any(
        (not s['finite']) or (i > 0 and s['f'] < max([t['f'] for t in steps[:i] if t['finite']] or [-math.inf]))
        for i, s in enumerate(steps)
    )
    res.count(case, nontrivial=worse_or_nonfinite and len(steps) >= 2)
    for s in steps:
        res.tally('finite' if s['finite'] else 'nonfinite')
    # property oracle on the real outputs
    for i, s in enumerate(steps):
        why = oracle_file(sorted_names, s['file'], steps[: i + 1])
        if why:
            res.violate(
                f'iteration file after evaluation {i}: {why}',
                {**case, 'step': i, 'f': [t['f'] for t in steps[: i + 1]], 'finite': [t['finite'] for t in steps[: i + 1]]},
                s['file'],
                'complete file holding the best evaluated point with finite derivatives',
                where='calculate_likelihood_and_derivatives (save_iterations)',
            )
            break
    if others:
        res.notes.append(f'other files left in the directory: {others}')
        if any(not o.endswith('.tmp') for o in others):
            res.diverge('unexpected files next to the iteration file', case, [], others)
    final = steps[-1]['file'] if steps else None
    toks = tokens_of_file(final, sorted_names)
    if restart is not None and not restart['ok']:
        res.violate(
            f'restart from the saved file fails: {restart["error"]}', case, restart, 'restart succeeds', where='_load_saved_iteration')
    # model (deferred: one driver batch for the whole run)
    reqs = [{
        'op': 'history',
        'init_file': None,
        'evals': [{'x': [str(np.float64(v)) for v in s['x']], 'f': f2b(s['f']), 'finite': s['finite']} for s in steps],
    }]
    if restart is not None and restart['ok']:
        inits = [[n, repr(restart['before'][n])] for n in sorted_names]
        filej = None if toks is None else [[n, t] for n, t in zip(sorted_names, toks)]
        reqs.append({'op': 'restart', 'inits': inits, 'file': filej})
    else:
        reqs.append({'op': 'restart', 'inits': [], 'file': None})
    well = toks is not None and toks != ['<malformed>']
    render_reqs = [{'op': 'render', 'name': n, 'value': t} for n, t in zip(sorted_names, toks)] if well else []
    parse_reqs = [{'op': 'parse', 'line': l} for l in final.split('\n')[:-1]] if well else []

    def cb(ans):
        model_files = ans[0].get('files')
        for i, s in enumerate(steps):
            got = tokens_of_file(s['file'], sorted_names)
            exp = model_files[i] if model_files else '<no model>'
            if got != exp:
                res.diverge(f'file content after evaluation {i}', case, exp, got)
        if restart is not None and restart['ok']:
            exp = {n: float(v) for n, v in ans[1]['inits']}
            got = restart['values']
            if {n: f2b(v) for n, v in exp.items()} != {n: f2b(v) for n, v in got.items()}:
                res.diverge('starting values after _load_saved_iteration', case, exp, got)
                if well:
                    res.violate('a later estimation does not start from the saved values', case, got, exp, where='_load_saved_iteration')
        if well:
            lines = final.split('\n')[:-1]
            r_out = ans[2 : 2 + len(render_reqs)]
            p_out = ans[2 + len(render_reqs) :]
            if [o.get('line') for o in r_out] != lines:
                res.diverge('text of the file vs IterFile.renderLine', case, [o.get('line') for o in r_out], lines)
            exp_pairs = [[n, t] for n, t in zip(sorted_names, toks)]
            got_pairs = [[o.get('name'), o.get('value')] for o in p_out]
            if got_pairs != exp_pairs:
                res.diverge('IterFile.parseLine on the real file text', case, got_pairs, exp_pairs)

    ctx.batch.add_many(reqs + render_reqs + parse_reqs, cb)
    return steps


def check(ctx) -> Result:
    import time
    res = Result(rule=RULE, tolerance='exact (bit patterns and strings)')
    rng = ctx.rng
    t0 = time.time()
    marks = []

    def mark(what):
        marks.append(f'{what} {time.time() - t0:.0f}s')
    tagc = 0
    for c in CORPUS:
        tagc += 1
        check_history(ctx, res, c['names'], c['pts'], f'm{tagc}')
        res.tally('corpus')
    n_hist = ctx.n(40, 800)
    for _ in range(n_hist):
        k = rng.randint(1, 3)
        names = rng.sample(NAME_POOL, k)
        pts = gen_history(rng, k)
        tagc += 1
        check_history(ctx, res, names, pts, f'm{tagc}')
        res.tally(f'params={k}')
        res.tally(f'len={len(pts)}')
        if len(res.violations) > 3:
            break
    mark('histories')
    # sessions on one object: entry points x option combinations x renames
    for c in SESSION_CORPUS:
        check_session(ctx, res, c['names'], c['name0'], c['ops'], own_data=bool(c.get('own_data')))
        res.tally('corpus')
    for _ in range(ctx.n(110, 900)):
        if len([v for v in res.violations if v.get('where') != WHERE_BOOT]) > 3:
            break
        k = rng.randint(1, 3)
        names = rng.sample(NAME_POOL, k)
        name0, ops, own = gen_session(rng, k)
        check_session(ctx, res, names, name0, ops, algo=pick_algo(rng, ops), own_data=own)
    mark('sessions')
    # files that were not written by the same model (other parameter sets sharing the model name, edited by hand)
    for i in range(ctx.n(25, 300)):
        check_load(ctx, res, rng, f'ld{i}')
    mark('load')
    # crash points: every primitive of a save (recorded from the real code, decided by the model, injected for real)
    n_crash = ctx.n(3, 8)
    for i in range(n_crash):
        k = rng.randint(1, 3)
        names = rng.sample(NAME_POOL, k)
        x_old = None if i == 0 else [rng.choice([rng.uniform(-1, 0.0), 0.0]) for _ in range(k)]
        x_new = [0.16 * (j + 1) for j in range(k)]
        tagc += 1
        crash_experiment(ctx, res, names, rng.choice([f'm{tagc}', 'run 1', 'a.iter', 'mnl:time', 'a?b*']), x_old, x_new)
    # a whole estimate() stopped after a sample of its primitives (several saves, each over the previous one)
    for i in range(ctx.n(1, 4)):
        k = rng.randint(1, 2)
        names = rng.sample(NAME_POOL, k)
        x_old = [rng.uniform(-1, 0.0) for _ in range(k)]
        x_new = [rng.choice([0.0, 0.5, -0.5]) for _ in range(k)]
        case_e = {'names': names, 'x_old': x_old, 'x_new': x_new, 'mode': 'estimate'}
        out_e = run_crash_worker(crash_payload(names, f'ce{i}', x_old, x_new, mode='estimate', ks={'n': ctx.n(8, 25), 'seed': rng.randrange(10 ** 6)}))
        for e in out_e.get('errors', []):
            res.diverge('crash experiment (whole estimation): ' + e, case_e, 'an estimation that completes under the recorders', e)
        res.count({'crash_estimate': case_e, 'n': out_e.get('n_points')}, nontrivial=True)
        for _ in out_e.get('points', []):
            res.tally('crash_points inside a whole estimate()')
        apply_crash_oracle(res, out_e, names, x_old, x_new, mode='estimate')
    mark('crash primitives')
    # crash points by executed line of the saving function (independent of the recorded primitives), small and (thorough)
    # larger than one I/O buffer
    for i in range(ctx.n(1, 3)):
        k = rng.randint(1, 2) if i != 1 else 44
        names = rng.sample(NAME_POOL, k) if k <= 3 else [f'beta_{j:03d}_{"x" * 200}' for j in range(k)]
        x_old = [rng.uniform(-1, 0.0) for _ in range(k)]
        x_new = [0.16 * ((j % 5) + 1) for j in range(k)]
        x_new[-1] = -0.88 if k > 3 else x_new[-1]
        out_l = run_crash_worker(crash_payload(names, f'l{i}', x_old, x_new, lines=True, estimate=(k <= 3)))
        for e in out_l.get('errors', []):
            res.diverge('crash experiment (by line): ' + e, {'names': names, 'x_old': x_old, 'x_new': x_new}, 'a save that completes', e)
        res.count({'crash_lines': {'names': names, 'x_old': x_old, 'x_new': x_new}, 'n': out_l.get('n_points')}, nontrivial=True)
        for _ in out_l.get('points', []):
            res.tally('crash_points by executed line')
        apply_crash_oracle(res, out_l, names, x_old, x_new, lines=True)
    mark('crash lines')
    # a real estimate() starts from the file (spy on the first evaluated point)
    for i in range(ctx.n(3, 10)):
        k = rng.randint(1, 3)
        names = rng.sample(NAME_POOL, k)
        estimate_restart(ctx, res, names, [rng.choice([0.0, 0.0, rng.randint(-6, 6) / 8.0]) for _ in range(k)], f'e{i}')
    mark('estimate restart')
    ctx.batch.flush()
    mark('model')
    if os.environ.get('C15_TIMES'):
        print('C15 wall time after each part: ' + ', '.join(marks), file=sys.stderr)
    return res


VALUE_TOKENS = ['0.0', '-0.0', '0', '1e-300', '-1.5e-07', '3', '0.1', '2.5', '-0.875', '1e5', '.5', '+0.25', 'inf']


def check_load(ctx, res, rng, tag):
    """`_load_saved_iteration` + `change_init_values` on a file that this model did not write: a subset / superset of the
    names (an object with another parameter set sharing the model name), any order, repeated names, blanks around name and
    value, values exactly 0; rarely a line without '='.  Compared with IterFile.parseLine + IterFile.restart; oracle: every
    free parameter named in the file starts from the LAST value given for it, every other one keeps its value"""
    k = rng.randint(1, 3)
    names = rng.sample(NAME_POOL, k)
    pool = names + names + rng.sample(NAME_POOL, 2)
    lines = []
    for _ in range(rng.randint(0, 5)):
        n, v = rng.choice(pool), rng.choice(VALUE_TOKENS)
        lines.append(rng.choice(['{n} = {v}', '{n} = {v}', '{n}={v}', '  {n}  =   {v}  ', '{n} =\t{v}']).format(n=n, v=v))
    malformed = rng.random() < 0.08
    if malformed:
        lines.insert(rng.randint(0, len(lines)), rng.choice(['', 'b2 0.5', 'novalue']))
    text = ''.join(l + '\n' for l in lines)
    with core.scratch(TOML):
        B = build(names, tag)
        sn = list(B.free_beta_names)
        before = [float(v) for v in B.id_manager.free_betas_values]
        Path(f'__{tag}.iter').write_text(text, encoding='utf-8')
        try:
            B._load_saved_iteration()
            got = {'values': [float(v) for v in B.id_manager.free_betas_values]}
        except Exception as e:  # noqa: BLE001
            got = {'error': type(e).__name__}
    case = {'load': True, 'names': names, 'text': text}
    res.count(case, nontrivial=bool(lines))
    res.tally('load malformed' if malformed else 'load')
    if not malformed:
        # oracle from the statement
        last = {}
        for l in lines:
            n, v = l.rsplit('=', 1)
            last[n.strip()] = float(v)
        exp = [last.get(n, b) for n, b in zip(sn, before)]
        if 'error' in got:
            res.violate(f'restart from a well-formed file fails: {got["error"]}', case, got, exp, where='_load_saved_iteration')
        elif [f2b(v) for v in got['values']] != [f2b(v) for v in exp]:
            res.violate('a later estimation does not start from the saved values', case, got['values'], exp, where='_load_saved_iteration')

    def cb(ans):
        a = ans[0]
        if 'error' in a or 'error' in got:
            if a.get('error') != got.get('error'):
                res.diverge('_load_saved_iteration on a file with a line without "="', case, a, got)
            return
        mv = [float(v) for _, v in a['inits']]
        if [f2b(v) for v in mv] != [f2b(v) for v in got['values']]:
            res.diverge('starting values after _load_saved_iteration (file not written by this model)', case, a['inits'], got['values'])

    ctx.batch.add_many([{'op': 'load', 'inits': [[n, repr(b)] for n, b in zip(sn, before)], 'lines': lines}], cb)


def estimate_restart(ctx, res, names, saved, tag):
    import biogeme.biogeme as bio

    with core.scratch(TOML):
        B = build(names, tag)
        sorted_names = list(B.free_beta_names)
        Path(f'__{tag}.iter').write_text(''.join(f'{n} = {v}\n' for n, v in zip(sorted_names, saved)), encoding='utf-8')
        seen = []
        orig = bio.BIOGEME.calculate_likelihood_and_derivatives

        def spy(self, x, *a, **k):
            seen.append([float(v) for v in x])
            return orig(self, x, *a, **k)

        orig_l = bio.BIOGEME.calculate_likelihood

        def spy_l(self, x, *a, **k):
            seen.append([float(v) for v in x])
            return orig_l(self, x, *a, **k)

        bio.BIOGEME.calculate_likelihood_and_derivatives = spy
        bio.BIOGEME.calculate_likelihood = spy_l
        try:
            B.generate_html = False
            B.generate_pickle = False
            B.estimate()
        except Exception as e:  # noqa: BLE001
            res.notes.append(f'estimate() raised {type(e).__name__}: {e}')
        finally:
            bio.BIOGEME.calculate_likelihood_and_derivatives = orig
            bio.BIOGEME.calculate_likelihood = orig_l
        case = {'names': names, 'saved': saved}
        res.count({'estimate_restart': case}, nontrivial=True)
        if not seen:
            res.diverge('estimate() evaluated nothing', case, saved, seen)
        elif [f2b(v) for v in seen[0]] != [f2b(v) for v in saved]:
            res.diverge('first point evaluated by estimate()', case, saved, seen[0])
            res.violate('a later estimation does not start from the saved values', case, seen[0], saved, where='estimate / _load_saved_iteration')


def search(ctx, res, broken):
    """something broke without a concrete failing input: widen the generated stream and apply the
    property oracle on the real code"""
    rng = core.rng_for('C15-search', ctx.seed)
    texts = ' '.join(str(d.get('what', '')) for d in res.divergences)
    protocol_first = any(w in texts for w in ('crash', 'protocol', 'primitive', 'directory after a stop', 'unexpected files'))
    if protocol_first:
        r2 = Result()
        if crash_search(r2, rng):
            res.violations.extend(r2.violations[:1])
            return
    for i in range(100):
        k = rng.randint(1, 3)
        names = rng.sample(NAME_POOL, k)
        name0, ops, own = gen_session(rng, k)
        r2 = Result()
        algo = pick_algo(rng, ops)
        if apply_session_oracle(r2, session_case(names, name0, ops, algo, own), run_session(names, name0, ops, algo=algo, own_data=own)):
            keep = [v for v in r2.violations if v.get('where') != WHERE_BOOT or not any(f.get('id') == 'FC15-boot' and f.get('kind') == 'known' for f in ctx.findings)]
            if keep:
                res.violations.extend(keep[:1])
                return
    for i in range(150):
        k = rng.randint(1, 3)
        names = rng.sample(NAME_POOL, k)
        pts = gen_history(rng, k)
        r2 = Result()
        try:
            check_history(ctx, r2, names, pts, f's{i}')
            ctx.batch.items.clear()
        except core.LeanError:
            # model unavailable: oracle only
            sorted_names, steps, restart, _ = run_history(names, pts, f's{i}')
            for j, s in enumerate(steps):
                why = oracle_file(sorted_names, s['file'], steps[: j + 1])
                if why:
                    r2.violate(f'iteration file after evaluation {j}: {why}', {'names': names, 'points': pts}, s['file'], 'best finite point')
                    break
            if restart and not restart['ok']:
                r2.violate(f'restart fails: {restart["error"]}', {'names': names, 'points': pts}, restart, 'restart succeeds')
        if r2.violations:
            res.violations.extend(r2.violations[:1])
            return
    if not protocol_first:
        r2 = Result()
        if crash_search(r2, rng, n=1):
            res.violations.extend(r2.violations[:1])


def replay(ctx, obj):
    case = obj.get('case', {})
    out = {'replayed': obj.get('what')}
    if case.get('session'):
        r = Result()
        o = run_session(case['names'], case['name0'], case['ops'], algo=case.get('algo'), own_data=bool(case.get('own_data')))
        fails = apply_session_oracle(r, session_case(case['names'], case['name0'], case['ops'], case.get('algo'), bool(case.get('own_data'))), o)
        out.update({'property_fails': bool(fails), 'why': r.violations[0]['what'] if r.violations else None,
                    'recorded': session_view(o['events'], len(o['events']))})
    elif 'points' in case:
        sorted_names, steps, restart, _ = run_history(case['names'], case['points'], 'replay')
        fails = None
        for j, s in enumerate(steps):
            why = oracle_file(sorted_names, s['file'], steps[: j + 1])
            if why:
                fails = f'step {j}: {why}'
                break
        if restart and not restart['ok']:
            fails = fails or restart['error']
        out.update({'observed': [s['file'] for s in steps], 'f': [s['f'] for s in steps], 'property_fails': bool(fails), 'why': fails})
    elif case.get('load'):
        with core.scratch(TOML):
            B = build(case['names'], 'replay')
            sn = list(B.free_beta_names)
            before = [float(v) for v in B.id_manager.free_betas_values]
            Path('__replay.iter').write_text(case['text'], encoding='utf-8')
            last = {}
            for l in case['text'].split('\n')[:-1]:
                n, v = l.rsplit('=', 1)
                last[n.strip()] = float(v)
            exp = [last.get(n, b) for n, b in zip(sn, before)]
            try:
                B._load_saved_iteration()
                vals = [float(v) for v in B.id_manager.free_betas_values]
                fails = [f2b(v) for v in vals] != [f2b(v) for v in exp]
                out.update({'property_fails': bool(fails), 'values': vals, 'expected': exp})
            except Exception as e:  # noqa: BLE001
                out.update({'property_fails': True, 'why': f'{type(e).__name__}: {e}'})
    elif 'crash_after' in case:
        # the stored crash point on the real code: child stopped with os._exit after that primitive / line, then the
        # real restart
        r = Result()
        lines = case.get('crash_unit') == 'executed line'
        o = run_crash_worker(crash_payload(case['names'], 'replay', case.get('x_old'), case['x_new'], ks=[case['crash_after']], lines=lines,
                                           estimate=len(case['names']) <= 3, mode=case.get('mode')))
        fails = apply_crash_oracle(r, o, case['names'], case.get('x_old'), case['x_new'], lines=lines, mode=case.get('mode'))
        out.update({'property_fails': bool(fails), 'why': r.violations[0]['what'] if r.violations else None,
                    'directory': (o.get('points') or [{}])[0].get('state'), 'errors': o.get('errors')})
    else:
        out.update({'property_fails': False, 'note': 'nothing to replay (no concrete input in this file)'})
    return out
