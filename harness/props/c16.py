"""C16 — catalogs span the product of their controllers; operators stay inside it.

Tie: correspondence (C), small spaces enumerated completely.  An abstract case (expression tree
with catalog nodes, shared controllers, nested catalogs, values of the parameters, a few rows)
is built twice: through the real biogeme API (`Catalog`, `Controller`, operators) and, for every
configuration, as the formula written out by hand (members picked by name by harness code that
knows nothing of catalogs).  Compared with the Lean model (`Model/Catalog.lean`) and with
oracles written from the property statement:

* `set_of_configurations`, `number_of_multiple_expressions`, iteration, `current_configuration`;
* `Configuration.get_string_id / from_string / from_dict`, listing order;
* `configure_catalogs` -> every catalog object shows the member named by its controller; the
  configured formula and the hand-written one are evaluated by the real engine on the same rows
  (exact comparison, integer data), their decoded signatures are identical, `str()` shows the
  selected members;
* every operator of `prepare_operators()` over histories (the `random.choices` inside
  `modify_random_controllers` is replaced by a recorded choice list), increase/decrease inverse,
  direct `Controller.modify_controller` (circular and clamped);
* operators applied to the members of a *population* of configurations while the expression is left in
  another state (interleaved with configure / select / modify_controller / iteration through several
  public entry points): the result is the documented neighbour of the configuration GIVEN, the same
  call gives the same result whatever happened in between, the opposite move (Increase/Decrease, Pair
  NE/SW, NW/SE) gives back the configuration given, catalogs stay synchronised, iteration stays complete;
* `segmentation_catalogs` / `generic_alt_specific_catalogs` / `segmented_beta` against their documented closed form.

Round 3:
* construction (`Catalog(...)`, `Catalog.from_dict(...)` handed declared `Controller` objects): catalogs listing the
  controller's names, or a variant (other order, a name replaced, fewer, more, other case; reserved character in the
  catalog name, no member): refused, or every catalog follows its controller BY NAME in every configuration
  (model `Cat.construct`, theorems accepted_catalog_matches_controller / mismatched_catalog_refused /
  declared_controller_sync);
* `SelectedExpressionsIterator(expression, chosen)` on chosen sets of configurations (choices listed in any order,
  started in any state) and `BIOGEME.estimate_catalog` (all / selected configurations, real estimations in a fresh
  interpreter): one model per configuration asked for, each the model of the hand-written formula
  (model `Cat.estimateCatalog`, theorems iteration_visits_selected / estimate_catalog_all / _selected);
* `rename_elementary` / `fix_betas` / `change_init_values` through the catalogs = the same on the hand-written formula;
  afterwards, under another configuration, members that were not selected kept their leaves (model `Expr.mapSel`,
  theorems delegated_rewrite_*); accessors of the interface (`MultipleExpression.selected_name / catalog_size /
  selected_expression / get_children / get_status_id_manager`);
* a formula used alone and as a part of bigger formulas, in any order (`Expression.set_central_controller`): every formula
  always reports the configurations of its own catalogs (model: `central` of the formula alone, theorem embedded_formula;
  finding FC16f, repaired in /repo by 33b805d);
* several formulas written with the same catalog objects (each its own CentralController, shared publicly mutable
  Controller objects): interleaved selections (the same configuration asked again), select_expression, operators, direct
  set_index / set_name / modify_controller / reset_selection, reads; observed without touching any CentralController
  (model `Cat.runM`, theorem select_after_any_history);
* construction interleaved with selection: catalogs and formulas created at any point of a history of selections /
  operators / direct controller moves; after every selection and every move all catalogs made so far follow their
  controller (model `Cat.runW`, theorem late_catalog_follows);
* the signature text the calculator hands to the engine for a configured formula is run by the PROVED engine
  model (lib/leanrun.py, theorems C01.engine_reads_text / engine_correct) and must give the integer value of the
  hand-written formula: the C++ engine is no longer trusted for these.
"""

from __future__ import annotations

import itertools
import json
import math
import re
import types

from lib import core, leanrun
from lib.core import Result

READY = True
MANIFEST = dict(
    text='Proof (Lean 4): for every accepted expression the space of controllers is well formed (C16.central_wf); the enumeration the code performs '
    '(product of per-controller codes, joined, parsed back) has exactly prod(sizes) elements, no duplicate, and contains exactly the valid configurations '
    '(count / nodup / complete); the identifier is independent of the listing order, converts back and is injective under the guard the separators force, '
    'with a proved counterexample without the guard (id_order_independent / id_roundtrip / id_injective / id_not_injective_without_guard); the iterator visits '
    'each configuration once; after configure_catalogs every catalog at any depth shows the member named by its controller and the delegated formula is '
    'syntactically the hand-written one, catalog free, with the same value (select_sync / select_equals_handwritten); every operator is closed for every step '
    'in Z, every state and every random outcome, over all histories (closure / closure_prepared / history_closed / modify_controller_closed); increase then '
    'decrease (and conversely) is the identity (inc_dec_inverse / dec_inc_inverse), so is a pair move followed by the opposite pair move (pair_inverse, '
    'prepared_pairs_distinct); what an operator returns is a function of the configuration it is given, not of the state the controllers were left in '
    '(operator_state_independent), controllers it does not name keep their alternative (operator_moves_only_named), and over any interleaving of operator '
    'calls on a population with configure/select/modify/iterate operations the members stay valid and equal those produced by the operator calls alone '
    '(population_history). Round 3: the constructors accept a catalog handed a controller only if it lists the names of the controller in the same order, '
    'so that the positional selection shows the alternative the controller object names (accepted_catalog_matches_controller / mismatched_catalog_refused / '
    'order_check_necessary / declared_controller_sync); the iterator over any chosen list of configurations visits exactly that list from any state '
    '(iteration_visits_selected); estimate_catalog returns, for all configurations below the cap or for any chosen valid ones, one entry per configuration, '
    'under pairwise different identifiers, each the formula written out by hand, and is refused above the cap (estimate_catalog_all / _selected / _too_many); '
    'rename_elementary / fix_betas / change_init_values handed to the selected member commute with selection, leave the space of configurations and the '
    'members that are not selected untouched (delegated_rewrite_commutes / _equals_handwritten / _local); the space of a formula is a function of the '
    'formula alone, and inside a bigger formula its controllers are controllers of the bigger one, every valid configuration of the bigger one restricts to '
    'a valid configuration of the part, with the same hand-written form (embedded_formula / embedded_operands); with several formulas (several central '
    'controllers) on shared controller objects, after any history of selections on any of them, select_expression, operator calls and direct set_index / '
    'set_name / modify_controller on the controllers, configure_catalogs(A) makes the formula show A (current configuration, every catalog, hand-written '
    'form) and leaves the controllers of other formulas only untouched (select_after_any_history / select_touches_own_controllers_only); when catalogs '
    'and formulas are created at any point of such a history (a catalog handed a controller that has already been moved), after configure_catalogs(A) every '
    'catalog made so far, whenever it was made, shows the member A names for its controller (late_catalog_follows). '
    'Tie: correspondence on real Catalog/Controller/Configuration objects, '
    'engine evaluation of configured vs hand-written formulas, decoded signatures, operator histories with recorded random choices, population '
    'histories (operator applied to a configuration that is not the one the expression shows); spaces up to the cap enumerated completely; '
    'construction stream with declared controllers and both constructors; iteration over chosen sets; real estimate_catalog runs against hand-written '
    'estimations; rewriting through catalogs; signature texts of configured formulas run by the proved engine model (leanrun); scripts using a formula '
    'alone and as a part of one or two bigger formulas in any order; scripts over 2-3 formulas built on the same catalog objects (repeated selections, '
    'direct mutations of the Controller objects, reads), the state observed through the Controller / Catalog objects only; scripts creating catalogs '
    '(list / from_dict, declared or own controller) and formulas BETWEEN selections, operator calls and direct moves, selections often asking for the '
    'alternatives the controllers already show.',
    design='DESIGN.md §5 C16',
    technique='Lean 4 theorems over an executable state-machine model + differential correspondence with the real catalog machinery and the real engine',
    note='Finding FC16f (found by this check, repaired in /repo by 33b805d): Expression.set_central_controller hands the central controller of an enclosing formula to the formulas it contains, '
    'so a formula used alone after (or before) being used inside a bigger one reports the configurations of the bigger one; the model is the repaired '
    'behaviour (proposed_fixes/FC16f.diff). Three input-validation defects were listed as known findings (FC16a/b/c: same-named controllers merged, reserved separators and duplicate '
    'specification names accepted; fixed in /repo since); the model is the repaired behaviour (refusal). The state reached when an operation raises is '
    'not modelled. Not modelled: the numerical estimation inside estimate_catalog (compared with the estimation of the hand-written formula by the same '
    'code), recycle / bootstrap options, code-text generators of segmentation.py (beta_code / segmented_code), Configuration.get_html.',
)

TRUSTED = [
    'the engine evaluates both the configured and the hand-written formula (same engine on both sides of the comparison); for the first two '
    'configurations of every case the real signature text is also run by the proved engine model and compared with integer arithmetic',
    'estimate_catalog stream: the optimiser, run by the same code on the configured and on the hand-written formula (log likelihood compared at rel 1e-5)',
    'Python str ordering = lexicographic order on code points (leName in the model)',
    'set/dict iteration order of CPython is irrelevant: sets are compared as sorted lists',
]
ASSUMPTIONS = [
    'a formula object is asked about its catalogs either on its own or through bigger formulas containing it, not both (otherwise finding FC16f, repaired by 33b805d, '
    'applies on the unchanged tree: the model describes the repaired code)',
    'controller and specification names contain no ";" or ":" and are distinct inside one controller; controllers are identified by their name '
    '(guards SelOK / SpaceWF of the theorems; the code does not enforce them: known findings FC16a/b/c)',
]
RULE = (
    'expressions with 1-4 controllers of size 1-5 (own and shared controllers, nested catalogs, adversarial names); every configuration of spaces '
    'below the cap is configured and evaluated; operator histories of length 1-20; population histories (2-4 members, 4-18 events: operator calls, '
    'repeated calls, opposite moves, configure/select/modify/iterate in between); non-trivial = at least two controllers, or a shared controller, or a '
    'nested catalog; construction: 1-2 declared controllers, 2-5 catalogs (list / from_dict), at most one catalog deviating from its controller; '
    'estimate_catalog: 2-12 configurations, 8 rows; rewriting: one operation per case under one configuration, then another configuration'
)

W_SAME = 'get_all_controllers: two different controllers with the same name are merged'
W_SEP = 'Controller.__init__: reserved separator accepted in a specification or controller name'
W_DUP = 'Controller.__init__: duplicate specification names accepted'
W_STALE = 'get_value_and_derivatives(prepare_ids=True): restores an id manager prepared under another configuration'
W_ROOT = 'MultipleExpression.set_id_manager: a formula whose root is a catalog keeps no id manager'

MATCHERS = {
    'same_name': lambda case: isinstance(case, dict) and case.get('shape') == 'same_name',
    'separator': lambda case: isinstance(case, dict) and case.get('shape') == 'separator',
    'dup_spec': lambda case: isinstance(case, dict) and case.get('shape') == 'dup_spec',
    'stale_ids': lambda case: isinstance(case, dict) and case.get('shape') == 'stale_ids',
    'root_catalog': lambda case: isinstance(case, dict) and case.get('shape') == 'root_catalog',
}

MAXN = 100  # default of maximum_number_catalog_expressions
EXTRA_MODULES = list(leanrun.MODULES)
LEANRUN: list = []  # (observation of what the calculator handed to the engine, integer values of the hand-written formula, case)

CAT_NAMES = ['c1', 'c10', 'c2', 'Zcat', 'a_b', 'a', 'β', 'cat x', 'a-b', 'no_seg', 'b_c', '']
CTRL_NAMES = ['k', 'K10', 'K2', 'shared', 'a_b_c', 'ω', 'k k']
SPEC_NAMES = ['lin', 'quad', 'log', 's1', 's10', 's2', 'A', 'generic', 'altspec', 'no_seg', 'x-y', '', 'ü']
BETAS = ['b1', 'b10', 'b2', 'asc']
VARS = ['x', 'y', 'z']

# --------------------------------------------------------------------------- generators


def gen_expr(rng, depth, st, allow_cat=True):
    """abstract expression; st carries the controllers created so far and the names in use"""
    r = rng.random()
    if depth <= 0 or r < 0.25:
        k = rng.choice(['num', 'beta', 'var'])
        if k == 'num':
            return {'k': 'num', 'v': rng.randint(-4, 6)}
        if k == 'beta':
            return {'k': 'beta', 'n': rng.choice(BETAS)}
        return {'k': 'var', 'n': rng.choice(VARS)}
    if allow_cat and r < 0.65 and len(st['cat_names']) < len(CAT_NAMES):
        return gen_cat(rng, depth, st)
    if r < 0.72:
        return {'k': 'neg', 'a': gen_expr(rng, depth - 1, st, allow_cat)}
    op = rng.choice(['plus', 'plus', 'minus', 'times', 'eq'])
    return {'k': 'bin', 'op': op, 'a': gen_expr(rng, depth - 1, st, allow_cat), 'b': gen_expr(rng, depth - 1, st, allow_cat)}


def gen_cat(rng, depth, st):
    name = rng.choice([n for n in CAT_NAMES if n not in st['cat_names']])
    st['cat_names'].add(name)
    shared = st['shared']
    use_shared = shared and rng.random() < 0.5
    if not use_shared and len(shared) < 2 and rng.random() < 0.35:
        cn = rng.choice([n for n in CTRL_NAMES if n not in shared])
        size = rng.choice([1, 2, 2, 3, 3, 4, 5])
        shared[cn] = rng.sample(SPEC_NAMES, size)
        use_shared = True
    if use_shared:
        ctrl = rng.choice(sorted(shared))
        specs = shared[ctrl]
        own = False
    else:
        ctrl = name
        size = rng.choice([1, 2, 2, 3, 3, 4, 5])
        specs = rng.sample(SPEC_NAMES, size)
        own = True
    ms = [[s, gen_expr(rng, depth - 1, st, allow_cat=rng.random() < 0.6)] for s in specs]
    node = {'k': 'cat', 'name': name, 'ctrl': ctrl, 'own': own, 'ms': ms}
    if rng.random() < 0.3:
        node['via'] = 'from_dict'  # the alternative constructor (member names are distinct here)
    return node


def gen_case(rng):
    for _ in range(50):
        st = {'cat_names': set(), 'shared': {}}
        e = gen_expr(rng, rng.choice([2, 3, 3, 4]), st)
        if st['cat_names']:
            break
    else:  # pragma: no cover
        e = gen_cat(rng, 2, st)
    if e['k'] == 'cat':
        # a formula whose root is a catalog cannot be evaluated (known finding FC16e, probed separately)
        e = {'k': 'bin', 'op': rng.choice(['plus', 'times', 'minus']), 'a': e, 'b': {'k': 'num', 'v': rng.randint(1, 3)}}
    betas = {b: rng.randint(-3, 4) for b in BETAS}
    rows = [{v: rng.randint(-3, 5) for v in VARS} for _ in range(3)]
    case = {'expr': e, 'betas': betas, 'rows': rows}
    if st['shared']:
        case['decl'] = {k: list(v) for k, v in st['shared'].items()}  # Controller objects created before the formula
    return case


# --------------------------------------------------------------------------- walking the abstract case (oracle side)


def walk_ctrls(e, out, decl=None):
    """controllers of the abstract case: name -> specs (every catalog, selected or not); a catalog handed a
    declared Controller object (case['decl']) is governed by the names of that object"""
    k = e['k']
    if k == 'neg':
        walk_ctrls(e['a'], out, decl)
    elif k == 'bin':
        walk_ctrls(e['a'], out, decl)
        walk_ctrls(e['b'], out, decl)
    elif k == 'cat':
        own = e.get('own', e['ctrl'] == e['name'])
        if decl and not own and e['ctrl'] in decl:
            out.setdefault(e['ctrl'], list(decl[e['ctrl']]))
        else:
            out.setdefault(e['ctrl'], [m[0] for m in e['ms']])
        for _, m in e['ms']:
            walk_ctrls(m, out, decl)
    return out


def ctrls_of(case):
    return walk_ctrls(case['expr'], {}, case.get('decl'))


def features(e, depth=0, acc=None):
    acc = acc if acc is not None else {'cats': 0, 'nested': False, 'ctrls': {}}
    k = e['k']
    if k == 'neg':
        features(e['a'], depth, acc)
    elif k == 'bin':
        features(e['a'], depth, acc)
        features(e['b'], depth, acc)
    elif k == 'cat':
        acc['cats'] += 1
        acc['ctrls'][e['ctrl']] = acc['ctrls'].get(e['ctrl'], 0) + 1
        if depth > 0:
            acc['nested'] = True
        for _, m in e['ms']:
            features(m, depth + 1, acc)
    return acc


def hand_written(e, cfg, B):
    """the formula written out by hand for configuration cfg (dict controller -> selection):
    a plain python value built with the same public operators, no Catalog involved"""
    k = e['k']
    if k == 'num':
        return B['Numeric'](e['v'])
    if k == 'beta':
        return B['beta'](e['n'])
    if k == 'var':
        return B['Variable'](e['n'])
    if k == 'neg':
        return -hand_written(e['a'], cfg, B)
    if k == 'bin':
        a, b = hand_written(e['a'], cfg, B), hand_written(e['b'], cfg, B)
        return {'plus': lambda: a + b, 'minus': lambda: a - b, 'times': lambda: a * b, 'eq': lambda: a == b}[e['op']]()
    want = cfg[e['ctrl']]
    for n, m in e['ms']:
        if n == want:
            return hand_written(m, cfg, B)
    raise KeyError(want)


def hand_int(e, cfg, betas, row):
    """integer value of the hand-written formula (python ints; independent of biogeme and Lean)"""
    k = e['k']
    if k == 'num':
        return e['v']
    if k == 'beta':
        return betas[e['n']]
    if k == 'var':
        return row[e['n']]
    if k == 'neg':
        return -hand_int(e['a'], cfg, betas, row)
    if k == 'bin':
        a, b = hand_int(e['a'], cfg, betas, row), hand_int(e['b'], cfg, betas, row)
        return {'plus': a + b, 'minus': a - b, 'times': a * b, 'eq': 1 if a == b else 0}[e['op']]
    want = cfg[e['ctrl']]
    for n, m in e['ms']:
        if n == want:
            return hand_int(m, cfg, betas, row)
    raise KeyError(want)


# --------------------------------------------------------------------------- real objects


def lib():
    import biogeme.expressions as ex
    from biogeme.catalog import Catalog
    from biogeme.controller import Controller
    from biogeme.configuration import Configuration, SelectionTuple

    return types.SimpleNamespace(ex=ex, Catalog=Catalog, Controller=Controller, Configuration=Configuration, SelectionTuple=SelectionTuple)


def builders(case):
    import biogeme.expressions as ex

    return {
        'Numeric': lambda v: ex.Numeric(v),
        'beta': lambda n: ex.Beta(n, case['betas'][n], None, None, 0),
        'Variable': lambda n: ex.Variable(n),
    }


def build_real(case, distinct_objects=False, keep=None):
    """real expression with Catalog objects; returns (expression, list of (abstract node, Catalog)); `keep` (dict) receives
    the real object built for every abstract node, by id() of the node"""
    L = lib()
    B = builders(case)
    ctrl_objs = {}
    cats = []
    if not distinct_objects:
        # the Controller objects the user's script creates before writing the formula
        for cn, specs in (case.get('decl') or {}).items():
            ctrl_objs[cn] = L.Controller(cn, list(specs))

    def make(e, members, **kw):
        if e.get('via') == 'from_dict':
            return L.Catalog.from_dict(e['name'], {m.name: m.expression for m in members}, **kw)
        return L.Catalog(e['name'], members, **kw)

    def go(e):
        obj = go_(e)
        if keep is not None:
            keep[id(e)] = obj
        return obj

    def go_(e):
        k = e['k']
        if k == 'num':
            return B['Numeric'](e['v'])
        if k == 'beta':
            return B['beta'](e['n'])
        if k == 'var':
            return B['Variable'](e['n'])
        if k == 'neg':
            return -go(e['a'])
        if k == 'bin':
            a, b = go(e['a']), go(e['b'])
            return {'plus': lambda: a + b, 'minus': lambda: a - b, 'times': lambda: a * b, 'eq': lambda: a == b}[e['op']]()
        members = [L.ex.NamedExpression(name=n, expression=go(m)) for n, m in e['ms']]
        if e.get('own', e['ctrl'] == e['name']) and not distinct_objects and e['ctrl'] not in ctrl_objs:
            c = make(e, members)
            ctrl_objs[e['ctrl']] = c.controlled_by
        else:
            if distinct_objects or e['ctrl'] not in ctrl_objs:
                obj = L.Controller(e['ctrl'], [n for n, _ in e['ms']])
                if not distinct_objects:
                    ctrl_objs[e['ctrl']] = obj
            else:
                obj = ctrl_objs[e['ctrl']]
            c = make(e, members, controlled_by=obj)
        cats.append((e, c))
        return c

    return go(case['expr']), cats


def database(case):
    import pandas as pd
    import biogeme.database as db

    df = pd.DataFrame({v: [float(r[v]) for r in case['rows']] for v in VARS})
    return db.Database('c16', df)


SIG = re.compile(rb'^<(\w+)>\{(\d+)\}(.*)$')


def decode_signature(sig):
    """tree text of a signature (ids removed): the last line is the formula, children by id"""
    nodes = {}
    last = None
    for line in sig:
        m = SIG.match(line)
        if not m:
            return f'<unparsed {line!r}>'
        kind, ident, rest = m.group(1).decode(), m.group(2).decode(), m.group(3).decode()
        if kind == 'Numeric':
            v = float(rest.lstrip(','))
            txt = f'Numeric({int(v) if v == int(v) else v})'
        elif kind in ('Beta', 'Variable'):
            name = rest.split('"')[1]
            txt = f'{kind}({name})'
        else:
            mm = re.match(r'^\((\d+)\)(.*)$', rest)
            if not mm:
                return f'<unparsed {line!r}>'
            kids = [k for k in mm.group(2).split(',') if k]
            txt = f'{kind}(' + ','.join(nodes.get(k, f'?{k}') for k in kids) + ')'
        nodes.setdefault(ident, txt)
        last = ident
    return nodes.get(last, '<empty>')


def err_tag(e):
    s = str(e)
    kind = core.exc_kind(e)
    if kind != 'BiogemeError':
        return kind
    for pat, tag in [
        ('Invalid syntax for ID', 'syntax'),
        ('appears more than once', 'dupController'),
        ('unknown specification for controller', 'unknownSpec'),
        ('is unknown', 'unknownController'),
        ('Unknown controller', 'unknownController'),
        ('Incomplete configuration', 'incomplete'),
        ('Wrong index', 'wrongIndex'),
        ('Incorrect direction', 'badDirection'),
        ('cannot create a catalog from an empty list', 'emptyCatalog'),
        ('reserved', 'badName'),
        ('Cannot contain characters', 'badName'),
        ('more than once in the specification', 'dupSpec'),
        ('same name', 'sameName'),
        ('Incompatible IDs', 'incompatible'),
    ]:
        if pat in s:
            return tag
    return 'BiogemeError:' + s[:60]


class FakeRandom:
    """stands for the `random` module inside biogeme.controller: choices() replays a record"""

    def __init__(self):
        self.record = []
        self.calls = []

    def choices(self, population, weights=None, *, cum_weights=None, k=1):
        kk = max(int(k), 0)
        self.calls.append((list(population), k))
        return [population[i % len(population)] for i in self.record[:kk]]


def patched_random():
    import biogeme.controller as bc

    fake = FakeRandom()
    old = bc.random
    bc.random = fake
    return fake, (lambda: setattr(bc, 'random', old))


# --------------------------------------------------------------------------- one case


def lean_expr(e):
    k = e['k']
    if k in ('num', 'beta', 'var'):
        return e
    if k == 'neg':
        return {'k': 'neg', 'a': lean_expr(e['a'])}
    if k == 'bin':
        return {'k': 'bin', 'op': e['op'], 'a': lean_expr(e['a']), 'b': lean_expr(e['b'])}
    return {'k': 'cat', 'name': e['name'], 'ctrl': e['ctrl'], 'ms': [[n, lean_expr(m)] for n, m in e['ms']]}


def valid_ids(ctrls):
    names = sorted(ctrls)
    out = set()
    for combo in itertools.product(*[ctrls[n] for n in names]):
        out.add(';'.join(f'{n}:{s}' for n, s in zip(names, combo)))
    return out


def check_case(ctx, res, case, n_configs, n_hist, model=True):
    """drive the real code on one abstract case; oracles -> violations, model -> divergences"""
    phase = ['construction']
    try:
        _check_case(ctx, res, case, n_configs, n_hist, model, phase)
    except core.LeanError:
        raise
    except Exception as e:  # noqa: BLE001  (the real code raised on a valid catalog structure)
        import traceback

        tb = traceback.extract_tb(e.__traceback__)
        site = next((f'{f.filename.split("/")[-1]}:{f.lineno} {f.name}' for f in reversed(tb) if '/biogeme/' in f.filename), '')
        res.violate(f'the real code raises {type(e).__name__}: {str(e)[:200]} during {phase[0]} of a valid catalog structure', 
                    {**case, 'phase': phase[0]}, f'{type(e).__name__} at {site}', 'no error', where='catalog machinery: ' + phase[0])


TREE_OPS = ['free', 'fixed', 'variables', 'str', 'py_value', 'audit', 'draws', 'rv', 'panel', 'beta_values', 'embed_beta', 'count_panel']


def tree_battery(e, db_):
    """results of the tree operations a MultipleExpression delegates to its selected member"""
    import biogeme.expressions as ex

    T = ex.TypeOfElementaryExpression
    out = {}

    def get(key, f):
        try:
            out[key] = f()
        except Exception as exc:  # noqa: BLE001
            out[key] = 'raises ' + core.exc_kind(exc)

    get('free', lambda: sorted(e.set_of_elementary_expression(T.FREE_BETA)))
    get('fixed', lambda: sorted(e.set_of_elementary_expression(T.FIXED_BETA)))
    get('variables', lambda: sorted(e.set_of_elementary_expression(T.VARIABLE)))
    untag = lambda t: re.sub(r'\[[^\[\]:]*: [^\[\]]*\]', '', t)  # noqa: E731  ([catalog: member] shown by str())
    get('str', lambda: untag(str(e)))
    get('py_value', lambda: float(e.get_value()))
    # errors only: the "chained comparison" *warning* is a syntactic hint on the direct operands (isinstance test), which a
    # catalog hides; it does not change what the formula is or evaluates to
    get('audit', lambda: [untag(m) for m in e.audit(db_)[0]])
    get('draws', lambda: sorted(e.check_draws()))
    get('rv', lambda: sorted(e.check_rv()))
    get('panel', lambda: sorted(e.check_panel_trajectory()))
    get('beta_values', lambda: sorted(e.get_beta_values().items()))
    get('embed_beta', lambda: [bool(e.embed_expression(t)) for t in ('Beta', 'Variable', 'Times', 'UnaryMinus', 'Equal', 'Catalog')])
    get('count_panel', lambda: e.count_panel_trajectory_expressions())
    get('dict_beta', lambda: sorted(e.dict_of_elementary_expression(T.FREE_BETA)))
    get('get_elem', lambda: [type(e.get_elementary_expression(n)).__name__ for n in BETAS + VARS])

    def status_ids():
        e.prepare(db_, 0)
        with_ids = [sorted(x) for x in e.get_status_id_manager()]
        e.set_id_manager(None)
        return [with_ids, [sorted(x) for x in e.get_status_id_manager()]]

    get('status_ids', status_ids)
    get('draw_types', lambda: sorted(e.dict_of_draw_types().items()))
    get('multiple', lambda: len(e.set_of_multiple_expressions()))
    return out


def _check_case(ctx, res, case, n_configs, n_hist, model, phase):
    L = lib()
    ctrls = ctrls_of(case)
    sizes = {n: len(s) for n, s in ctrls.items()}
    expected_n = math.prod(sizes.values())
    feats = features(case['expr'])
    nontrivial = len(ctrls) >= 2 or feats['nested'] or any(v >= 2 for v in feats['ctrls'].values())
    res.count(case, nontrivial=nontrivial)
    res.tally(f'controllers={len(ctrls)}')
    res.tally('nested' if feats['nested'] else 'flat')
    res.tally('shared' if any(v >= 2 for v in feats['ctrls'].values()) else 'unshared')
    lexpr = lean_expr(case['expr'])
    db_ = database(case)
    B = builders(case)

    expr, cats = build_real(case)
    real = {}
    phase[0] = 'enumeration (number_of_multiple_expressions / set_of_configurations / prepare_operators)'
    real['number'] = expr.number_of_multiple_expressions()
    conf_set = expr.set_of_configurations()
    real['configs'] = None if conf_set is None else sorted(c.get_string_id() for c in conf_set)
    cc = expr.central_controller
    real['controllers'] = [[c.controller_name, list(c.specification_names)] for c in cc.controllers]
    real['initial'] = expr.current_configuration().get_string_id()
    ops = cc.prepare_operators()
    real['operators'] = list(ops.keys())

    # ---- oracle 1: one configuration per combination, each once
    all_valid = valid_ids(ctrls)
    if real['number'] != expected_n:
        res.violate('number_of_multiple_expressions is not the product of the controller sizes', case, real['number'], expected_n,
                    where='CentralController.__init__')
    if expected_n <= MAXN:
        if real['configs'] is None or set(real['configs']) != all_valid or len(real['configs']) != expected_n:
            res.violate('set_of_configurations is not exactly one configuration per combination of controller choices', case,
                        real['configs'], sorted(all_valid), where='CentralController.__init__')
        res.exhaustive = True
    elif real['configs'] is not None:
        res.diverge('configurations enumerated above the cap', case, None, len(real['configs']))

    # ---- iteration
    phase[0] = 'iteration'
    visited = None
    if conf_set is not None:
        visited = []
        it_expr, _ = build_real(case)
        for ee in it_expr:
            visited.append(ee.current_configuration().get_string_id())
        if sorted(visited) != sorted(all_valid):
            res.violate('iteration does not visit every configuration exactly once', case, sorted(visited), sorted(all_valid),
                        where='SelectedExpressionsIterator')

    # ---- identifiers: round trip, listing order
    phase[0] = 'identifier round trip'
    rng = ctx.rng
    id_reqs = []
    sample_cfgs = []
    if conf_set is not None:
        lst = sorted(conf_set, key=lambda c: c.get_string_id())
        sample_cfgs = lst if len(lst) <= n_configs else rng.sample(lst, n_configs)
    else:
        names = sorted(ctrls)
        for _ in range(n_configs):
            sample_cfgs.append(L.Configuration([L.SelectionTuple(n, rng.choice(ctrls[n])) for n in names]))
    for c in sample_cfgs:
        sid = c.get_string_id()
        sels = [[s.controller, s.selection] for s in c.selections]
        try:
            back = L.Configuration.from_string(sid)
            ok = [[s.controller, s.selection] for s in back.selections] == sels and back == c
        except Exception as e:  # noqa: BLE001
            ok, back = False, err_tag(e)
        if not ok:
            res.violate('from_string(get_string_id(c)) is not c', {**case, 'config': sid}, str(back), sid, where='Configuration.from_string')
        shuffled = list(sels)
        rng.shuffle(shuffled)
        sid2 = L.Configuration([L.SelectionTuple(a, b) for a, b in shuffled]).get_string_id()
        sid3 = L.Configuration.from_dict(dict(shuffled)).get_string_id()
        if sid2 != sid or sid3 != sid:
            res.violate('the identifier depends on the listing order', {**case, 'listing': shuffled}, [sid2, sid3], sid,
                        where='Configuration.get_string_id')
        id_reqs.append(({'op': 'mkconfig', 'sels': shuffled}, sid))
        id_reqs.append(({'op': 'fromstring', 's': sid}, sid))

    # ---- selection: sync, hand-written formula, engine values, signature
    sel_reqs = []
    for c in sample_cfgs:
        cfg = {s.controller: s.selection for s in c.selections}
        sid = c.get_string_id()
        phase[0] = f'configure_catalogs({sid!r}) and evaluation'
        expr.configure_catalogs(c)
        now = expr.current_configuration().get_string_id()
        if now != sid:
            res.violate('current_configuration after configure_catalogs is another configuration', {**case, 'config': sid}, now, sid,
                        where='configure_catalogs')
        ME = L.ex.MultipleExpression
        for node, cat in cats:
            shown = cat.selected_name()
            if shown != cfg[node['ctrl']]:
                res.violate(
                    f'catalog {node["name"]!r} governed by controller {node["ctrl"]!r} does not show the selected alternative',
                    {**case, 'config': sid}, shown, cfg[node['ctrl']], where='Controller.set_index / Catalog.selected')
            # the accessors of the interface (MultipleExpression) and of Catalog agree and delegate to the selected member
            sel = cat.selected()
            member = cat.named_expressions[[m[0] for m in node['ms']].index(cfg[node['ctrl']])].expression
            acc = {'selected': sel.name, 'interface selected_name': ME.selected_name(cat), 'catalog_size': cat.catalog_size(),
                   'interface catalog_size': ME.catalog_size(cat), 'selected_expression': cat.selected_expression() is member,
                   'get_children': [id(c) for c in cat.get_children()] == [id(c) for c in member.get_children()],
                   'iterator': [m.name for m in cat.get_iterator()]}
            want_acc = {'selected': cfg[node['ctrl']], 'interface selected_name': cfg[node['ctrl']], 'catalog_size': len(node['ms']),
                        'interface catalog_size': len(node['ms']), 'selected_expression': True, 'get_children': True,
                        'iterator': [m[0] for m in node['ms']]}
            if acc != want_acc:
                res.violate(f'accessors of catalog {node["name"]!r} do not describe the member selected for controller {node["ctrl"]!r}',
                            {**case, 'config': sid}, acc, want_acc, where='MultipleExpression delegation')
        hw = hand_written(case['expr'], cfg, B)
        expr.prepare(db_, 0)
        hw.prepare(db_, 0)
        s_real = decode_signature(expr.get_signature())
        s_hand = decode_signature(hw.get_signature())
        # prepared ids never survive a reconfiguration in this stream (shape of known finding FC16d, probed separately)
        expr.set_id_manager(None)
        v_int = [hand_int(case['expr'], cfg, case['betas'], r) for r in case['rows']]
        if s_real != s_hand:
            res.violate('the signature of the configured formula is not the signature of the hand-written formula', {**case, 'config': sid},
                        s_real, s_hand, where='MultipleExpression.get_signature')
            v_real = None  # the engine is not given a formula that is already known to be wrong
        else:
            if len(sel_reqs) < 2 and model:
                # what the calculator hands to the engine is recorded and run again by the proved engine model
                o = leanrun.observe(expr, db_)
                if 'error' in o:
                    raise RuntimeError(o['error'])
                v_real = o['values']
                LEANRUN.append((o, [float(v) for v in v_int], {**case, 'config': sid}))
            else:
                v_real = [float(v) for v in expr.get_value_c(database=db_, prepare_ids=True)]
            v_hand = [float(v) for v in hw.get_value_c(database=db_, prepare_ids=True)]
            if v_real != v_hand or v_real != [float(v) for v in v_int]:
                res.violate('the configured formula does not evaluate like the formula written out by hand', {**case, 'config': sid},
                            v_real, {'hand_written_engine': v_hand, 'hand_written_integers': v_int}, where='MultipleExpression delegation')
        t_real, t_hand = tree_battery(expr, db_), tree_battery(hw, db_)
        for key in t_real:
            if t_real[key] != t_hand[key]:
                res.violate(f'tree operation {key!r} of the configured formula differs from the hand-written formula', {**case, 'config': sid},
                            t_real[key], t_hand[key], where='MultipleExpression delegation')
                break
        if t_hand.get('py_value') != 'raises BiogemeError' and isinstance(t_hand.get('py_value'), float):
            if t_hand['py_value'] != float(hand_int(case['expr'], cfg, case['betas'], {v: 0 for v in VARS})) and not t_hand['variables']:
                res.notes.append('python evaluation of a hand-written formula differs from integer arithmetic')
        shown_names = re.findall(r'\[([^\[\]:]*): ([^\[\]]*)\]', str(expr))
        sel_reqs.append((
            {'op': 'select', 'expr': lexpr, 'sels': [[a, b] for a, b in cfg.items()],
             'betas': [[k, v] for k, v in case['betas'].items()], 'rows': [[[k, v] for k, v in r.items()] for r in case['rows']]},
            {'sid': sid, 'values': v_real, 'sig': s_real, 'shown': [list(t) for t in shown_names]},
        ))
        res.tally('configurations_evaluated')

    # ---- operator histories (recorded random choices)
    hist_reqs = []
    names = sorted(ctrls)
    phase[0] = 'operator histories'
    fake, restore = patched_random()
    try:
        for _ in range(n_hist):
            start = {n: rng.choice(ctrls[n]) for n in names}
            cur = L.Configuration([L.SelectionTuple(n, s) for n, s in start.items()])
            start_id = cur.get_string_id()
            steps = []
            obs = []
            length = rng.randint(1, 20)
            for _i in range(length):
                family = rng.choice(['Increase ', 'Decrease ', 'Pair_', 'Increase_several', 'Decrease_several'])
                pool = [o for o in real['operators'] if o.startswith(family)] or real['operators']
                key = rng.choice(pool)
                step = rng.choice([1, 1, 2, -1, 0, 3, -7, 12, rng.randint(-40, 40)])
                rec = [rng.randint(0, 50) for _ in range(len(names) + 2)]
                fake.record = rec
                steps.append({'key': key, 'step': step, 'choices': rec})
                try:
                    new, ret = ops[key](cur, step)
                except Exception as e:  # noqa: BLE001
                    obs.append({'err': err_tag(e)})
                    res.violate(f'operator {key!r} raises on a valid configuration: {type(e).__name__}: {e}',
                                {**case, 'start': start_id, 'steps': steps}, err_tag(e), 'a valid configuration',
                                where='CentralController operators')
                    break
                nid = new.get_string_id()
                obs.append({'id': nid, 'ret': int(ret)})
                res.tally('op:' + (key if key.endswith('_several') else key.split(' ')[0].split('_')[0]))
                if nid not in all_valid:
                    res.violate(f'operator {key!r} leaves the set of valid configurations', {**case, 'start': start_id, 'steps': steps},
                                nid, 'one of the valid configurations', where='CentralController operators')
                    break
                cur = new
            hist_reqs.append(({'op': 'history', 'expr': lexpr, 'start': start_id, 'steps': steps}, obs))
            # increase then decrease by the same step
            n = rng.choice(names)
            k = rng.choice([1, 2, -3, 7, rng.randint(-30, 30)])
            c0 = L.Configuration([L.SelectionTuple(m, rng.choice(ctrls[m])) for m in names])
            for first, second in (('Increase', 'Decrease'), ('Decrease', 'Increase')):
                phase[0] = f'{first} then {second} of controller {n!r} by {k} from {c0.get_string_id()!r}'
                c1, _ = ops[f'{first} {n}'](c0, k)
                c2, _ = ops[f'{second} {n}'](c1, k)
                if c2.get_string_id() != c0.get_string_id():
                    res.violate(f'{first} then {second} of controller {n!r} by {k} does not return to the start',
                                {**case, 'start': c0.get_string_id(), 'controller': n, 'step': k},
                                c2.get_string_id(), c0.get_string_id(), where='increased_controller / decreased_controller')
                size = sizes[n]
                want = ctrls[n][(ctrls[n].index(c0.get_selection(n)) + (k if first == 'Increase' else -k)) % size]
                if c1.get_selection(n) != want:
                    res.violate(f'{first} of controller {n!r} by {k} selects the wrong alternative',
                                {**case, 'start': c0.get_string_id(), 'controller': n, 'step': k},
                                c1.get_selection(n), want, where='increased_controller / decreased_controller')
    finally:
        restore()

    # ---- operators over a population, interleaved with other operations on the expression
    pop_reqs = []
    phase[0] = 'population histories'
    for _ in range(min(n_hist, 3)):
        members, events = gen_population(rng, ctrls, rng.randint(4, 18))
        lean_events, pobs, final = run_population(res, case, members, events)
        pop_reqs.append(({'op': 'population', 'expr': lexpr, 'members': members, 'events': lean_events}, pobs, final, events))
        res.tally('population_histories')

    # ---- iteration over chosen configurations; rewriting through the catalogs
    phase[0] = 'iteration over chosen configurations (SelectedExpressionsIterator)'
    check_subset_iteration(ctx, res, case, lexpr, ctrls, all_valid, model)
    phase[0] = 'rename_elementary / fix_betas / change_init_values through the catalogs'
    check_rewrite(ctx, res, case, lexpr, ctrls, model)

    if not model:
        return
    # ---- the Lean model
    reqs = [{'op': 'central', 'expr': lexpr, 'max': MAXN}]
    reqs += [r for r, _ in id_reqs] + [r for r, _ in sel_reqs] + [r for r, _ in hist_reqs] + [r for r, _, _, _ in pop_reqs]

    def cb(ans):
        m = ans[0]
        if 'err' in m:
            res.diverge('the model refuses an expression the code accepts', case, m, real)
            return
        if m.get('ok_for') is not True:
            res.diverge('model: central(e) does not govern all catalogs (okFor false)', case, m, None)
        mc = None if m.get('configs') is None else sorted(m['configs'])
        for key, mv, rv in [('controllers', m.get('controllers'), real['controllers']), ('number', m.get('number'), real['number']),
                            ('configurations', mc, real['configs']), ('operators', m.get('operators'), real['operators'])]:
            if mv != rv:
                res.diverge(f'{key} of the central controller', case, mv, rv)
        if mc is not None:
            if m.get('initial', {}).get('id') != real['initial']:
                res.diverge('initial configuration', case, m.get('initial'), real['initial'])
            if visited is not None and sorted(m.get('visited', [])) != sorted(visited):
                res.diverge('configurations visited by the iterator', case, m.get('visited'), visited)
            if not m.get('all_valid'):
                res.diverge('model: enumerated configuration not valid', case, m, None)
        i = 1
        for (_, sid) in id_reqs:
            a = ans[i]
            i += 1
            if a.get('id') != sid:
                res.diverge('identifier (mkConfig / fromString)', case, a, sid)
        for (_, obs) in sel_reqs:
            a = ans[i]
            i += 1
            if a.get('current', {}).get('id') != obs['sid'] or not a.get('same') or not a.get('plain') or not a.get('valid'):
                res.diverge('selection in the model', {**case, 'config': obs['sid']}, a, obs)
                continue
            if obs['values'] is not None and (
                    [float(v) if v is not None else None for v in a.get('values', [])] != obs['values'] or a.get('values') != a.get('values_sel')):
                res.diverge('value of the selected formula', {**case, 'config': obs['sid']}, a.get('values'), obs['values'])
            if a.get('hand') != obs['sig']:
                res.diverge('structure of the selected formula (decoded signature)', {**case, 'config': obs['sid']}, a.get('hand'), obs['sig'])
            if [[x[0], x[2]] for x in a.get('names', [])] != obs['shown']:
                res.diverge('selected members shown by str()', {**case, 'config': obs['sid']}, a.get('names'), obs['shown'])
        for (rq, obs) in hist_reqs:
            a = ans[i]
            i += 1
            tr = [{k: v for k, v in t.items() if k != 'valid'} for t in a.get('trace', [])]
            if tr != obs or not all(t.get('valid', True) for t in a.get('trace', [])):
                res.diverge('operator history', {**case, 'start': rq['start'], 'steps': rq['steps']}, tr, obs)
            res.traces_validated += 1
        for (rq, pobs, final, events) in pop_reqs:
            a = ans[i]
            i += 1
            tr = [{k: v for k, v in t.items() if k != 'valid'} for t in a.get('trace', [])]
            pcase = {**case, 'members': rq['members'], 'events': events}
            if tr != pobs or not all(t.get('valid', True) for t in a.get('trace', [])) or not a.get('members_valid'):
                res.diverge('population history (results of the operators and states of the expression)', pcase, tr, pobs)
            elif not any('err' in t for t in pobs):
                if a.get('members') != final:
                    res.diverge('members of the population after the history', pcase, a.get('members'), final)
                if a.get('members_applies_only') != a.get('members'):
                    res.diverge('model: the members depend on the operations between the operator calls', pcase,
                                a.get('members_applies_only'), a.get('members'))
            res.traces_validated += 1

    ctx.batch.add_many(reqs, cb)


# --------------------------------------------------------------------------- operators over a population of configurations
#
# A neighbourhood search keeps several configurations and applies the operators to any of them
# while the expression itself is left in whatever state the last operation put it.  The stream
# below interleaves operator calls on the members of a population with other operations on the
# expression (configure, select one alternative, move a controller directly, iterate) and applies
# oracles that only use the configuration handed to the operator:
#   * the result is one of the valid configurations;
#   * the result is the neighbour of the configuration GIVEN (documented moves of Increase /
#     Decrease / Pair; for the random operators the controllers that were not drawn keep their
#     alternative);
#   * the same call (operator, configuration, step, random outcome) gives the same result
#     whatever happened to the expression in between;
#   * the opposite operator with the same step, applied to the result, gives back the configuration
#     the first call was given (Increase <-> Decrease, Pair NE <-> SW, NW <-> SE);
#   * configure_catalogs after any history makes every catalog show the alternative of its
#     controller; a complete iteration after any history visits every configuration once.
# The sequence of states and results is also compared with the Lean model (Cat.runEvents).

OPPOSITE = {'NE': 'SW', 'SW': 'NE', 'NW': 'SE', 'SE': 'NW'}
W_OPS = 'CentralController operators'


def op_table(names):
    """what each key of prepare_operators() denotes (insertion order of the code: a later equal key replaces)"""
    t = {}
    for n in names:
        t[f'Increase {n}'] = ('inc', n)
        t[f'Decrease {n}'] = ('dec', n)
    for n1 in names:
        for n2 in names:
            if n1 != n2:
                for d in ('NE', 'NW', 'SE', 'SW'):
                    t[f'Pair_{n1}_{n2}_{d}'] = ('pair', n1, n2, d)
    t['Increase_several'] = ('several', True)
    t['Decrease_several'] = ('several', False)
    return t


def opposite_key(table, key):
    d = table[key]
    if d[0] == 'inc':
        k2, want = f'Decrease {d[1]}', ('dec', d[1])
    elif d[0] == 'dec':
        k2, want = f'Increase {d[1]}', ('inc', d[1])
    elif d[0] == 'pair':
        k2, want = f'Pair_{d[1]}_{d[2]}_{OPPOSITE[d[3]]}', ('pair', d[1], d[2], OPPOSITE[d[3]])
    else:
        return None
    return k2 if table.get(k2) == want else None


def moved(ctrls, cfg, moves):
    """configuration (dict) obtained from cfg by moving the listed controllers (wrap-around)"""
    out = dict(cfg)
    for n, by in moves:
        specs = ctrls[n]
        out[n] = specs[(specs.index(out[n]) + by) % len(specs)]
    return out


def cfg_id(cfg):
    return ';'.join(f'{n}:{cfg[n]}' for n in sorted(cfg))


def id_cfg(sid):
    return dict(t.split(':', 1) for t in sid.split(';'))


def gen_population(rng, ctrls, n_events):
    """abstract population history: initial members and a list of events"""
    names = sorted(ctrls)
    table = op_table(names)
    keys = list(table)
    det = [k for k in keys if table[k][0] != 'several']
    P = rng.randint(2, 4)
    rand_cfg = lambda: {n: rng.choice(ctrls[n]) for n in names}  # noqa: E731
    members = [cfg_id(rand_cfg()) for _ in range(P)]
    events = []

    def apply_ev(key, src, dst, step=None, choices=None, undo_of=None):
        return {'e': 'apply', 'key': key, 'src': src, 'dst': dst,
                'step': step if step is not None else rng.choice([1, 1, 2, -1, 0, 3, -7, 12, rng.randint(-40, 40)]),
                'choices': choices if choices is not None else [rng.randint(0, 50) for _ in range(len(names) + 2)],
                **({'undo_of': undo_of} if undo_of is not None else {})}

    def disturb():
        r = rng.random()
        if r < 0.4:
            return {'e': 'configure', 'id': cfg_id(rand_cfg()), 'via': rng.choice(['expression', 'central', 'central_id'])}
        if r < 0.6:
            n = rng.choice(names)
            return {'e': 'select', 'name': n, 'index': rng.randrange(len(ctrls[n])), 'via': rng.choice(['expression', 'central', 'controller'])}
        if r < 0.8:
            n = rng.choice(names)
            return {'e': 'modify', 'name': n, 'step': rng.choice([1, -1, 2, -3, 7, rng.randint(-9, 9)]), 'circular': rng.random() < 0.5}
        return {'e': 'iterate', 'take': rng.choice([None, None, 1, 2, 3])}

    while len(events) < n_events:
        r = rng.random()
        src = rng.randrange(P)
        others = [i for i in range(P) if i != src]
        if r < 0.25:
            events.append(apply_ev(rng.choice(keys), src, rng.randrange(P)))
        elif r < 0.5:
            # the same call twice, something else happening to the expression in between
            key = rng.choice(keys)
            first = apply_ev(key, src, rng.choice(others))
            events.append(first)
            events.extend(disturb() for _ in range(rng.randint(1, 2)))
            events.append(apply_ev(key, src, rng.choice(others), step=first['step'], choices=first['choices']))
        elif r < 0.8:
            # a move, then the opposite move with the same step on its result
            key = rng.choice(det) if det else rng.choice(keys)
            back = opposite_key(table, key)
            d1 = rng.choice(others)
            first = apply_ev(key, src, d1)
            events.append(first)
            at = len(events) - 1
            events.extend(disturb() for _ in range(rng.randint(0, 2)))
            if back is not None:
                events.append(apply_ev(back, d1, rng.choice([i for i in range(P) if i != src]), step=first['step'], undo_of=at))
        else:
            events.append(disturb())
    return members, events


def run_population(res, case, members, events, report=True):
    """execute an abstract population history on fresh real objects; apply the oracles; return
    (events as the model sees them, observations, final members)"""
    L = lib()
    ctrls = ctrls_of(case)
    names = sorted(ctrls)
    all_valid = valid_ids(ctrls)
    table = op_table(names)
    expr, cats = build_real(case)
    conf_set = expr.set_of_configurations()
    cc = expr.central_controller
    ops = cc.prepare_operators()
    ctrl_obj = {}
    for node, cat in cats:
        ctrl_obj.setdefault(node['ctrl'], cat.controlled_by)
    mk = lambda sid: L.Configuration([L.SelectionTuple(n, s) for n, s in id_cfg(sid).items()])  # noqa: E731
    pop = list(members)
    memo = {}
    calls = {}
    lean_events, obs = [], []
    done = []

    def bad(what, observed, expected, where=W_OPS):
        if report:
            res.violate(what, {**case, 'members': members, 'events': done + [ev]}, observed, expected, where=where)
        return True

    fake, restore = patched_random()
    try:
        for i, ev in enumerate(events):
            kind = ev['e']
            state_before = expr.current_configuration().get_string_id()
            if kind == 'apply':
                key, step, rec = ev['key'], ev['step'], ev['choices']
                given = pop[ev['src']]
                fake.record = rec
                fake.calls.clear()
                try:
                    new, ret = ops[key](mk(given), step)
                except Exception as e:  # noqa: BLE001
                    bad(f'operator {key!r} raises on the valid configuration {given!r} (expression configured as {state_before!r}): '
                        f'{type(e).__name__}: {e}', err_tag(e), 'a valid configuration')
                    obs.append({'err': err_tag(e)})
                    lean_events.append({k: ev[k] for k in ('e', 'key', 'step', 'choices', 'src', 'dst')})
                    break
                nid = new.get_string_id()
                lean_events.append({k: ev[k] for k in ('e', 'key', 'step', 'choices', 'src', 'dst')})
                o = {'id': nid, 'ret': int(ret)}
                calls[i] = given
                stop = False
                if nid not in all_valid:
                    stop = bad(f'operator {key!r} leaves the set of valid configurations', nid, 'one of the valid configurations')
                else:
                    d = table[key]
                    gcfg, ncfg = id_cfg(given), id_cfg(nid)
                    if d[0] == 'several':
                        drawn = set()
                        for population, k in fake.calls:
                            drawn.update(population[j % len(population)] for j in rec[:max(int(k), 0)])
                        kept = [n for n in names if n not in drawn and ncfg[n] != gcfg[n]]
                        if kept:
                            stop = bad(f'operator {key!r} given {given!r} (expression configured as {state_before!r}) changes controllers that '
                                       f'were not drawn: {kept}', nid, {n: gcfg[n] for n in kept})
                    else:
                        if d[0] == 'inc':
                            mv = [(d[1], step)]
                        elif d[0] == 'dec':
                            mv = [(d[1], -step)]
                        else:
                            mv = [(d[1], step if d[3][1] == 'E' else -step), (d[2], step if d[3][0] == 'N' else -step)]
                        want = cfg_id(moved(ctrls, gcfg, mv))
                        if nid != want:
                            stop = bad(f'operator {key!r} with step {step} given {given!r} while the expression is configured as '
                                       f'{state_before!r} does not return the neighbour of the configuration it is given', nid, want)
                    sig = (key, given, step, tuple(rec))
                    if not stop and sig in memo and memo[sig][:2] != (nid, int(ret)):
                        stop = bad(f'operator {key!r} with step {step} given {given!r} returns something else than the same call made earlier '
                                   f'(expression configured as {state_before!r} now, as {memo[sig][2]!r} then)', [nid, int(ret)], list(memo[sig][:2]))
                    memo.setdefault(sig, (nid, int(ret), state_before))
                    if not stop and 'undo_of' in ev and ev['undo_of'] in calls:
                        origin = calls[ev['undo_of']]
                        first = events[ev['undo_of']]
                        if nid != origin:
                            stop = bad(f'{first["key"]!r} then {key!r} with the same step {step} does not return to the starting configuration',
                                       nid, origin, where='increased_controller / decreased_controller / two_controllers')
                o['state'] = expr.current_configuration().get_string_id()
                obs.append(o)
                res.tally('pop:' + table[key][0])
                if stop:
                    break
                pop[ev['dst']] = nid
            elif kind == 'configure':
                c = mk(ev['id'])
                if ev['via'] == 'expression':
                    expr.configure_catalogs(c)
                elif ev['via'] == 'central':
                    cc.set_configuration(c)
                else:
                    cc.set_configuration_from_id(ev['id'])
                now = expr.current_configuration().get_string_id()
                want = id_cfg(ev['id'])
                shown = {node['name']: cat.selected_name() for node, cat in cats}
                wrong = sorted(node['name'] for node, cat in cats if cat.selected_name() != want[node['ctrl']])
                lean_events.append({'e': 'configure', 'id': ev['id']})
                obs.append({'state': now})
                res.tally('pop:configure')
                if now != ev['id'] or wrong:
                    bad(f'after a history of operator calls, configuring {ev["id"]!r} leaves catalogs {wrong} on another alternative '
                        f'(current configuration {now!r})', shown, want, where='Controller.set_index / Catalog.selected')
                    break
            elif kind == 'select':
                if ev['via'] == 'expression':
                    expr.select_expression(ev['name'], ev['index'])
                elif ev['via'] == 'central':
                    cc.set_controller(ev['name'], ev['index'])
                else:
                    ctrl_obj[ev['name']].set_index(ev['index'])
                now = id_cfg(expr.current_configuration().get_string_id())
                want = {**id_cfg(state_before), ev['name']: ctrls[ev['name']][ev['index']]}
                wrong = sorted(node['name'] for node, cat in cats if cat.selected_name() != want[node['ctrl']])
                lean_events.append({'e': 'select', 'name': ev['name'], 'index': ev['index']})
                obs.append({'state': cfg_id(now)})
                res.tally('pop:select')
                if now != want or wrong:
                    bad(f'selecting alternative {ev["index"]} of controller {ev["name"]!r} (from {state_before!r}) does not give the matching '
                        f'configuration, or catalogs {wrong} do not follow', cfg_id(now), cfg_id(want), where='Controller.set_index / Catalog.selected')
                    break
            elif kind == 'modify':
                c_ = ctrl_obj[ev['name']]
                before = c_.current_index
                ret = c_.modify_controller(step=ev['step'], circular=ev['circular'])
                size = len(ctrls[ev['name']])
                want = (before + ev['step']) % size if ev['circular'] else min(max(before + ev['step'], 0), size - 1)
                lean_events.append({k: ev[k] for k in ('e', 'name', 'step', 'circular')})
                obs.append({'ret': int(ret), 'state': expr.current_configuration().get_string_id()})
                res.tally('pop:modify')
                if c_.current_index != want:
                    bad(f'modify_controller({ev["step"]}, circular={ev["circular"]}) of controller {ev["name"]!r} from index {before} selects the '
                        f'wrong index', c_.current_index, want, where='Controller.modify_controller')
                    break
            elif kind == 'iterate':
                if conf_set is None:
                    continue
                visited = []
                for ee in expr:
                    visited.append(ee.current_configuration().get_string_id())
                    if ev['take'] is not None and len(visited) >= ev['take']:
                        break
                now = expr.current_configuration().get_string_id()
                lean_events.append({'e': 'configure', 'id': now})
                obs.append({'state': now})
                res.tally('pop:iterate')
                if (ev['take'] is None and sorted(visited) != sorted(all_valid)) or len(set(visited)) != len(visited) \
                        or not set(visited) <= all_valid or (visited and now != visited[-1]):
                    bad('iteration started after a history of operator calls does not visit every configuration exactly once',
                        sorted(visited), sorted(all_valid) if ev['take'] is None else f'{ev["take"]} different valid configurations',
                        where='SelectedExpressionsIterator')
                    break
            done.append(ev)
    finally:
        restore()
    return lean_events, obs, pop


def check_modify(ctx, res, n):
    L = lib()
    rng = ctx.rng
    reqs, obs = [], []
    for _ in range(n):
        size = rng.randint(1, 6)
        specs = rng.sample(SPEC_NAMES, size)
        cur = rng.randrange(size)
        step = rng.choice([0, 1, -1, size, -size, size + 1, -size - 1, rng.randint(-50, 50)])
        circular = rng.random() < 0.5
        c = L.Controller('m', specs)
        c.set_index(cur)
        try:
            ret = c.modify_controller(step=step, circular=circular)
            o = {'index': c.current_index, 'ret': int(ret)}
            if not 0 <= c.current_index < size:
                res.violate('modify_controller leaves the index outside the controller', {'specs': specs, 'cur': cur, 'step': step, 'circular': circular},
                            c.current_index, f'0..{size - 1}', where='Controller.modify_controller')
            want = (cur + step) % size if circular else min(max(cur + step, 0), size - 1)
            if c.current_index != want:
                res.violate('modify_controller selects the wrong index', {'specs': specs, 'cur': cur, 'step': step, 'circular': circular},
                            c.current_index, want, where='Controller.modify_controller')
        except Exception as e:  # noqa: BLE001
            o = {'err': err_tag(e)}
            res.violate('modify_controller raises', {'specs': specs, 'cur': cur, 'step': step, 'circular': circular}, o, 'an index',
                        where='Controller.modify_controller')
        res.count({'modify': [size, cur, step, circular]}, nontrivial=abs(step) >= size)
        res.tally('modify_circular' if circular else 'modify_clamped')
        reqs.append({'op': 'modify', 'name': 'm', 'specs': specs, 'cur': cur, 'step': step, 'circular': circular})
        obs.append(o)

    def cb(ans):
        for r, a, o in zip(reqs, ans, obs):
            if a != o:
                res.diverge('Controller.modify_controller', r, a, o)

    ctx.batch.add_many(reqs, cb)


def check_errors(ctx, res, n):
    """malformed stream: strings, duplicate / unknown / incomplete configurations, bad operator arguments"""
    L = lib()
    rng = ctx.rng
    reqs, obs = [], []
    alphabet = ['a', 'b', 'c1', ':', ';', ':', ';', '', 'k', ' ']
    for _ in range(n):
        s = ''.join(rng.choice(alphabet) for _ in range(rng.randint(0, 7)))
        try:
            c = L.Configuration.from_string(s)
            o = {'id': c.get_string_id(), 'sels': [[t.controller, t.selection] for t in c.selections]}
        except Exception as e:  # noqa: BLE001
            o = {'err': err_tag(e)}
        reqs.append({'op': 'fromstring', 's': s})
        obs.append(o)
        res.count({'from_string': s}, nontrivial=False)
        res.tally('malformed_from_string')
        sels = [[rng.choice(['a', 'b', 'b10', 'b2']), rng.choice(['x', 'y'])] for _ in range(rng.randint(0, 4))]
        try:
            c = L.Configuration([L.SelectionTuple(a, b) for a, b in sels])
            o = {'id': c.get_string_id(), 'sels': [[t.controller, t.selection] for t in c.selections]}
        except Exception as e:  # noqa: BLE001
            o = {'err': err_tag(e)}
        reqs.append({'op': 'mkconfig', 'sels': sels})
        obs.append(o)
        res.tally('malformed_configuration')

    # merging configurations (first selection of a controller wins), get_selection
    for _ in range(max(3, n // 4)):
        cfgs = []
        for _k in range(rng.randint(0, 4)):
            if rng.random() < 0.15:
                cfgs.append(None)
                continue
            names_ = rng.sample(['a', 'b', 'b10', 'b2', 'Z'], rng.randint(0, 4))
            cfgs.append([[c_, rng.choice(['x', 'y', 'z'])] for c_ in names_])
        query = rng.choice(['a', 'b', 'b10', 'Z', 'nope'])
        try:
            objs = tuple(L.Configuration() if c_ is None else L.Configuration([L.SelectionTuple(a, b) for a, b in c_]) for c_ in cfgs)
            m = L.Configuration.from_tuple_of_configurations(objs)
            o = {'sels': [[t.controller, t.selection] for t in m.selections], 'id': m.get_string_id(), 'selection': m.get_selection(query)}
            # oracle: every controller met keeps its first selection
            first = {}
            for c_ in cfgs:
                for a, b in (c_ or []):
                    first.setdefault(a, b)
            if dict(o['sels']) != first or o['selection'] != first.get(query):
                res.violate('from_tuple_of_configurations does not keep the first selection of every controller', {'configs': cfgs, 'query': query},
                            o, first, where='Configuration.from_tuple_of_configurations')
        except Exception as e:  # noqa: BLE001
            o = {'err': err_tag(e)}
        reqs.append({'op': 'fromtuple', 'configs': cfgs, 'query': query})
        obs.append(o)
        res.count({'from_tuple': cfgs}, nontrivial=len([c_ for c_ in cfgs if c_]) >= 2)
        res.tally('from_tuple_of_configurations')

    # configurations and operator arguments a fixed expression must refuse
    case = {
        'expr': {'k': 'bin', 'op': 'plus',
                 'a': {'k': 'cat', 'name': 'c1', 'ctrl': 'c1', 'own': True, 'ms': [['p', {'k': 'num', 'v': 1}], ['q', {'k': 'num', 'v': 2}]]},
                 'b': {'k': 'cat', 'name': 'c2', 'ctrl': 'K', 'own': False,
                       'ms': [['u', {'k': 'var', 'n': 'x'}], ['v', {'k': 'beta', 'n': 'b1'}], ['w', {'k': 'num', 'v': 0}]]}},
        'betas': {b: 1 for b in BETAS}, 'rows': [{v: 1 for v in VARS}],
    }
    lexpr = lean_expr(case['expr'])
    bad_cfgs = [[['c1', 'p']], [['c1', 'p'], ['K', 'zz']], [['c1', 'p'], ['K', 'u'], ['zz', 'u']], [['zz', 'u'], ['K', 'u']], [],
                [['K', 'w'], ['c1', 'q']]]
    for sels in bad_cfgs:
        expr, _ = build_real(case)
        try:
            expr.configure_catalogs(L.Configuration([L.SelectionTuple(a, b) for a, b in sels]))
            o = {'id': expr.current_configuration().get_string_id()}
        except Exception as e:  # noqa: BLE001
            o = {'err': err_tag(e)}
        reqs.append({'op': 'select', 'expr': lexpr, 'sels': sels, 'betas': [], 'rows': []})
        obs.append(('select', o))
        res.tally('malformed_set_configuration')
    for name, index in [('K', 2), ('K', 3), ('K', -1), ('zz', 0), ('c1', 1)]:
        expr, _ = build_real(case)
        try:
            expr.select_expression(name, index)
            o = {'id': expr.current_configuration().get_string_id()}
        except Exception as e:  # noqa: BLE001
            o = {'err': err_tag(e)}
        reqs.append({'op': 'setcontroller', 'expr': lexpr, 'name': name, 'index': index})
        obs.append(('setc', o))
        res.tally('select_expression')
    direct = [(['increase', 'zz'], 1), (['decrease', 'zz'], 1), (['pair', 'K', 'K', 'NE'], 2), (['pair', 'K', 'c1', 'XX'], 1),
              (['pair', 'zz', 'c1', 'SW'], 1), (['pair', 'c1', 'zz', 'SW'], 1), (['pair', 'c1', 'K', 'SE'], -5), (['several', True], -3),
              (['several', False], 0), (['several', False], 2)]
    fake, restore = patched_random()
    try:
        for opj, step in direct:
            expr, _ = build_real(case)
            expr.set_central_controller()
            cc = expr.central_controller
            cur = L.Configuration.from_string('K:v;c1:q')
            fake.record = [1, 1, 0, 5]
            try:
                if opj[0] == 'increase':
                    new, ret = cc.increased_controller(opj[1], cur, step)
                elif opj[0] == 'decrease':
                    new, ret = cc.decreased_controller(opj[1], cur, step)
                elif opj[0] == 'pair':
                    new, ret = cc.two_controllers(opj[1], opj[2], opj[3], cur, step)
                else:
                    new, ret = cc.modify_random_controllers(opj[1], cur, step)
                o = [{'id': new.get_string_id(), 'ret': int(ret)}]
            except Exception as e:  # noqa: BLE001
                o = [{'err': err_tag(e)}]
            reqs.append({'op': 'history', 'expr': lexpr, 'start': 'K:v;c1:q', 'steps': [{'opj': opj, 'step': step, 'choices': [1, 1, 0, 5]}]})
            obs.append(('hist', o))
            res.tally('direct_operator_call')
    finally:
        restore()

    def cb(ans):
        for r, a, o in zip(reqs, ans, obs):
            if isinstance(o, tuple):
                kind, o = o
                if kind == 'select':
                    a = {'err': a['err']} if 'err' in a else {'id': a.get('current', {}).get('id')}
                elif kind == 'setc':
                    a = {'err': a['err']} if 'err' in a else {'id': a.get('id')}
                else:
                    a = [{k: v for k, v in t.items() if k != 'valid'} for t in a.get('trace', [])] if 'trace' in a else [a]
            if a != o:
                res.diverge('refusal of a malformed input (error kind) or its result', r, a, o)

    ctx.batch.add_many(reqs, cb)


# --------------------------------------------------------------------------- helper generators of catalog.py


def seg_reference(beta, kept, B, ex):
    """documented closed form of a segmented parameter: beta_ref + sum over the kept segmentations and
    their non-reference categories of beta_<category> * (variable == value)"""
    terms = [B['beta'](beta)]
    for var, mapping, ref in kept:
        for value, cat in mapping:
            if cat != ref:
                terms.append(B['beta'](f'{beta}_{cat}') * (ex.Variable(var) == ex.Numeric(value)))
    return ex.bioMultSum(terms)


def check_helpers(ctx, res, n):
    for _ in range(n):
        case = {}
        try:
            _check_helper(ctx, res, case)
        except Exception as e:  # noqa: BLE001
            res.violate(f'the real code raises {type(e).__name__}: {str(e)[:200]} on a valid helper specification', dict(case), core.exc_kind(e),
                        'no error', where='segmentation_catalogs / generic_alt_specific_catalogs')


def _check_helper(ctx, res, case_out):
    import biogeme.expressions as ex
    from biogeme.catalog import segmentation_catalogs, generic_alt_specific_catalogs
    from biogeme.segmentation import DiscreteSegmentationTuple

    rng = ctx.rng
    for _ in range(1):
        nseg = rng.randint(1, 3)
        seg_vars = rng.sample(VARS, nseg)
        segs = []
        all_betas = {}
        for v in seg_vars:
            ncat = rng.randint(2, 3)
            cats_ = rng.sample(['low', 'mid', 'high', 'c10', 'c2'], ncat)
            values = rng.sample([-1, 0, 1, 2, 3], ncat)
            mapping = list(zip(values, [f'{v}{c}' for c in cats_]))
            ref = rng.choice([None, mapping[rng.randrange(ncat)][1]])
            segs.append((v, mapping, ref))
        betas = rng.sample(['b1', 'b10', 'b2'], rng.randint(1, 2))
        maxn = rng.randint(0, nseg + 1)
        alts = rng.sample(['train', 'car', 'sm'], rng.randint(2, 3))
        altspec = rng.random() < 0.5
        vals = {}
        for b in betas:
            names = [b] + ([f'{b}_{a}' for a in alts] if altspec else [])
            for nme in names:
                vals[nme] = rng.randint(-3, 4)
                for v, mapping, _ref in segs:
                    for _val, cat in mapping:
                        vals[f'{nme}_{cat}'] = rng.randint(-3, 4)
        case = {'shape': 'helper', 'generic': 'G', 'betas': betas, 'segs': [[v, [list(m) for m in mp], r] for v, mp, r in segs], 'max': maxn,
                'alts': alts if altspec else None, 'values': vals, 'rows': [{v: rng.choice([-1, 0, 1, 2, 3]) for v in VARS} for _ in range(4)]}
        case_out.update(case)
        # every Beta created inside the helpers copies the initial value of the generic parameter it comes from; the values of the
        # derived parameters are therefore passed at evaluation time
        full = {'betas': vals, 'rows': case['rows']}
        B = {'beta': lambda nme: ex.Beta(nme, 0, None, None, 0)}
        tuples = tuple(DiscreteSegmentationTuple(variable=v, mapping=dict(mp), reference=r) for v, mp, r in segs)
        refs = [r if r is not None else mp[0][1] for _v, mp, r in segs]
        blist = [ex.Beta(b, 0, None, None, 0) for b in betas]
        combos = [c for c in itertools.product([False, True], repeat=nseg) if sum(c) <= maxn]
        combo_name = lambda c: 'no_seg' if sum(c) == 0 else '-'.join(v for keep, v in zip(c, seg_vars) if keep)  # noqa: E731
        seg_names = [combo_name(c) for c in combos]
        db_ = database(full)
        try:
            if altspec:
                dicts = generic_alt_specific_catalogs('G', blist, tuple(alts), potential_segmentations=tuples, maximum_number=maxn)
                expr = None
                k = 1
                for d in dicts:
                    for a in alts:
                        term = d[a] * k
                        expr = term if expr is None else expr + term
                        k += 1
                ctrl_specs = {'G': seg_names, 'G_gen_altspec': ['generic', 'altspec']}
            else:
                cats_ = segmentation_catalogs('G', blist, tuples, maxn)
                expr = None
                for k, c in enumerate(cats_, 1):
                    term = c * k
                    expr = term if expr is None else expr + term
                ctrl_specs = {'G': seg_names}
        except Exception as e:  # noqa: BLE001
            res.violate(f'helper raises on a valid specification: {type(e).__name__}: {e}', case, err_tag(e), 'catalogs',
                        where='segmentation_catalogs / generic_alt_specific_catalogs')
            continue
        res.count(case, nontrivial=len(combos) > 1)
        res.tally('helper_altspec' if altspec else 'helper_segmentation')
        # the one-call entry point biogeme.segmentation.segmented_beta (all segmentations kept, and a random subset of them)
        from biogeme.segmentation import segmented_beta

        for keep in ([True] * nseg, [rng.random() < 0.5 for _ in range(nseg)]):
            kept_all = [(v, mp, refs[i]) for i, (v, mp, _r) in enumerate(segs) if keep[i]]
            one = segmented_beta(ex.Beta(betas[0], 0, None, None, 0), tuple(t for t, k_ in zip(tuples, keep) if k_))
            ref_form = seg_reference(betas[0], kept_all, B, ex)
            one.prepare(db_, 0)
            ref_form.prepare(db_, 0)
            s_one, s_ref = decode_signature(one.get_signature()), decode_signature(ref_form.get_signature())
            res.tally('helper_segmented_beta')
            if s_one != s_ref:
                res.violate('segmented_beta(...) is not the documented closed form of a segmented parameter', {**case, 'kept': keep}, s_one, s_ref,
                            where='segmentation_catalogs / generic_alt_specific_catalogs')
        expected = valid_ids(ctrl_specs)
        got = expr.set_of_configurations()
        got_ids = None if got is None else sorted(c.get_string_id() for c in got)
        if got_ids != sorted(expected) or expr.number_of_multiple_expressions() != len(expected):
            res.violate('helper catalogs do not span one configuration per combination', case, got_ids, sorted(expected),
                        where='segmentation_catalogs / generic_alt_specific_catalogs')
            continue
        for c in sorted(got, key=lambda c: c.get_string_id()):
            cfg = {s.controller: s.selection for s in c.selections}
            expr.configure_catalogs(c)
            kept = [(v, mp, refs[i]) for i, (v, mp, _r) in enumerate(segs) if combos[seg_names.index(cfg['G'])][i]]
            hw = None
            k = 1
            for b in betas:
                for a in (alts if altspec else [None]):
                    if altspec and cfg['G_gen_altspec'] == 'altspec':
                        pname = f'{b}_{a}'
                    else:
                        pname = b
                    term = seg_reference(pname, kept, B, ex) * k
                    hw = term if hw is None else hw + term
                    k += 1
            used = {n: float(v) for n, v in vals.items()}
            free_real = set(expr.set_of_elementary_expression(ex.TypeOfElementaryExpression.FREE_BETA))
            free_hand = set(hw.set_of_elementary_expression(ex.TypeOfElementaryExpression.FREE_BETA))
            if free_real != free_hand:
                res.violate('parameters of the configured helper formula differ from the documented closed form', {**case, 'config': c.get_string_id()},
                            sorted(free_real), sorted(free_hand), where='segmentation_catalogs / generic_alt_specific_catalogs')
                continue
            bv = {n: used[n] for n in free_real}
            expr.prepare(db_, 0)
            hw.prepare(db_, 0)
            sig_r, sig_h = decode_signature(expr.get_signature()), decode_signature(hw.get_signature())
            expr.set_id_manager(None)
            if sig_r != sig_h:
                res.violate('signature of the configured helper formula differs from the documented closed form', {**case, 'config': c.get_string_id()},
                            sig_r, sig_h, where='segmentation_catalogs / generic_alt_specific_catalogs')
                continue
            v_real = [float(v) for v in expr.get_value_c(database=db_, betas=bv, prepare_ids=True)]
            v_hand = [float(v) for v in hw.get_value_c(database=db_, betas=bv, prepare_ids=True)]
            if v_real != v_hand:
                res.violate('configured helper formula does not evaluate like the documented closed form', {**case, 'config': c.get_string_id()},
                            v_real, v_hand, where='segmentation_catalogs / generic_alt_specific_catalogs')
            res.tally('helper_configurations_evaluated')




# --------------------------------------------------------------------------- iteration over chosen configurations
#
# `SelectedExpressionsIterator(expression, configurations)` is what `BIOGEME.estimate_catalog` loops on, with all
# configurations or with the set the caller selected.  Oracle: started in any state, over any set of valid
# configurations (each written with its choices listed in any order), it visits exactly the chosen ones, each
# once, and at every visit all catalogs show the alternatives of the configuration visited.

W_ITER = 'SelectedExpressionsIterator'


def check_subset_iteration(ctx, res, case, lexpr, ctrls, all_valid, model):
    from biogeme.expressions.catalog_iterator import SelectedExpressionsIterator

    L = lib()
    rng = ctx.rng
    names = sorted(ctrls)
    expr, cats = build_real(case)
    start = {n: rng.choice(ctrls[n]) for n in names}
    expr.configure_catalogs(L.Configuration.from_dict(start))
    chosen_ids = rng.sample(sorted(all_valid), rng.randint(1, min(4, len(all_valid))))
    chosen = set()
    for sid in chosen_ids:
        items = list(id_cfg(sid).items())
        rng.shuffle(items)
        chosen.add(L.Configuration([L.SelectionTuple(a, b) for a, b in items]))
    order = [c.get_string_id() for c in chosen]
    visited = []
    pcase = {**case, 'start': cfg_id(start), 'chosen': chosen_ids}
    for ee in SelectedExpressionsIterator(expr, chosen):
        now = ee.current_configuration().get_string_id()
        visited.append(now)
        cfg = id_cfg(now)
        wrong = sorted(node['name'] for node, cat in cats if cat.selected_name() != cfg.get(node['ctrl']))
        if wrong:
            res.violate(f'while iterating over chosen configurations, at {now!r} catalogs {wrong} show another alternative', pcase,
                        {node['name']: cat.selected_name() for node, cat in cats}, cfg, where=W_ITER)
            break
    res.tally('iteration_over_chosen_configurations')
    if sorted(visited) != sorted(chosen_ids):
        res.violate('iteration over a chosen set of configurations does not visit each of them exactly once', pcase, visited, sorted(chosen_ids),
                    where=W_ITER)
    if model:
        def cb(a):
            if a.get('visited') != visited or visited != order:
                res.diverge('configurations visited by the iterator over chosen configurations', pcase, a, visited, where=W_ITER)

        ctx.batch.add({'op': 'itersubset', 'expr': lexpr, 'chosen': order, 'start': cfg_id(start)}, cb)


# --------------------------------------------------------------------------- rewriting through the catalogs
#
# rename_elementary / fix_betas / change_init_values of a formula with catalogs are handed by every catalog to
# its selected member.  Oracle: applied to the configured formula and to the formula written out by hand for
# the same configuration, they give the same formula (decoded signature, sets of parameters and variables) with
# the same value, which is the integer value computed by the harness with the rewritten parameters.  Model:
# Cat.Expr.mapSel (theorems delegated_rewrite_*): the formula selected afterwards under the same and under another
# configuration (members that were not selected keep their leaves).

W_REWRITE = 'MultipleExpression.rename_elementary / fix_betas / change_init_values'


def database_renamed(case):
    import pandas as pd
    import biogeme.database as db

    cols = {}
    for v in VARS:
        for pre in ('', 'p_'):
            for suf in ('', '_s'):
                cols[f'{pre}{v}{suf}'] = [float(r[v]) for r in case['rows']]
    return db.Database('c16r', pd.DataFrame(cols))


def check_rewrite(ctx, res, case, lexpr, ctrls, model):
    import biogeme.expressions as ex

    L = lib()
    rng = ctx.rng
    T = ex.TypeOfElementaryExpression
    names = sorted(ctrls)
    cfg = {n: rng.choice(ctrls[n]) for n in names}
    cfg2 = {n: rng.choice(ctrls[n]) for n in names}
    kind = rng.choice(['rename', 'rename', 'fix', 'fix', 'init'])
    pre, suf = rng.choice([None, 'p_']), rng.choice([None, '_s'])
    if kind == 'rename':
        targets = rng.sample(BETAS + VARS, rng.randint(1, 4))
        values = {}
    else:
        targets = rng.sample(BETAS, rng.randint(1, 3))
        values = {b: float(rng.randint(-3, 4)) for b in targets}
    op = {'kind': kind, 'names': targets, 'values': values, 'pre': pre if kind != 'init' else None, 'suf': suf if kind != 'init' else None}
    pcase = {**case, 'config': cfg_id(cfg), 'then': cfg_id(cfg2), 'rewrite': op}

    def apply(e):
        if kind == 'rename':
            e.rename_elementary(targets, prefix=pre, suffix=suf)
        elif kind == 'fix':
            e.fix_betas(values, prefix=pre, suffix=suf)
        else:
            e.change_init_values(values)

    def describe(e, db_):
        e.prepare(db_, 0)
        sig = decode_signature(e.get_signature())
        e.set_id_manager(None)
        return {'signature': sig, 'free': sorted(e.set_of_elementary_expression(T.FREE_BETA)),
                'fixed': sorted(e.set_of_elementary_expression(T.FIXED_BETA)), 'variables': sorted(e.set_of_elementary_expression(T.VARIABLE))}

    expr, _ = build_real(case)
    expr.configure_catalogs(L.Configuration.from_dict(cfg))
    hw = hand_written(case['expr'], cfg, builders(case))
    apply(expr)
    apply(hw)
    db2 = database_renamed(case)
    d_real, d_hand = describe(expr, db2), describe(hw, db2)
    res.tally('rewrite:' + kind)
    if d_real != d_hand:
        res.violate(f'{kind} applied through the catalogs does not give the rewritten hand-written formula', pcase, d_real, d_hand, where=W_REWRITE)
        return
    betas2 = {**case['betas'], **{k: int(v) for k, v in values.items()}}
    v_int = [float(hand_int(case['expr'], cfg, betas2, r)) for r in case['rows']]
    v_real = [float(v) for v in expr.get_value_c(database=db2, prepare_ids=True)]
    expr.set_id_manager(None)
    if v_real != v_int:
        res.violate(f'after {kind} through the catalogs the configured formula does not evaluate like the rewritten hand-written formula', pcase,
                    v_real, v_int, where=W_REWRITE)
        return
    if kind == 'init' or not model:
        return
    # another configuration afterwards: the members that were not selected kept their leaves
    expr.configure_catalogs(L.Configuration.from_dict(cfg2))
    try:
        expr.prepare(db2, 0)
    except Exception as e:  # noqa: BLE001
        if core.exc_kind(e) != 'BiogemeError' or 'more than once' not in str(e):
            raise
        # the rewriting is local to the members that were selected: a parameter fixed there and still free in a member selected now
        # carries one name with two statuses, which the id manager refuses; nothing of the property is concerned
        res.tally('rewrite:other configuration mixes rewritten and original parameters')
        return
    sig2 = decode_signature(expr.get_signature())
    expr.set_id_manager(None)

    def cb(a):
        if a.get('selected') != d_real['signature'] or a.get('hand_rewritten') != d_real['signature'] or not a.get('same_space'):
            res.diverge(f'formula selected after {kind} through the catalogs', pcase, a, d_real['signature'], where=W_REWRITE)
        elif a.get('selected_other') != sig2:
            res.diverge(f'formula selected under another configuration after {kind} through the catalogs', pcase, a.get('selected_other'), sig2,
                        where=W_REWRITE)

    ctx.batch.add({'op': 'rewrite', 'kind': 'rename' if kind == 'rename' else 'fix', 'expr': lexpr, 'names': targets, 'pre': pre, 'suf': suf,
                   'sels': [[a, b] for a, b in cfg.items()], 'sels2': [[a, b] for a, b in cfg2.items()]}, cb)

# --------------------------------------------------------------------------- construction of catalogs handed a controller
#
# `Catalog(name, members, controlled_by=obj)` / `Catalog.from_dict(...)`: the selection is positional
# (`named_expressions[controlled_by.current_index]`), so a catalog handed a controller must list the names of
# the controller in the controller's order.  The stream declares Controller objects first, then writes catalogs
# whose member names are the controller's names or a variant (another order, a name replaced, fewer, more,
# another case).  Oracle from the property statement, without the model: either the library refuses the formula
# (BiogemeError), or for every configuration every catalog shows the member NAMED by its controller and the
# formula evaluates like the one written out by hand with the members picked by name.  Model: Cat.construct.

VARIANTS = ['same', 'same', 'same', 'permuted', 'reversed', 'renamed', 'shorter', 'longer', 'case', 'swapped_ends']
W_BUILD = 'Catalog.__init__: names of the catalog against the names of the controller it is handed'


def variant_names(rng, specs, how):
    specs = list(specs)
    if how == 'permuted' and len(specs) >= 2:
        for _ in range(20):
            out = list(specs)
            rng.shuffle(out)
            if out != specs:
                return out
    if how == 'reversed' and len(specs) >= 2:
        return specs[::-1]
    if how == 'swapped_ends' and len(specs) >= 3:
        return [specs[-1]] + specs[1:-1] + [specs[0]]
    if how == 'renamed':
        out = list(specs)
        out[rng.randrange(len(out))] = rng.choice([n for n in SPEC_NAMES + ['other'] if n not in specs])
        return out
    if how == 'shorter' and len(specs) >= 2:
        return specs[:-1] if rng.random() < 0.5 else specs[1:]
    if how == 'longer':
        extra = rng.choice([n for n in SPEC_NAMES + ['other'] if n not in specs])
        return specs + [extra] if rng.random() < 0.5 else [extra] + specs
    if how == 'case':
        out = [n.swapcase() for n in specs]
        if out != specs and len(set(out)) == len(out):
            return out
    return specs


def gen_build_case(rng):
    nd = rng.choice([1, 1, 2])
    decl = {}
    for cn in rng.sample(CTRL_NAMES, nd):
        decl[cn] = rng.sample([n for n in SPEC_NAMES if n], rng.choice([1, 2, 2, 3, 3, 4]))
    cat_names = rng.sample(CAT_NAMES, rng.randint(2, 4))
    # one mismatching catalog at most in two thirds of the cases (the others: every catalog matches)
    bad_at = rng.randrange(len(cat_names)) if rng.random() < 0.67 else None
    leaf = lambda: rng.choice([{'k': 'num', 'v': rng.randint(-4, 6)}, {'k': 'beta', 'n': rng.choice(BETAS)},  # noqa: E731
                               {'k': 'bin', 'op': 'times', 'a': {'k': 'beta', 'n': rng.choice(BETAS)}, 'b': {'k': 'var', 'n': rng.choice(VARS)}}])
    nodes = []
    for i, name in enumerate(cat_names):
        if i > 0 and rng.random() < 0.2:
            size = rng.choice([1, 2, 3])
            names = rng.sample(SPEC_NAMES, size)
            node = {'k': 'cat', 'name': name, 'ctrl': name, 'own': True, 'ms': [[n, leaf()] for n in names]}
        else:
            cn = rng.choice(sorted(decl)) if i else sorted(decl)[0]
            how = rng.choice([v for v in VARIANTS if v != 'same']) if i == bad_at else 'same'
            names = variant_names(rng, decl[cn], how)
            node = {'k': 'cat', 'name': name, 'ctrl': cn, 'own': False, 'ms': [[n, leaf()] for n in names]}
        if len(set(m[0] for m in node['ms'])) == len(node['ms']) and rng.random() < 0.4:
            node['via'] = 'from_dict'
        nodes.append(node)
    malformed = None
    if rng.random() < 0.12:
        # arguments the constructors refuse whatever the controller: reserved character in the catalog name, no member
        node = rng.choice(nodes)
        malformed = rng.choice(['name', 'empty'])
        if malformed == 'name':
            newname = node['name'] + rng.choice([';', ':']) + 'q'
            if node['own']:
                node['ctrl'] = newname
            node['name'] = newname
        else:
            node['ms'] = []
            node.pop('via', None) if rng.random() < 0.5 else None
    # every declared controller governs at least one catalog with its own names
    used = {n['ctrl'] for n in nodes}
    for cn in sorted(decl):
        if cn not in used:
            nm_ = next(n for n in CAT_NAMES if n not in cat_names)
            cat_names.append(nm_)
            nodes.append({'k': 'cat', 'name': nm_, 'ctrl': cn, 'own': False, 'ms': [[n, leaf()] for n in decl[cn]]})
    # a mismatching catalog may sit inside a member of another catalog (selected or not)
    if len(nodes) >= 3 and nodes[0]['ms'] and rng.random() < 0.4:
        inner = nodes.pop()
        host = nodes[0]
        j = rng.randrange(len(host['ms']))
        host['ms'][j][1] = {'k': 'bin', 'op': 'plus', 'a': host['ms'][j][1], 'b': inner}
    e = nodes[0]
    for n in nodes[1:]:
        e = {'k': 'bin', 'op': rng.choice(['plus', 'minus', 'times']), 'a': e, 'b': n}
    e = {'k': 'bin', 'op': 'plus', 'a': e, 'b': {'k': 'num', 'v': rng.randint(1, 3)}}
    case = {'shape': 'construct', 'expr': e, 'decl': decl, 'betas': {b: rng.randint(-3, 4) for b in BETAS},
            'rows': [{v: rng.randint(-3, 5) for v in VARS} for _ in range(2)]}
    if malformed:
        case['malformed'] = malformed
    return case


def mismatches(case):
    """catalogs handed a declared controller whose list of names is not the list of the controller"""
    decl = case.get('decl') or {}
    return [n['name'] for n in all_cat_nodes(case['expr'], [])
            if not n.get('own', n['ctrl'] == n['name']) and n['ctrl'] in decl and [m[0] for m in n['ms']] != list(decl[n['ctrl']])]


def oracle_construct(res, case, report=True):
    """build the formula through the public constructors; if it is accepted every catalog must follow its
    controller BY NAME in every configuration.  Returns ('refused', tag) | ('accepted', violation or None)"""
    L = lib()
    try:
        expr, cats = build_real(case)
    except Exception as e:  # noqa: BLE001
        if core.exc_kind(e) == 'BiogemeError':
            return 'refused', err_tag(e)
        if report:
            res.violate(f'the constructors raise {type(e).__name__}: {e}', case, core.exc_kind(e), 'a catalog or a refusal', where=W_BUILD)
        return 'refused', core.exc_kind(e)
    ctrls = ctrls_of(case)
    names = sorted(ctrls)
    db_ = database(case)
    why = None
    combos = list(itertools.product(*[ctrls[n] for n in names]))[:60]
    for combo in combos:
        cfg = dict(zip(names, combo))
        sid = cfg_id(cfg)
        try:
            expr.configure_catalogs(L.Configuration.from_dict(cfg))
        except Exception as e:  # noqa: BLE001
            why = (f'the accepted formula refuses the configuration {sid!r}: {e}', err_tag(e), 'configured')
            break
        shown = {node['name']: cat.selected_name() for node, cat in cats}
        wrong = sorted(node['name'] for node, cat in cats if cat.selected_name() != cfg[node['ctrl']])
        if wrong:
            why = (f'configuration {sid!r}: catalogs {wrong} do not take the alternative selected for their controller', shown,
                   {node['name']: cfg[node['ctrl']] for node, _ in cats})
            break
        try:
            want = [float(hand_int(case['expr'], cfg, case['betas'], r)) for r in case['rows']]
        except KeyError as e:
            why = (f'configuration {sid!r}: a catalog does not offer the alternative {e} of its controller', shown, 'the matching alternative')
            break
        expr.set_id_manager(None)
        got = [float(v) for v in expr.get_value_c(database=db_, prepare_ids=True)]
        expr.set_id_manager(None)
        if got != want:
            why = (f'configuration {sid!r}: the configured formula does not evaluate like the formula written out by hand', got, want)
            break
    if why and report:
        res.violate(why[0], {**case, 'config': sid}, why[1], why[2], where=W_BUILD)
    return 'accepted', why


def check_construction(ctx, res, n):
    reqs, obs = [], []
    for i in range(n):
        case = gen_build_case(ctx.rng)
        bad = mismatches(case) or case.get('malformed')
        res.count(case, nontrivial=True)
        res.tally('construct:' + ('malformed ' + case['malformed'] if case.get('malformed') else 'mismatch' if bad else 'all catalogs match'))
        for node in all_cat_nodes(case['expr'], []):
            res.tally('construct:via ' + node.get('via', 'list'))
        outcome, detail = oracle_construct(res, case)
        if outcome == 'accepted' and not bad and not detail and i % 3 == 0:
            # an accepted formula written with declared controllers also goes through the whole battery
            check_case(ctx, res, {k: case[k] for k in ('expr', 'decl', 'betas', 'rows')}, n_configs=6, n_hist=1)
        reqs.append({'op': 'construct', 'expr': lean_expr(case['expr']), 'decl': [[k, v] for k, v in case['decl'].items()]})
        obs.append((case, outcome, detail))

    def cb(ans):
        for a, (case, outcome, detail) in zip(ans, obs):
            m = ('refused', a['err']) if 'err' in a else ('accepted', None)
            r = (outcome, detail if outcome == 'refused' else None)
            if m != r:
                res.diverge('construction of a formula with declared controllers (accepted / refused, error kind)', case, m, r, where=W_BUILD)

    ctx.batch.add_many(reqs, cb)


# --------------------------------------------------------------------------- BIOGEME.estimate_catalog
#
# The consumer of the iteration: one estimation per configuration (all of them, or the set the caller selected),
# results keyed by the identifier.  Oracle: the keys are exactly the identifiers of the configurations asked for;
# the model estimated under an identifier has the parameters and the final log likelihood of the formula written
# out by hand for that configuration, estimated by the same call on the same data.  Runs in a fresh interpreter.

W_EST = 'BIOGEME.estimate_catalog / SelectedExpressionsIterator'


def gen_est_case(rng):
    """y explained by asc*x + catalogs of smooth members; 2-12 configurations, at least one free parameter everywhere"""
    decl = {}
    if rng.random() < 0.6:
        decl[rng.choice(CTRL_NAMES)] = rng.sample([n for n in SPEC_NAMES if n], rng.choice([2, 2, 3]))
    names = rng.sample(CAT_NAMES, rng.randint(1, 3))

    def member(depth):
        b, b2, v = rng.choice(BETAS[:3]), rng.choice(BETAS[:3]), rng.choice(['x', 'z'])
        lin = {'k': 'bin', 'op': 'times', 'a': {'k': 'beta', 'n': b}, 'b': {'k': 'var', 'n': v}}
        r = rng.random()
        if r < 0.4:
            return lin
        if r < 0.65:
            return {'k': 'bin', 'op': 'plus', 'a': lin, 'b': {'k': 'beta', 'n': b2}}
        if r < 0.8:
            return {'k': 'beta', 'n': b}
        if r < 0.9 or depth <= 0 or not spare:
            return {'k': 'num', 'v': rng.randint(-2, 2)}
        nm_ = spare.pop()
        return {'k': 'bin', 'op': 'plus', 'a': lin, 'b': cat(nm_, depth - 1)}

    def cat(name, depth):
        if decl and rng.random() < 0.6:
            cn = sorted(decl)[0]
            specs, own = decl[cn], False
        else:
            cn, specs, own = name, rng.sample(SPEC_NAMES, rng.choice([1, 2, 2, 3])), True
        node = {'k': 'cat', 'name': name, 'ctrl': cn, 'own': own, 'ms': [[s_, member(depth)] for s_ in specs]}
        if rng.random() < 0.3:
            node['via'] = 'from_dict'
        return node

    spare = [n for n in CAT_NAMES if n not in names][:2]
    e = {'k': 'bin', 'op': 'times', 'a': {'k': 'beta', 'n': 'asc'}, 'b': {'k': 'var', 'n': 'x'}}
    for nme in names:
        e = {'k': 'bin', 'op': 'plus', 'a': e, 'b': cat(nme, 1)}
    case = {'shape': 'estimate', 'expr': e, 'betas': {b: 0 for b in BETAS},
            'rows': [{'x': rng.randint(-3, 5), 'y': rng.randint(-6, 9), 'z': rng.randint(0, 2)} for _ in range(8)]}
    used = {n['ctrl'] for n in all_cat_nodes(e, []) if not n['own']}
    if used:
        case['decl'] = {k: v for k, v in decl.items() if k in used}
    return case


def oracle_estimate(res, case):
    import biogeme.biogeme as bio
    import biogeme.expressions as ex

    L = lib()
    ctrls = ctrls_of(case)
    all_valid = sorted(valid_ids(ctrls))
    db_ = database(case)
    B = builders(case)

    def loglike(m):
        return -((ex.Variable('y') - m) ** 2)

    def summary(r):
        return {'parameters': list(r.data.betaNames), 'loglike': float(r.data.logLike)}

    def same(a, b):
        return a['parameters'] == b['parameters'] and core.close(a['loglike'], b['loglike'], rel=1e-5, abs_=1e-7)

    expr, _ = build_real(case)
    b = bio.BIOGEME(db_, loglike(expr))
    b.modelName, b.generate_html, b.generate_pickle = 'c16cat', False, False
    got = {k: summary(v) for k, v in b.estimate_catalog(quick_estimate=True).items()}
    if sorted(got) != all_valid:
        res.violate('estimate_catalog does not return one estimated model per configuration', case, sorted(got), all_valid, where=W_EST)
        return
    hand = {}
    for sid in all_valid:
        bh = bio.BIOGEME(db_, loglike(hand_written(case['expr'], id_cfg(sid), B)))
        bh.modelName, bh.generate_html, bh.generate_pickle = 'c16hand', False, False
        hand[sid] = summary(bh.quick_estimate())
        if not same(got[sid], hand[sid]):
            res.violate(f'the model estimated for configuration {sid!r} is not the model of the formula written out by hand', {**case, 'config': sid},
                        got[sid], hand[sid], where=W_EST)
            return
    res.tally('estimate_catalog:models', len(all_valid))
    rng = core.rng_for('C16-estimate', len(all_valid))
    chosen = rng.sample(all_valid, rng.randint(1, max(1, len(all_valid) - 1)))
    sel = set()
    for sid in chosen:
        items = list(id_cfg(sid).items())
        rng.shuffle(items)
        sel.add(L.Configuration([L.SelectionTuple(a_, b_) for a_, b_ in items]))
    expr2, _ = build_real(case)
    b2 = bio.BIOGEME(db_, loglike(expr2))
    b2.modelName, b2.generate_html, b2.generate_pickle = 'c16sel', False, False
    got2 = {k: summary(v) for k, v in b2.estimate_catalog(selected_configurations=sel, quick_estimate=True).items()}
    if sorted(got2) != sorted(chosen) or any(not same(got2[k], hand[k]) for k in got2):
        res.violate('estimate_catalog(selected_configurations=...) does not return exactly the selected configurations, each with the model of its '
                    'hand-written formula', {**case, 'chosen': chosen}, got2, {k: hand[k] for k in chosen}, where=W_EST)
    res.tally('estimate_catalog:selected', len(chosen))
    return {'all': got, 'selected': got2, 'chosen': [c.get_string_id() for c in sel]}


def isolated_estimate(payload):
    import logging
    import warnings

    warnings.simplefilter('ignore')
    logging.disable(logging.CRITICAL)
    out = []
    with core.scratch():
        for case in payload['cases']:
            r = Result()
            observed = None
            try:
                observed = oracle_estimate(r, case)
            except Exception as e:  # noqa: BLE001
                import traceback

                tb = traceback.extract_tb(e.__traceback__)
                site = next((f'{f.filename.split("/")[-1]}:{f.lineno} {f.name}' for f in reversed(tb) if '/biogeme/' in f.filename), '')
                r.violate(f'estimate_catalog raises {type(e).__name__}: {str(e)[:200]} on a valid catalog structure', case, f'{core.exc_kind(e)} at {site}',
                          'one estimated model per configuration', where=W_EST)
            out.append({'violations': r.violations, 'tallies': dict(r.distribution), 'observed': observed})
    return {'cases': out}


def check_estimate(ctx, res, n):
    cases = []
    while len(cases) < n:
        c = gen_est_case(ctx.rng)
        if 2 <= len(valid_ids(ctrls_of(c))) <= 12:
            cases.append(c)
    out = core.run_isolated('props.c16', 'isolated_estimate', {'cases': cases})
    if '__error__' in out:
        res.notes.append('estimate_catalog stream: the isolated interpreter failed: ' + str(out.get('__error__'))[:200] + ' ' + str(out.get('stderr', ''))[-300:])
        res.tally('estimate_catalog:infrastructure failure')
        return
    for c, o in zip(cases, out['cases']):
        feats = features(c['expr'])
        res.count(c, nontrivial=True)
        res.tally('estimate_catalog:cases')
        res.tally('estimate_catalog:' + ('nested' if feats['nested'] else 'flat'))
        for k, v in o['tallies'].items():
            res.tally(k, v)
        res.violations.extend(o['violations'])
        obs = o.get('observed')
        if obs:
            # the model of the loop (Cat.estimateCatalog, theorems estimate_catalog_all / _selected): identifiers and parameters of each model
            def cb(ans, c=c, obs=obs):
                for a, real in ((ans[0], obs['all']), (ans[1], obs['selected'])):
                    m = {x['id']: sorted(x['betas']) for x in a.get('models', [])} if 'models' in a else a
                    r_ = {k: sorted(v['parameters']) for k, v in real.items()}
                    if m != r_:
                        res.diverge('models estimated by estimate_catalog (identifier -> parameters)', c, m, r_, where=W_EST)

            lexpr = lean_expr(c['expr'])
            ctx.batch.add_many([{'op': 'estimate', 'expr': lexpr, 'max': MAXN, 'selected': None},
                                {'op': 'estimate', 'expr': lexpr, 'max': MAXN, 'selected': obs['chosen']}], cb)


def flush_leanrun(res):
    """the texts the calculator handed to the engine for configured formulas, run by the proved engine model: the
    value must be the integer value of the formula written out by hand (and the value the real engine returned)"""
    if not LEANRUN:
        return
    try:
        vals = leanrun.lean_values([o for o, _, _ in LEANRUN])
    except core.LeanError as e:
        res.notes.append('engine model unavailable: ' + str(e)[:200])
        LEANRUN.clear()
        return
    for (o, v_int, case), lean in zip(LEANRUN, vals):
        leanrun.compare(res, o, lean, 'configured formula', case, rel=0, abs_=0, where='MultipleExpression.get_signature')
        if isinstance(lean, list) and lean != v_int:
            res.diverge('the signature text of the configured formula, run by the engine model, is not the integer value of the formula written '
                        'out by hand', case, lean, v_int, where='MultipleExpression.get_signature')
    LEANRUN.clear()


# --------------------------------------------------------------------------- a formula used inside a bigger formula
#
# Formulas are values: the same utility is used on its own (how many specifications? iterate, configure, evaluate) and
# as a part of bigger formulas (a model, a model plus a further catalog).  Oracle: at any moment, whatever enclosing
# or enclosed formula was used before, a formula reports one configuration per combination of the choices of ITS OWN
# controllers, iterates over them once each, accepts each of them and evaluates like its hand-written form; after an
# enclosing formula is configured, the catalogs of the enclosed one show the alternatives of that configuration.
# Model: central of each formula (a function of the formula alone), theorem embedded_formula.

W_EMBED = 'Expression.set_central_controller: the central controller of an enclosing formula replaces that of the formulas it contains'
W_OWN = 'Expression.set_central_controller / CentralController.__init__'
MATCHERS['embedded'] = lambda case: isinstance(case, dict) and case.get('shape') == 'embedded'


def gen_embed_case(rng):
    base = gen_case(rng)
    decl = dict(base.get('decl') or {})
    used = {n['name'] for n in all_cat_nodes(base['expr'], [])} | set(decl)
    ctrl_used = set(walk_ctrls(base['expr'], {}, decl))

    def extra():
        r = rng.random()
        if r < 0.15:
            return {'k': 'var', 'n': rng.choice(VARS)}  # no new controller: the space does not change
        free = [n for n in CAT_NAMES if n not in used and n not in ctrl_used]
        if not free:
            return {'k': 'num', 'v': 2}
        name = rng.choice(free)
        used.add(name)
        if decl and r < 0.4:
            cn = rng.choice(sorted(decl))  # handed a controller the inner formula uses as well
            return {'k': 'cat', 'name': name, 'ctrl': cn, 'own': False, 'ms': [[s_, {'k': 'num', 'v': rng.randint(-4, 6)}] for s_ in decl[cn]]}
        specs = rng.sample(SPEC_NAMES, rng.choice([1, 2, 2, 3]))
        return {'k': 'cat', 'name': name, 'ctrl': name, 'own': True,
                'ms': [[s_, rng.choice([{'k': 'num', 'v': rng.randint(-4, 6)}, {'k': 'beta', 'n': rng.choice(BETAS)}, {'k': 'var', 'n': rng.choice(VARS)}])]
                       for s_ in specs]}

    sub = base['expr']
    big = {'k': 'bin', 'op': rng.choice(['plus', 'times', 'minus']), 'a': sub, 'b': extra()}
    if rng.random() < 0.5:
        big = {'k': 'bin', 'op': big['op'], 'a': big['b'], 'b': big['a']}
    big2 = {'k': 'bin', 'op': rng.choice(['plus', 'minus']), 'a': big, 'b': extra()}
    script = [rng.choice(['sub', 'big', 'big2']) for _ in range(rng.randint(3, 7))]
    case = {'shape': 'embedded', 'expr': big2, 'betas': base['betas'], 'rows': base['rows'][:2], 'script': script}
    if decl:
        case['decl'] = decl
    return case


def embed_parts(case):
    """the three formulas of the case: the inner formula (the operand that is not a leaf nor a single catalog), the formula made of it and
    one further operand, and the whole"""
    big2 = case['expr']
    big = big2['a']
    sub = big['b'] if big['a']['k'] in ('cat', 'var', 'num') else big['a']
    return {'sub': sub, 'big': big, 'big2': big2}


def run_embedding(res, case, report=True):
    """execute the script of uses; returns the observations [(label, after_enclosing, obs)]"""
    L = lib()
    parts = embed_parts(case)
    keep = {}
    _, cats = build_real(case, keep=keep)
    real = {k: keep[id(v)] for k, v in parts.items()}
    rank = {'sub': 0, 'big': 1, 'big2': 2}
    decl = case.get('decl')
    db_ = database(case)
    rng = core.rng_for('C16-embed', len(json.dumps(case['script'])) + sum(case['betas'].values()))
    spaces = {k: walk_ctrls(v, {}, decl) for k, v in parts.items()}
    used = set()
    out = []
    for step, label in enumerate(case['script']):
        F, abstract, ctrls = real[label], parts[label], spaces[label]
        # an enclosing formula with MORE controllers was used before: the shape of the listed finding
        after = any(rank[u] > rank[label] and set(spaces[u]) != set(ctrls) for u in used)
        where = W_EMBED if after else W_OWN
        names = sorted(ctrls)
        valid = valid_ids(ctrls)
        n = math.prod(len(v) for v in ctrls.values())
        pcase = {**case, 'step': step, 'formula': label}
        obs = {}

        def bad(what, observed, expected):
            if report:
                res.violate(f'formula {label!r} (step {step} of the script, formulas used before: {sorted(used)}): {what}', pcase, observed, expected,
                            where=where)

        try:
            obs['number'] = F.number_of_multiple_expressions()
            cs = F.set_of_configurations()
            obs['configs'] = None if cs is None else sorted(c.get_string_id() for c in cs)
            if obs['number'] != n:
                bad('number_of_multiple_expressions is not the product of the sizes of its controllers', obs['number'], n)
            elif n <= MAXN and obs['configs'] != sorted(valid):
                bad('set_of_configurations is not one configuration per combination of the choices of its controllers', obs['configs'], sorted(valid))
            elif n <= MAXN:
                visited = sorted(ee.current_configuration().get_string_id() for ee in F)
                if visited != sorted(valid):
                    bad('iteration does not visit each of its configurations exactly once', visited, sorted(valid))
            cfg = {m: rng.choice(ctrls[m]) for m in names}
            F.configure_catalogs(L.Configuration.from_dict(cfg))
            now = F.current_configuration().get_string_id()
            obs['configured'] = [cfg_id(cfg), now]
            if now != cfg_id(cfg):
                bad(f'after configure_catalogs({cfg_id(cfg)!r}) its current configuration is another one', now, cfg_id(cfg))
            # every catalog of the formula (and of the formulas inside it) shows the alternative selected
            inside = {id(nd) for nd in all_cat_nodes(abstract, [])}
            wrong = sorted(nd['name'] for nd, cat in cats if id(nd) in inside and cat.selected_name() != cfg[nd['ctrl']])
            if wrong:
                bad(f'after configure_catalogs({cfg_id(cfg)!r}) catalogs {wrong} show another alternative', wrong, [])
            for inner in ('sub', 'big'):
                if rank[inner] <= rank[label]:
                    F2 = real[inner]
                    F2.set_id_manager(None)
                    got = [float(v) for v in F2.get_value_c(database=db_, prepare_ids=True)]
                    F2.set_id_manager(None)
                    want = [float(hand_int(parts[inner], cfg, case['betas'], r)) for r in case['rows']]
                    if got != want:
                        bad(f'configured as {cfg_id(cfg)!r}, the formula {inner!r} inside it does not evaluate like its hand-written form', got, want)
        except Exception as e:  # noqa: BLE001
            if core.exc_kind(e) != 'BiogemeError':
                raise
            obs['err'] = err_tag(e)
            bad(f'raises {err_tag(e)}: {str(e)[:160]}', err_tag(e), 'no error')
        used.add(label)
        out.append((label, after, obs))
    return out, parts, spaces


EMBED_CORPUS = [
    # (c1 + 10) used alone, then as a part of (c1 + 10) * c2, then alone again; then the whole inside a third formula
    {'shape': 'embedded',
     'expr': {'k': 'bin', 'op': 'plus',
              'a': {'k': 'bin', 'op': 'times',
                    'a': {'k': 'bin', 'op': 'plus', 'a': {'k': 'cat', 'name': 'c1', 'ctrl': 'c1', 'own': True, 'ms': [['a', {'k': 'num', 'v': 1}], ['b', {'k': 'num', 'v': 2}]]},
                          'b': {'k': 'num', 'v': 10}},
                    'b': {'k': 'cat', 'name': 'c2', 'ctrl': 'c2', 'own': True,
                          'ms': [['u', {'k': 'num', 'v': 100}], ['v', {'k': 'num', 'v': 200}], ['w', {'k': 'num', 'v': 300}]]}},
              'b': {'k': 'cat', 'name': 'c10', 'ctrl': 'c10', 'own': True, 'ms': [['p', {'k': 'var', 'n': 'x'}], ['q', {'k': 'beta', 'n': 'b1'}]]}},
     'betas': {'b1': 2, 'b10': 1, 'b2': -1, 'asc': 3}, 'rows': [{'x': 1, 'y': 4, 'z': 0}, {'x': -2, 'y': 5, 'z': 1}],
     'script': ['sub', 'big', 'sub', 'big2', 'big', 'sub']},
]


def check_embedding(ctx, res, n):
    for i in range(n + len(EMBED_CORPUS)):
        case = EMBED_CORPUS[i] if i < len(EMBED_CORPUS) else gen_embed_case(ctx.rng)
        res.count(case, nontrivial=True)
        try:
            out, parts, spaces = run_embedding(res, case)
        except Exception as e:  # noqa: BLE001
            res.violate(f'the real code raises {type(e).__name__}: {str(e)[:200]} while formulas sharing catalogs are used in turn', case, core.exc_kind(e),
                        'no error', where=W_OWN)
            continue
        for label, after, _ in out:
            res.tally('embedded:use of ' + label + (' after an enclosing formula' if after else ''))
        reqs = [{'op': 'central', 'expr': lean_expr(parts[k]), 'max': MAXN} for k in ('sub', 'big', 'big2')]

        def cb(ans, case=case, out=out):
            m = dict(zip(('sub', 'big', 'big2'), ans))
            for step, (label, after, obs) in enumerate(out):
                a = m[label]
                if 'err' in a:
                    res.diverge('the model refuses a formula the code accepts', {**case, 'formula': label}, a, obs, where=W_OWN)
                    continue
                if 'number' not in obs:
                    continue
                mc = None if a.get('configs') is None else sorted(a['configs'])
                if a.get('number') != obs['number'] or mc != obs.get('configs'):
                    res.diverge(f'number / set of configurations of formula {label!r} at step {step}', {**case, 'step': step, 'formula': label},
                                [a.get('number'), mc], [obs['number'], obs.get('configs')], where=W_EMBED if after else W_OWN)

        ctx.batch.add_many(reqs, cb)


# --------------------------------------------------------------------------- several formulas on the same catalogs
#
# The state of a selection lives in the Controller objects, which are shared by every formula written with the same
# catalog objects (each formula has its own CentralController) and are publicly mutable.  Scripts interleave
# selections on several formulas (the same configuration asked again later on the same formula is frequent), direct
# mutations of the Controller objects (set_index / set_name / modify_controller / reset_selection), select_expression
# and operator calls.  Oracle (from the property statement; the expected state is tracked by the harness): after
# every selection the catalogs of the formula show the alternatives selected and the formula evaluates like its
# hand-written form; after every operation every formula shows the state of its controllers; a read
# (current_configuration) returns it.  The state is observed through the Controller / Catalog objects only, never
# through a CentralController, so that observing does not refresh anything a CentralController may remember.
# Model: Cat.runM, theorem select_after_any_history.

W_SHARED = 'CentralController.set_configuration / set_controller: formulas and direct mutations sharing Controller objects'


def shared_formulas(case):
    """abstract formulas of the case: the whole expression, then one formula per list of catalog indices"""
    nodes = all_cat_nodes(case['expr'], [])
    out = [case['expr']]
    for idxs in case['formulas']:
        g = {'k': 'num', 'v': 0}
        for k, i in enumerate(idxs):
            g = {'k': 'bin', 'op': 'plus', 'a': g, 'b': {'k': 'bin', 'op': 'times', 'a': nodes[i], 'b': {'k': 'num', 'v': k + 1}}}
        out.append(g)
    return out, nodes


def gen_shared_case(rng):
    base = gen_case(rng)
    nodes = all_cat_nodes(base['expr'], [])
    decl = base.get('decl')
    formulas = [sorted(rng.sample(range(len(nodes)), rng.randint(1, min(3, len(nodes))))) for _ in range(rng.choice([1, 1, 2]))]
    case = {'shape': 'shared', 'expr': base['expr'], 'betas': base['betas'], 'rows': base['rows'][:2], 'formulas': formulas}
    if decl:
        case['decl'] = decl
    abstract, _ = shared_formulas(case)
    spaces = [walk_ctrls(a, {}, decl) for a in abstract]
    allc = spaces[0]
    last = {}
    script = []
    for _ in range(rng.randint(8, 18)):
        r = rng.random()
        f = rng.randrange(len(abstract))
        ctrls = spaces[f]
        names = sorted(ctrls)
        if r < 0.45:
            if f in last and rng.random() < 0.55:
                cfg = last[f]  # the same configuration asked again on the same formula
            else:
                cfg = {n: rng.choice(ctrls[n]) for n in names}
            last[f] = cfg
            script.append({'e': 'select', 'f': f, 'id': cfg_id(cfg), 'via': rng.choice(['expression', 'central', 'central_id'])})
        elif r < 0.7:
            n = rng.choice(sorted(allc))
            how = rng.choice(['index', 'name', 'modify', 'reset'])
            ev = {'e': how, 'name': n}
            if how == 'index':
                ev['index'] = rng.randrange(len(allc[n]))
            elif how == 'name':
                ev['v'] = rng.choice(allc[n])
            elif how == 'modify':
                ev.update(step=rng.choice([1, -1, 2, -3, rng.randint(-9, 9)]), circular=rng.random() < 0.5)
            script.append(ev)
        elif r < 0.8:
            n = rng.choice(names)
            script.append({'e': 'setctrl', 'f': f, 'name': n, 'index': rng.randrange(len(ctrls[n])), 'via': rng.choice(['expression', 'central'])})
        elif r < 0.9:
            table = op_table(names)
            det = [k for k in table if table[k][0] != 'several']
            cfg = last[f] if f in last and rng.random() < 0.5 else {n: rng.choice(ctrls[n]) for n in names}
            script.append({'e': 'apply', 'f': f, 'key': rng.choice(det), 'id': cfg_id(cfg), 'step': rng.choice([1, 1, 2, -1, 0, 3, -7])})
        else:
            script.append({'e': 'read', 'f': f})
    case['script'] = script
    return case


def run_shared(res, case, report=True):
    """execute the script on real objects; returns (spaces, [views after each operation sent to the model], operations for the model)"""
    L = lib()
    decl = case.get('decl')
    abstract, nodes = shared_formulas(case)
    keep = {}
    f0, cats = build_real(case, keep=keep)
    reals = [f0]
    for idxs in case['formulas']:
        g = L.ex.Numeric(0)
        for k, i in enumerate(idxs):
            g = g + keep[id(nodes[i])] * (k + 1)
        reals.append(g)
    spaces = [walk_ctrls(a, {}, decl) for a in abstract]
    allc = spaces[0]
    ctrl_obj = {}
    for node, cat in cats:
        ctrl_obj.setdefault(node['ctrl'], cat.controlled_by)
    inside = [{id(nd) for nd in all_cat_nodes(a, [])} for a in abstract]
    db_ = database(case)
    idx = {n: 0 for n in allc}  # expected index of every controller
    mk = lambda sid: L.Configuration([L.SelectionTuple(n, s_) for n, s_ in id_cfg(sid).items()])  # noqa: E731
    lean_ops, views = [], []
    done = []

    def bad(what, observed, expected):
        if report:
            res.violate(what, {**case, 'script': done + [ev]}, observed, expected, where=W_SHARED)

    def view(f):
        return cfg_id({n: ctrl_obj[n].current_name() for n in spaces[f]})

    def expected_view(f):
        return cfg_id({n: allc[n][idx[n]] for n in spaces[f]})

    for ev in case['script']:
        kind = ev['e']
        f = ev.get('f')
        if kind == 'select':
            c = mk(ev['id'])
            if ev['via'] == 'expression':
                reals[f].configure_catalogs(c)
            elif ev['via'] == 'central':
                reals[f].set_central_controller() if reals[f].central_controller is None else None
                reals[f].central_controller.set_configuration(c)
            else:
                reals[f].set_central_controller() if reals[f].central_controller is None else None
                reals[f].central_controller.set_configuration_from_id(ev['id'])
            cfg = id_cfg(ev['id'])
            for n, v in cfg.items():
                idx[n] = allc[n].index(v)
            shown = {nd['name']: cat.selected_name() for nd, cat in cats if id(nd) in inside[f]}
            want = {nd['name']: cfg[nd['ctrl']] for nd, cat in cats if id(nd) in inside[f]}
            if shown != want:
                bad(f'after formula {f} is configured as {ev["id"]!r} (operations before: {[d["e"] for d in done]}) its catalogs show other alternatives',
                    shown, want)
                break
            reals[f].set_id_manager(None)
            got = [float(v) for v in reals[f].get_value_c(database=db_, prepare_ids=True)]
            reals[f].set_id_manager(None)
            val = [float(hand_int(abstract[f], cfg, case['betas'], r)) for r in case['rows']]
            if got != val:
                bad(f'after formula {f} is configured as {ev["id"]!r} it does not evaluate like the formula written out by hand', got, val)
                break
            lean_ops.append({'e': 'select', 'f': f, 'id': ev['id']})
        elif kind == 'setctrl':
            if ev['via'] == 'expression':
                reals[f].select_expression(ev['name'], ev['index'])
            else:
                reals[f].set_central_controller() if reals[f].central_controller is None else None
                reals[f].central_controller.set_controller(ev['name'], ev['index'])
            idx[ev['name']] = ev['index']
            lean_ops.append({'e': 'setctrl', 'f': f, 'name': ev['name'], 'index': ev['index']})
        elif kind == 'apply':
            reals[f].set_central_controller() if reals[f].central_controller is None else None
            ops = reals[f].central_controller.prepare_operators()
            new, _ret = ops[ev['key']](mk(ev['id']), ev['step'])
            d = op_table(sorted(spaces[f]))[ev['key']]
            step = ev['step']
            mv = [(d[1], step)] if d[0] == 'inc' else [(d[1], -step)] if d[0] == 'dec' else \
                [(d[1], step if d[3][1] == 'E' else -step), (d[2], step if d[3][0] == 'N' else -step)]
            want = moved(spaces[f], id_cfg(ev['id']), mv)
            if new.get_string_id() != cfg_id(want):
                bad(f'operator {ev["key"]!r} of formula {f} with step {step} given {ev["id"]!r} does not return the neighbour of the configuration it is given',
                    new.get_string_id(), cfg_id(want))
                break
            for n, v in want.items():
                idx[n] = allc[n].index(v)
            lean_ops.append({'e': 'apply', 'f': f, 'key': ev['key'], 'id': ev['id'], 'step': step, 'choices': []})
        elif kind == 'read':
            now = reals[f].current_configuration().get_string_id()
            if now != expected_view(f):
                bad(f'current_configuration of formula {f} is not the state of its controllers', now, expected_view(f))
                break
            done.append(ev)
            res.tally('shared:read')
            continue
        else:
            c_ = ctrl_obj[ev['name']]
            size = len(allc[ev['name']])
            if kind == 'index':
                c_.set_index(ev['index'])
                idx[ev['name']] = ev['index']
                lean_ops.append({'e': 'index', 'name': ev['name'], 'specs': allc[ev['name']], 'index': ev['index']})
            elif kind == 'reset':
                c_.reset_selection()
                idx[ev['name']] = 0
                lean_ops.append({'e': 'index', 'name': ev['name'], 'specs': allc[ev['name']], 'index': 0})
            elif kind == 'name':
                c_.set_name(ev['v'])
                idx[ev['name']] = allc[ev['name']].index(ev['v'])
                lean_ops.append({'e': 'name', 'name': ev['name'], 'specs': allc[ev['name']], 'v': ev['v']})
            else:
                c_.modify_controller(step=ev['step'], circular=ev['circular'])
                new_i = idx[ev['name']] + ev['step']
                idx[ev['name']] = new_i % size if ev['circular'] else min(max(new_i, 0), size - 1)
                lean_ops.append({'e': 'modify', 'name': ev['name'], 'specs': allc[ev['name']], 'step': ev['step'], 'circular': ev['circular']})
        res.tally('shared:' + kind)
        now = [view(k) for k in range(len(reals))]
        views.append(now)
        want_views = [expected_view(k) for k in range(len(reals))]
        if now != want_views:
            bad(f'after {kind} the controllers of the formulas do not show the expected state', now, want_views)
            break
        done.append(ev)
    return abstract, views, lean_ops


def check_shared(ctx, res, n):
    for _ in range(n):
        case = gen_shared_case(ctx.rng)
        res.count(case, nontrivial=True)
        res.tally('shared:formulas=' + str(1 + len(case['formulas'])))
        try:
            abstract, views, lean_ops = run_shared(res, case)
        except Exception as e:  # noqa: BLE001
            import traceback

            tb = traceback.extract_tb(e.__traceback__)
            site = next((f'{f.filename.split("/")[-1]}:{f.lineno} {f.name}' for f in reversed(tb) if '/biogeme/' in f.filename), '')
            res.violate(f'the real code raises {type(e).__name__}: {str(e)[:200]} while several formulas on the same catalogs are used in turn', case,
                        f'{core.exc_kind(e)} at {site}', 'no error', where=W_SHARED)
            continue

        def cb(a, case=case, views=views):
            tr = a.get('trace')
            if tr is None or tr[:len(views)] != views:
                res.diverge('configurations shown by several formulas on the same catalogs after each operation', case, tr, views, where=W_SHARED)
            res.traces_validated += 1

        ctx.batch.add({'op': 'multi', 'formulas': [lean_expr(a) for a in abstract], 'ops': lean_ops}, cb)


# --------------------------------------------------------------------------- construction interleaved with selection
#
# A script creates catalogs and formulas at ANY point of a history of selections, operator calls and direct moves of
# the Controller objects: a catalog may be handed a controller that has already left its first alternative, a formula
# (and its central controller) may be made while the controllers are in any state.  Oracle (expected indices tracked by
# the harness): after every selection on a formula and after every direct move, EVERY catalog made so far - whenever it
# was made, in whatever formula - shows the member its controller names, and the formula selected evaluates like its
# hand-written form.  Observed through Catalog / Controller objects only.  Model: Cat.runW, theorem late_catalog_follows.

W_LATE = 'Catalog.__init__ / Controller.set_index: catalogs created after their controller was moved'


def gen_late_case(rng):
    decl = {}
    for cn in rng.sample(CTRL_NAMES, rng.choice([1, 1, 2])):
        decl[cn] = rng.sample([n for n in SPEC_NAMES if n], rng.choice([2, 2, 3, 4]))
    free_names = list(CAT_NAMES)
    rng.shuffle(free_names)
    leaf = lambda: rng.choice([{'k': 'num', 'v': rng.randint(-4, 6)}, {'k': 'beta', 'n': rng.choice(BETAS)}, {'k': 'var', 'n': rng.choice(VARS)},  # noqa: E731
                               {'k': 'bin', 'op': 'times', 'a': {'k': 'beta', 'n': rng.choice(BETAS)}, 'b': {'k': 'var', 'n': rng.choice(VARS)}}])
    specs = {k: list(v) for k, v in decl.items()}  # all controllers known so far
    idx = {k: 0 for k in decl}
    cats, formulas, script = [], [], []

    def newcat():
        if not free_names:
            return False
        name = free_names.pop()
        if rng.random() < 0.8:
            # preferably a controller that is not on its first alternative at this moment
            moved_ = [c for c in sorted(decl) if idx[c] != 0]
            cn = rng.choice(moved_) if moved_ and rng.random() < 0.7 else rng.choice(sorted(decl))
            node = {'k': 'cat', 'name': name, 'ctrl': cn, 'own': False, 'ms': [[s_, leaf()] for s_ in decl[cn]]}
        else:
            names = rng.sample(SPEC_NAMES, rng.choice([1, 2, 3]))
            node = {'k': 'cat', 'name': name, 'ctrl': name, 'own': True, 'ms': [[s_, leaf()] for s_ in names]}
            specs[name] = names
            idx[name] = 0
        if rng.random() < 0.3:
            node['via'] = 'from_dict'
        cats.append(node)
        script.append({'e': 'newcat', 'node': node})
        return True

    def newformula():
        recent = [len(cats) - 1] if rng.random() < 0.7 else []
        pick = sorted(set(recent + rng.sample(range(len(cats)), rng.randint(1, min(3, len(cats))))))
        formulas.append(pick)
        script.append({'e': 'newformula', 'cats': pick})

    def space(f):
        return {cats[i]['ctrl']: specs[cats[i]['ctrl']] for i in formulas[f]}

    newcat()
    newformula()
    for _ in range(rng.randint(8, 18)):
        r = rng.random()
        f = rng.randrange(len(formulas))
        sp = space(f)
        names = sorted(sp)
        if r < 0.17:
            if newcat() and rng.random() < 0.75:
                newformula()
        elif r < 0.25:
            newformula()
        elif r < 0.55:
            # often: the alternatives the controllers already show (nothing has to move)
            cfg = {n: (sp[n][idx[n]] if rng.random() < 0.6 else rng.choice(sp[n])) for n in names}
            for n in names:
                idx[n] = sp[n].index(cfg[n])
            script.append({'e': 'select', 'f': f, 'id': cfg_id(cfg), 'via': rng.choice(['expression', 'central', 'central_id'])})
        elif r < 0.75:
            n = rng.choice(sorted(specs))
            how = rng.choice(['index', 'name', 'modify', 'reset'])
            ev = {'e': how, 'name': n}
            size = len(specs[n])
            if how == 'index':
                ev['index'] = rng.randrange(size)
                idx[n] = ev['index']
            elif how == 'name':
                ev['v'] = rng.choice(specs[n])
                idx[n] = specs[n].index(ev['v'])
            elif how == 'modify':
                ev.update(step=rng.choice([1, -1, 2, -3, 0, rng.randint(-9, 9)]), circular=rng.random() < 0.5)
                new_i = idx[n] + ev['step']
                idx[n] = new_i % size if ev['circular'] else min(max(new_i, 0), size - 1)
            else:
                idx[n] = 0
            script.append(ev)
        elif r < 0.85:
            n = rng.choice(names)
            i = idx[n] if rng.random() < 0.5 else rng.randrange(len(sp[n]))
            idx[n] = i
            script.append({'e': 'setctrl', 'f': f, 'name': n, 'index': i, 'via': rng.choice(['expression', 'central'])})
        else:
            table = op_table(names)
            det = [k for k in table if table[k][0] != 'several']
            cfg = {n: (sp[n][idx[n]] if rng.random() < 0.5 else rng.choice(sp[n])) for n in names}
            key, step = rng.choice(det), rng.choice([1, 1, 2, -1, 0, 0, 3, -7])
            d = table[key]
            mv = [(d[1], step)] if d[0] == 'inc' else [(d[1], -step)] if d[0] == 'dec' else \
                [(d[1], step if d[3][1] == 'E' else -step), (d[2], step if d[3][0] == 'N' else -step)]
            want = moved(sp, cfg, mv)
            for n in names:
                idx[n] = sp[n].index(want[n])
            script.append({'e': 'apply', 'f': f, 'key': key, 'id': cfg_id(cfg), 'step': step})
    return {'shape': 'late', 'decl': decl, 'betas': {b: rng.randint(-3, 4) for b in BETAS},
            'rows': [{v: rng.randint(-3, 5) for v in VARS} for _ in range(2)], 'script': script}


def run_late(res, case, report=True):
    L = lib()
    B = builders(case)
    decl = case['decl']
    ctrl_obj = {cn: L.Controller(cn, list(sp)) for cn, sp in decl.items()}
    specs = {k: list(v) for k, v in decl.items()}
    idx = {k: 0 for k in decl}
    nodes, cat_objs, formulas, reals, abstract = [], [], [], [], []
    db_ = database(case)
    mk = lambda sid: L.Configuration([L.SelectionTuple(n, s_) for n, s_ in id_cfg(sid).items()])  # noqa: E731
    lean_ops, obs, done = [], [], []

    def bad(what, observed, expected):
        if report:
            res.violate(what, {**case, 'script': done + [ev]}, observed, expected, where=W_LATE)

    def space(f):
        return {nodes[i]['ctrl']: specs[nodes[i]['ctrl']] for i in formulas[f]}

    def central(f):
        if reals[f].central_controller is None:
            reals[f].set_central_controller()
        return reals[f].central_controller

    def catalogs_follow(after):
        shown = {nd['name']: c.selected_name() for nd, c in zip(nodes, cat_objs)}
        want = {nd['name']: specs[nd['ctrl']][idx[nd['ctrl']]] for nd in nodes}
        if shown != want:
            wrong = sorted(k for k in shown if shown[k] != want[k])
            bad(f'after {after} (operations before: {[d["e"] for d in done]}) catalogs {wrong} do not show the alternative of their controller', shown, want)
            return False
        return True

    for ev in case['script']:
        kind = ev['e']
        f = ev.get('f')
        ok = True
        if kind == 'newcat':
            nd = ev['node']
            members = [L.ex.NamedExpression(name=n, expression=hand_written(m, {}, B)) for n, m in nd['ms']]
            kw = {} if nd['own'] else {'controlled_by': ctrl_obj[nd['ctrl']]}
            if nd.get('via') == 'from_dict':
                c = L.Catalog.from_dict(nd['name'], {m.name: m.expression for m in members}, **kw)
            else:
                c = L.Catalog(nd['name'], members, **kw)
            if nd['own']:
                ctrl_obj[nd['ctrl']] = c.controlled_by
                specs[nd['ctrl']] = [m[0] for m in nd['ms']]
                idx[nd['ctrl']] = 0
            nodes.append(nd)
            cat_objs.append(c)
            lean_ops.append({'e': 'newcat', 'name': nd['name'], 'ctrl': nd['ctrl'], 'names': [m[0] for m in nd['ms']]})
        elif kind == 'newformula':
            g, ga = L.ex.Numeric(0), {'k': 'num', 'v': 0}
            for k, i in enumerate(ev['cats']):
                g = g + cat_objs[i] * (k + 1)
                ga = {'k': 'bin', 'op': 'plus', 'a': ga, 'b': {'k': 'bin', 'op': 'times', 'a': nodes[i], 'b': {'k': 'num', 'v': k + 1}}}
            formulas.append(ev['cats'])
            reals.append(g)
            abstract.append(ga)
            lean_ops.append({'e': 'newformula', 'expr': lean_expr(ga)})
        elif kind == 'select':
            c = mk(ev['id'])
            if ev['via'] == 'expression':
                reals[f].configure_catalogs(c)
            elif ev['via'] == 'central':
                central(f).set_configuration(c)
            else:
                central(f).set_configuration_from_id(ev['id'])
            cfg = id_cfg(ev['id'])
            for n, v in cfg.items():
                idx[n] = specs[n].index(v)
            ok = catalogs_follow(f'formula {f} is configured as {ev["id"]!r}')
            if ok:
                reals[f].set_id_manager(None)
                got = [float(v) for v in reals[f].get_value_c(database=db_, prepare_ids=True)]
                reals[f].set_id_manager(None)
                val = [float(hand_int(abstract[f], cfg, case['betas'], r)) for r in case['rows']]
                if got != val:
                    bad(f'after formula {f} is configured as {ev["id"]!r} it does not evaluate like the formula written out by hand', got, val)
                    ok = False
            lean_ops.append({'e': 'select', 'f': f, 'id': ev['id']})
        elif kind == 'setctrl':
            if ev['via'] == 'expression':
                reals[f].select_expression(ev['name'], ev['index'])
            else:
                central(f).set_controller(ev['name'], ev['index'])
            idx[ev['name']] = ev['index']
            ok = catalogs_follow(f'select_expression({ev["name"]!r}, {ev["index"]}) on formula {f}')
            lean_ops.append({'e': 'setctrl', 'f': f, 'name': ev['name'], 'index': ev['index']})
        elif kind == 'apply':
            sp = space(f)
            new, _ret = central(f).prepare_operators()[ev['key']](mk(ev['id']), ev['step'])
            d = op_table(sorted(sp))[ev['key']]
            step = ev['step']
            mv = [(d[1], step)] if d[0] == 'inc' else [(d[1], -step)] if d[0] == 'dec' else \
                [(d[1], step if d[3][1] == 'E' else -step), (d[2], step if d[3][0] == 'N' else -step)]
            want = moved(sp, id_cfg(ev['id']), mv)
            if new.get_string_id() != cfg_id(want):
                bad(f'operator {ev["key"]!r} of formula {f} with step {step} given {ev["id"]!r} does not return the neighbour of the configuration it is given',
                    new.get_string_id(), cfg_id(want))
                ok = False
            for n, v in want.items():
                idx[n] = specs[n].index(v)
            ok = ok and catalogs_follow(f'operator {ev["key"]!r} (step {step}) of formula {f} given {ev["id"]!r}')
            lean_ops.append({'e': 'apply', 'f': f, 'key': ev['key'], 'id': ev['id'], 'step': step, 'choices': []})
        else:
            c_ = ctrl_obj[ev['name']]
            size = len(specs[ev['name']])
            if kind == 'index':
                c_.set_index(ev['index'])
                idx[ev['name']] = ev['index']
                lean_ops.append({'e': 'index', 'name': ev['name'], 'specs': specs[ev['name']], 'index': ev['index']})
            elif kind == 'reset':
                c_.reset_selection()
                idx[ev['name']] = 0
                lean_ops.append({'e': 'index', 'name': ev['name'], 'specs': specs[ev['name']], 'index': 0})
            elif kind == 'name':
                c_.set_name(ev['v'])
                idx[ev['name']] = specs[ev['name']].index(ev['v'])
                lean_ops.append({'e': 'name', 'name': ev['name'], 'specs': specs[ev['name']], 'v': ev['v']})
            else:
                c_.modify_controller(step=ev['step'], circular=ev['circular'])
                new_i = idx[ev['name']] + ev['step']
                idx[ev['name']] = new_i % size if ev['circular'] else min(max(new_i, 0), size - 1)
                lean_ops.append({'e': 'modify', 'name': ev['name'], 'specs': specs[ev['name']], 'step': ev['step'], 'circular': ev['circular']})
            ok = catalogs_follow(f'{kind} on the controller {ev["name"]!r}')
        res.tally('late:' + kind)
        obs.append({'views': [cfg_id({n: ctrl_obj[n].current_name() for n in space(k)}) for k in range(len(reals))],
                    'shown': [c.selected_name() for c in cat_objs]})
        if not ok:
            break
        done.append(ev)
    return obs, lean_ops


def check_late(ctx, res, n):
    for _ in range(n):
        case = gen_late_case(ctx.rng)
        res.count(case, nontrivial=True)
        try:
            obs, lean_ops = run_late(res, case)
        except Exception as e:  # noqa: BLE001
            import traceback

            tb = traceback.extract_tb(e.__traceback__)
            site = next((f'{f.filename.split("/")[-1]}:{f.lineno} {f.name}' for f in reversed(tb) if '/biogeme/' in f.filename), '')
            res.violate(f'the real code raises {type(e).__name__}: {str(e)[:200]} while catalogs and formulas are created between selections', case,
                        f'{core.exc_kind(e)} at {site}', 'no error', where=W_LATE)
            continue

        def cb(a, case=case, obs=obs):
            tr = a.get('trace')
            if tr is None or tr[:len(obs)] != obs:
                res.diverge('configurations of the formulas and members shown by the catalogs made so far, after each step of a script creating catalogs '
                            'between selections', case, tr, obs, where=W_LATE)
            res.traces_validated += 1

        ctx.batch.add({'op': 'world', 'decl': [[k, v] for k, v in case['decl'].items()], 'ops': lean_ops}, cb)

# --------------------------------------------------------------------------- known-finding shapes (oracle only)

FINDING_CASES = [
    # FC16a: two different controllers named 'c' (siblings)
    {'shape': 'same_name', 'expr': {'k': 'bin', 'op': 'plus',
                                    'a': {'k': 'cat', 'name': 'c', 'ctrl': 'c', 'own': True, 'ms': [['p', {'k': 'num', 'v': 10}], ['q', {'k': 'num', 'v': 20}]]},
                                    'b': {'k': 'cat', 'name': 'c', 'ctrl': 'c', 'own': True, 'ms': [['p', {'k': 'num', 'v': 1}], ['q', {'k': 'num', 'v': 2}]]}},
     'betas': {b: 1 for b in BETAS}, 'rows': [{v: 1 for v in VARS}]},
    # FC16a: a catalog containing a catalog with its own name (the check "cannot contain itself" never fires)
    {'shape': 'same_name', 'expr': {'k': 'cat', 'name': 'c', 'ctrl': 'c', 'own': True, 'ms': [
        ['a', {'k': 'cat', 'name': 'c', 'ctrl': 'c', 'own': True, 'ms': [['p', {'k': 'num', 'v': 10}], ['q', {'k': 'num', 'v': 20}]]}],
        ['b', {'k': 'num', 'v': 2}]]},
     'betas': {b: 1 for b in BETAS}, 'rows': [{v: 1 for v in VARS}]},
    # FC16b: separators inside a specification name
    {'shape': 'separator', 'expr': {'k': 'cat', 'name': 'c', 'ctrl': 'c', 'own': True, 'ms': [['a;d:e', {'k': 'num', 'v': 1}], ['x', {'k': 'num', 'v': 2}]]},
     'betas': {b: 1 for b in BETAS}, 'rows': [{v: 1 for v in VARS}]},
    # FC16c: the same specification name twice
    {'shape': 'dup_spec', 'expr': {'k': 'cat', 'name': 'c', 'ctrl': 'c', 'own': True, 'ms': [['a', {'k': 'num', 'v': 1}], ['a', {'k': 'num', 'v': 2}]]},
     'betas': {b: 1 for b in BETAS}, 'rows': [{v: 1 for v in VARS}]},
]


def all_cat_nodes(e, out):
    k = e['k']
    if k == 'neg':
        all_cat_nodes(e['a'], out)
    elif k == 'bin':
        all_cat_nodes(e['a'], out)
        all_cat_nodes(e['b'], out)
    elif k == 'cat':
        out.append(e)
        for _, m in e['ms']:
            all_cat_nodes(m, out)
    return out


def oracle_shape(res, case):
    """property oracle for inputs outside the guards: either the library refuses them, or the
    clauses of the property hold (one configuration per combination of the choices of every
    controller object, identifier round trip, every catalog follows its controller)"""
    L = lib()
    where = {'same_name': W_SAME, 'separator': W_SEP, 'dup_spec': W_DUP}[case['shape']]
    res.count(case, nontrivial=True)
    res.tally('finding_shape:' + case['shape'])
    try:
        expr, cats = build_real(case, distinct_objects=True)
        conf = expr.set_of_configurations()
        number = expr.number_of_multiple_expressions()
    except Exception as e:  # noqa: BLE001
        if core.exc_kind(e) == 'BiogemeError':
            return None  # refused: fine
        res.violate(f'unexpected {type(e).__name__}: {e}', case, str(e), 'refusal or a sound catalog', where=where)
        return 'raises'
    objs = {}
    for node, cat in cats:
        objs[id(cat.controlled_by)] = len(node['ms'])
    expected_n = math.prod(objs.values())
    why = None
    if number != expected_n or conf is None or len(conf) != expected_n:
        why = f'{number} configurations for {expected_n} combinations of controller choices'
    else:
        for c in conf:
            try:
                if L.Configuration.from_string(c.get_string_id()).selections != c.selections:
                    why = 'identifier does not convert back'
                expr.configure_catalogs(c)
            except Exception as e:  # noqa: BLE001
                why = f'an enumerated configuration cannot be applied: {e}'
                break
            for node, cat in cats:
                if cat.selected_name() != c.get_selection(node['ctrl']):
                    why = f'catalog {node["name"]!r} does not follow controller {node["ctrl"]!r}'
    if why:
        res.violate(why, case, {'number': number, 'configurations': None if conf is None else sorted(map(str, conf))},
                    'refusal, or one configuration per combination and every catalog following its controller', where=where)
    return why


STALE_CASE = {
    'shape': 'stale_ids',
    'expr': {'k': 'bin', 'op': 'times',
             'a': {'k': 'cat', 'name': 'c', 'ctrl': 'c', 'own': True, 'ms': [['a', {'k': 'beta', 'n': 'b1'}], ['b', {'k': 'beta', 'n': 'b10'}]]},
             'b': {'k': 'var', 'n': 'x'}},
    'betas': {'b1': 2, 'b10': 5, 'b2': 0, 'asc': 0}, 'rows': [{'x': 1, 'y': 0, 'z': 0}, {'x': 2, 'y': 0, 'z': 0}],
    'sequence': ['configure c:a', 'prepare(database, 0)', 'configure c:b', 'get_value_c(database, prepare_ids=True)'],
}


def oracle_stale(res, case):
    """ids prepared under one configuration, then another configuration is selected and evaluated
    through the public call that prepares its own ids: must evaluate like the hand-written formula"""
    L = lib()
    res.count(case, nontrivial=True)
    res.tally('finding_shape:stale_ids')
    expr, _ = build_real(case)
    db_ = database(case)
    expr.configure_catalogs(L.Configuration.from_string('c:a'))
    expr.prepare(db_, 0)
    expr.configure_catalogs(L.Configuration.from_string('c:b'))
    want = [float(hand_int(case['expr'], {'c': 'b'}, case['betas'], r)) for r in case['rows']]
    try:
        got = [float(v) for v in expr.get_value_c(database=db_, prepare_ids=True)]
    except Exception as e:  # noqa: BLE001
        got = f'{type(e).__name__}: {e}'
    if got != want:
        res.violate('a configured formula cannot be evaluated after ids were prepared under another configuration', case, got, want, where=W_STALE)
        return got
    return None


ROOT_CASE = {
    'shape': 'root_catalog',
    'expr': {'k': 'cat', 'name': 'c', 'ctrl': 'c', 'own': True,
             'ms': [['a', {'k': 'bin', 'op': 'times', 'a': {'k': 'beta', 'n': 'b1'}, 'b': {'k': 'var', 'n': 'x'}}], ['b', {'k': 'num', 'v': 3}]]},
    'betas': {'b1': 2, 'b10': 5, 'b2': 0, 'asc': 0}, 'rows': [{'x': 1, 'y': 0, 'z': 0}, {'x': 2, 'y': 0, 'z': 0}],
}


def oracle_root(res, case):
    """the formula is a catalog itself: every configuration must evaluate like the hand-written formula"""
    L = lib()
    res.count(case, nontrivial=True)
    res.tally('finding_shape:root_catalog')
    expr, _ = build_real(case)
    db_ = database(case)
    bad = None
    for c in sorted(expr.set_of_configurations(), key=str):
        cfg = {s.controller: s.selection for s in c.selections}
        expr.configure_catalogs(c)
        want = [float(hand_int(case['expr'], cfg, case['betas'], r)) for r in case['rows']]
        try:
            got = [float(v) for v in expr.get_value_c(database=db_, prepare_ids=True)]
        except Exception as e:  # noqa: BLE001
            got = f'{type(e).__name__}: {e}'
        if got != want:
            bad = (c.get_string_id(), got, want)
            break
    if bad:
        res.violate('a formula whose root is a catalog does not evaluate like the formula written out by hand', {**case, 'config': bad[0]},
                    bad[1], bad[2], where=W_ROOT)
    return bad


def isolated_probes(payload):
    """runs in a fresh interpreter (the probes hand formulas to the engine without a prior structural check)"""
    import warnings

    warnings.simplefilter('ignore')
    out = {}
    with core.scratch():
        for key, fn, case in (('stale', oracle_stale, STALE_CASE), ('root', oracle_root, ROOT_CASE)):
            r = Result()
            try:
                fn(r, case)
            except Exception as e:  # noqa: BLE001
                r.violate(f'the real code raises {type(e).__name__}: {str(e)[:200]}', case, core.exc_kind(e), 'no error',
                          where=W_STALE if key == 'stale' else W_ROOT)
            out[key] = r.violations
    return out


def run_probes(res):
    for c in FINDING_CASES:
        try:
            oracle_shape(res, c)
        except Exception as e:  # noqa: BLE001
            res.violate(f'the real code raises {type(e).__name__}: {str(e)[:200]}', c, core.exc_kind(e), 'refusal or a sound catalog',
                        where={'same_name': W_SAME, 'separator': W_SEP, 'dup_spec': W_DUP}[c['shape']])
    out = core.run_isolated('props.c16', 'isolated_probes', {})
    for key, case, where in (('stale', STALE_CASE, W_STALE), ('root', ROOT_CASE, W_ROOT)):
        res.count(case, nontrivial=True)
        res.tally('finding_shape:' + case['shape'])
        if '__error__' in out:
            res.violate(f'the interpreter running the probe died ({out["__error__"]}): the engine was handed an inconsistent formula', case,
                        out.get('stderr', '')[-300:], 'a value', where=where)
        else:
            res.violations.extend(out.get(key, []))


# --------------------------------------------------------------------------- check / search / replay

CORPUS = [
    # shared controller + nested catalog + non selected branch holding a catalog
    {'expr': {'k': 'bin', 'op': 'plus',
              'a': {'k': 'cat', 'name': 'c3', 'ctrl': 'c3', 'own': True, 'ms': [
                  ['u', {'k': 'bin', 'op': 'plus', 'a': {'k': 'cat', 'name': 'c1', 'ctrl': 'k', 'own': False, 'ms': [
                      ['lin', {'k': 'bin', 'op': 'times', 'a': {'k': 'beta', 'n': 'b1'}, 'b': {'k': 'var', 'n': 'x'}}],
                      ['quad', {'k': 'num', 'v': 5}]]}, 'b': {'k': 'num', 'v': 1}}],
                  ['v', {'k': 'num', 'v': 7}]]},
              'b': {'k': 'cat', 'name': 'c2', 'ctrl': 'k', 'own': False, 'ms': [['lin', {'k': 'var', 'n': 'y'}], ['quad', {'k': 'num', 'v': 9}]]}},
     'betas': {'b1': 2, 'b10': 1, 'b2': -1, 'asc': 3}, 'rows': [{'x': 1, 'y': 4, 'z': 0}, {'x': -2, 'y': 5, 'z': 1}]},
    # names whose alphabetical order differs from appearance order, b10 before b2, empty specification name
    {'expr': {'k': 'bin', 'op': 'times',
              'a': {'k': 'cat', 'name': 'c2', 'ctrl': 'c2', 'own': True, 'ms': [['s2', {'k': 'beta', 'n': 'b2'}], ['s10', {'k': 'beta', 'n': 'b10'}], ['', {'k': 'num', 'v': 3}]]},
              'b': {'k': 'cat', 'name': 'c10', 'ctrl': 'c10', 'own': True, 'ms': [['A', {'k': 'var', 'n': 'z'}]]}},
     'betas': {'b1': 2, 'b10': 5, 'b2': -1, 'asc': 3}, 'rows': [{'x': 1, 'y': 4, 'z': 2}]},
    # above the cap: 5*5*5 = 125 configurations are not enumerated
    {'expr': {'k': 'bin', 'op': 'plus', 'a': {'k': 'bin', 'op': 'plus',
              'a': {'k': 'cat', 'name': 'a', 'ctrl': 'a', 'own': True, 'ms': [[s, {'k': 'num', 'v': i}] for i, s in enumerate(['lin', 'quad', 'log', 's1', 's2'])]},
              'b': {'k': 'cat', 'name': 'a_b', 'ctrl': 'a_b', 'own': True, 'ms': [[s, {'k': 'num', 'v': 10 * i}] for i, s in enumerate(['lin', 'quad', 'log', 's1', 's2'])]}},
              'b': {'k': 'cat', 'name': 'b_c', 'ctrl': 'b_c', 'own': True, 'ms': [[s, {'k': 'var', 'n': 'x'}] for s in ['lin', 'quad', 'log', 's1', 's2']]}},
     'betas': {'b1': 2, 'b10': 5, 'b2': -1, 'asc': 3}, 'rows': [{'x': 1, 'y': 4, 'z': 2}]},
]


def check(ctx) -> Result:
    res = Result(rule=RULE, tolerance='exact (strings, integers; engine values are small integers); estimate_catalog: final log likelihood rel 1e-5')
    LEANRUN.clear()
    run_probes(res)
    base = len(res.violations)  # the probes of the listed findings do not stop the stream
    for c in CORPUS:
        check_case(ctx, res, c, n_configs=ctx.n(12, 125), n_hist=ctx.n(2, 6))
        res.tally('corpus')
    for _ in range(ctx.n(150, 3600)):
        case = gen_case(ctx.rng)
        check_case(ctx, res, case, n_configs=ctx.n(16, 100), n_hist=ctx.n(2, 5))
        if len(res.violations) - base > 5:
            break
    check_modify(ctx, res, ctx.n(300, 5000))
    check_errors(ctx, res, ctx.n(100, 2000))
    check_helpers(ctx, res, ctx.n(12, 200))
    check_construction(ctx, res, ctx.n(45, 500))
    check_estimate(ctx, res, ctx.n(3, 30))
    check_embedding(ctx, res, ctx.n(40, 400))
    check_shared(ctx, res, ctx.n(80, 700))
    check_late(ctx, res, ctx.n(80, 700))
    ctx.batch.flush()
    flush_leanrun(res)
    return res


def search(ctx, res, broken):
    """something broke without a concrete failing input: apply the property oracles alone to a
    widened stream of real runs"""
    rng = core.rng_for('C16-search', ctx.seed)
    sub = types.SimpleNamespace(rng=rng, batch=ctx.batch)
    for _ in range(400):
        r2 = Result()
        try:
            check_case(sub, r2, gen_case(rng), n_configs=30, n_hist=3, model=False)
        except Exception as e:  # noqa: BLE001
            r2.violate(f'the real code raises on a valid catalog structure: {type(e).__name__}: {e}', {}, str(e), 'no error')
        if r2.violations:
            res.violations.extend(r2.violations[:1])
            return
    r2 = Result()
    for _ in range(300):
        oracle_construct(r2, gen_build_case(rng))
        if r2.violations:
            res.violations.extend(r2.violations[:1])
            return
    for _ in range(300):
        c = gen_late_case(rng)
        try:
            run_late(r2, c)
        except Exception as e:  # noqa: BLE001
            r2.violate(f'the real code raises {type(e).__name__}: {e} while catalogs are created between selections', c, str(e), 'no error', where=W_LATE)
        if r2.violations:
            res.violations.extend(r2.violations[:1])
            return
    for _ in range(300):
        c = gen_shared_case(rng)
        try:
            run_shared(r2, c)
        except Exception as e:  # noqa: BLE001
            r2.violate(f'the real code raises {type(e).__name__}: {e} while several formulas on the same catalogs are used in turn', c, str(e), 'no error',
                       where=W_SHARED)
        if r2.violations:
            res.violations.extend(r2.violations[:1])
            return
    for _ in range(150):
        c = gen_embed_case(rng)
        try:
            run_embedding(r2, c)
        except Exception as e:  # noqa: BLE001
            r2.violate(f'the real code raises {type(e).__name__}: {e} while formulas sharing catalogs are used in turn', c, str(e), 'no error', where=W_OWN)
        fresh = [v for v in r2.violations if v.get('where') != W_EMBED]  # the listed finding is not a new failing input
        if fresh:
            res.violations.extend(fresh[:1])
            return
        r2.violations.clear()
    check_modify(sub, r2, 2000)
    check_helpers(sub, r2, 40)
    ctx.batch.items.clear()
    if r2.violations:
        res.violations.extend(r2.violations[:1])


def replay(ctx, obj):
    case = obj.get('case') or {}
    out = {'replayed': obj.get('what')}
    r = Result()
    sub = types.SimpleNamespace(rng=core.rng_for('C16-replay', 0), batch=ctx.batch)
    try:
        if case.get('shape') in ('same_name', 'separator', 'dup_spec'):
            oracle_shape(r, case)
        elif case.get('shape') == 'stale_ids':
            oracle_stale(r, case)
        elif case.get('shape') == 'root_catalog':
            oracle_root(r, case)
        elif case.get('shape') == 'construct':
            oracle_construct(r, case)
        elif case.get('shape') == 'shared':
            run_shared(r, case)
        elif case.get('shape') == 'late':
            run_late(r, case)
        elif case.get('shape') == 'embedded':
            run_embedding(r, {k: v for k, v in case.items() if k not in ('step', 'formula')})
        elif case.get('shape') == 'estimate':
            o = core.run_isolated('props.c16', 'isolated_estimate', {'cases': [{k: v for k, v in case.items() if k not in ('config', 'chosen')}]})
            r.violations.extend(v for c in o.get('cases', []) for v in c['violations'])
        elif case.get('shape') == 'helper':
            out.update({'property_fails': None, 'note': 'helper cases are replayed by re-running the check with the stored seed'})
            return out
        elif 'expr' in case and 'events' in case:
            run_population(r, {k: case[k] for k in ('expr', 'decl', 'betas', 'rows') if k in case}, case['members'], case['events'])
        elif 'expr' in case:
            check_case(sub, r, {k: case[k] for k in ('expr', 'decl', 'betas', 'rows') if k in case}, n_configs=125, n_hist=6, model=False)
        elif 'specs' in case:
            L = lib()
            c = L.Controller('m', case['specs'])
            c.set_index(case['cur'])
            c.modify_controller(step=case['step'], circular=case['circular'])
            size = len(case['specs'])
            want = (case['cur'] + case['step']) % size if case['circular'] else min(max(case['cur'] + case['step'], 0), size - 1)
            if c.current_index != want:
                r.violate('modify_controller selects the wrong index', case, c.current_index, want)
        else:
            out.update({'property_fails': False, 'note': 'nothing to replay (no concrete input in this file)'})
            return out
    except Exception as e:  # noqa: BLE001
        r.violate(f'raises {type(e).__name__}: {e}', case, str(e), 'no error')
    ctx.batch.items.clear()
    out.update({'property_fails': bool(r.violations), 'violations': r.violations[:3]})
    return out
