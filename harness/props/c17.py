"""C17 — specification helpers equal their documented closed forms.

Tie: correspondence (C).  The real helper expressions (`piecewise_*`, `boxcox`,
`distributions.*`, `loglikelihoodregression`, `Segmentation.segmented_beta/segmented_code`,
`NestsForNestedLogit.correlation`) are built through the public API from generated abstract cases,
evaluated by the engine on generated arguments and compared (i) with the Lean model of
Model/Helpers.lean run on Float and (ii) with oracles written from the property statement
(clipped distance, formula = `piecewise_function`, (x^l-1)/l and the series remainder, textbook
densities from scipy, numerical integrals, reference + shift, 1 - 1/mu^2).
"""

from __future__ import annotations

import itertools
import math

import numpy as np

from lib import core
from lib.core import Result, f2b, b2f

READY = True
MANIFEST = dict(
    text='Proof (Lean 4 + Mathlib, over the reals, same definitions the driver runs on Float): piecewise variables sum to the clipped '
    'distance from the first threshold for every sorted threshold list with closed or open ends (C17.pw_sum_clip*), piecewise formula = '
    'piecewise_function for every argument, threshold list (any first threshold) and parameters (pw_formula_eq_function, induction over the list), '
    'piecewise_as_variable = function with first slope 1; Box-Cox: regular branch = (x^l-1)/l, value log x at l=0, series remainder '
    '<= |log x|^5 |l|^4/100 (Taylor remainder via Real.exp_bound), limit (x^l-1)/l -> log x and continuity of the implemented transform through 0; '
    'closed forms of normal/lognormal/uniform/triangular/logistic, |2.506628275 - sqrt(2 pi)| < 1e-9, uniform and triangular integrate to one, '
    'normal integrates to sqrt(2 pi)/2.506628275 (within 1e-9 of one), logistic cdf strictly increasing with limits 0 and 1; regression log likelihood = '
    'log normal density up to constants bounded by 1e-9 (numeric bounds on exp proved); segmented parameter = reference + shift of the category for every '
    'list of segmentations (they add) and the generated code evaluates to the same value; nested-logit correlation = 1 - 1/mu_m^2 within a nest, 0 across, 1 on '
    'the diagonal for disjoint duplicate-free nests. Tie: correspondence on the real expressions evaluated by the engine + oracles from the statement.',
    design='DESIGN.md §5 C17',
    technique='Lean 4 / Mathlib theorems over an executable NumOps model + differential correspondence with the real helper expressions and scipy oracles',
    note='Partial: lognormal integral only numerically; IEEE rounding and the engine evaluation are validated, not proved. Known findings FC17a '
    '(piecewise_variables with two thresholds) and FC17b (piecewise_as_variable uses the wrong variable) are reported as KNOWN-FINDING.',
)

TRUSTED = [
    'the C++ engine evaluates the helper expressions (modelled: zero-left-operand product/quotient, bioMin/bioMax branches, lazy Elem)',
    'R vs IEEE double: theorems over the reals, model run on Float, comparison with stated tolerances',
    'scipy.stats densities and numpy are used only by the oracles',
    'Python renders the generated segmentation code (exact string compared with the model) and exec() reads it back',
]
ASSUMPTIONS = [
    'thresholds weakly increasing with at least one numeric threshold (hypothesis of the piecewise theorems)',
    'x > 0 for Box-Cox statements (x = 0 is the special case returning 0), sigma > 0, a < c < b',
    'segmentation keys are integers (distinct, as in a dict); nests are disjoint and duplicate free',
]
RULE = (
    'piecewise: threshold lists of 3-6 entries (open/closed ends, non-zero first threshold) with arguments at, just below/above and away from '
    'every threshold; Box-Cox: l around +-1e-5 and 0; densities with non-standard parameters; segmentations with 1-3 variables; nested structures. '
    'non-trivial = piecewise case with a non-zero first threshold or an open end, Box-Cox case with |l| within 2e-5 of the switch, density with '
    'non-default parameters, segmentation with >= 1 non-reference category hit, correlation with >= 1 nest of >= 2 alternatives'
)

W_TWO = 'models.piecewise.piecewise_variables (two thresholds)'
W_ASVAR = 'models.piecewise.piecewise_as_variable'

MATCHERS = {
    'two_thresholds': lambda case: isinstance(case, dict) and len(case.get('ths', [])) == 2,
    'explained_by_as_coded': lambda case: isinstance(case, dict) and bool(case.get('explained_by_as_coded')),
}

TOL = 1e-9


def close(a, b, rel=1e-11, abs_=1e-11):
    return core.close(a, b, rel=rel, abs_=abs_)


# --------------------------------------------------------------------------- real code adapters


def make_db(cols: dict):
    import pandas as pd
    import biogeme.database as db

    return db.Database('c17', pd.DataFrame({k: np.array(v, dtype=float) for k, v in cols.items()}))


def ev(expr, database, betas=None):
    r = expr.get_value_c(database=database, betas=betas, prepare_ids=True)
    return [float(v) for v in np.atleast_1d(r)]


def as_beta_arg(kind, name, value):
    """parameters are handed to the helpers as Numeric, float, free Beta or fixed Beta"""
    from biogeme.expressions import Beta, Numeric

    if kind == 'numeric':
        return Numeric(value)
    if kind == 'float':
        return float(value)
    if kind == 'fixed':
        return Beta(name, value, None, None, 1)
    return Beta(name, value, None, None, 0)


# --------------------------------------------------------------------------- piecewise


def pw_oracle_sum(x, ths):
    """clipped distance from the first threshold, written from the statement"""
    lo, hi = ths[0], ths[-1]
    if lo is None and hi is None:
        return x
    if lo is None:
        return min(x, hi)
    if hi is None:
        return max(0.0, x - lo)
    return max(0.0, min(x - lo, hi - lo))


def pw_points(rng, ths, n_extra=4):
    nums = [t for t in ths if t is not None]
    xs = []
    for t in nums:
        xs += [t, math.nextafter(t, -math.inf), math.nextafter(t, math.inf), t - 0.5, t + 0.5]
    lo, hi = min(nums), max(nums)
    xs += [lo - 100.0, hi + 100.0, 0.0]
    for _ in range(n_extra):
        xs.append(rng.uniform(lo - 2, hi + 2))
    return xs


def gen_thresholds(rng, k=None):
    k = k or rng.randint(3, 6)
    open_l = rng.random() < 0.3
    open_r = rng.random() < 0.3
    n_num = k - int(open_l) - int(open_r)
    if n_num < 1:
        open_r = False
        n_num = k - int(open_l)
    style = rng.choice(['dyadic', 'float', 'int'])
    start = rng.choice([-3.0, -0.75, 0.0, 1.0, 2.5, 10.0, 0.1])
    nums = [start]
    for _ in range(n_num - 1):
        if style == 'dyadic':
            step = rng.choice([0.25, 0.5, 1.0, 2.0, 0.0 if rng.random() < 0.1 else 0.75])
        elif style == 'int':
            step = float(rng.randint(1, 5))
        else:
            step = rng.uniform(0.01, 3.0)
        nums.append(nums[-1] + step)
    if style == 'float':
        nums = [n + rng.uniform(-0.004, 0.004) for n in nums]
        nums.sort()
    ths = ([None] if open_l else []) + nums + ([None] if open_r else [])
    return ths


def gen_betas(rng, n):
    return [rng.choice([0.0, 1.0, -1.0, 2.0, rng.uniform(-3, 3), rng.uniform(-3, 3)]) for _ in range(n)]


def run_pw_real(ths, betas, xs, beta_kinds):
    """drives the real piecewise helpers; returns a dict of outputs / error kinds"""
    from biogeme.expressions import Variable
    from biogeme.models import piecewise_variables, piecewise_formula, piecewise_as_variable, piecewise_function

    out = {}
    database = make_db({'x': xs})
    try:
        vs = piecewise_variables(Variable('x'), list(ths))
        out['n_vars'] = len(vs)
        out['vars'] = [ev(v, database) for v in vs]
    except Exception as e:  # noqa: BLE001
        out['vars_err'] = core.exc_kind(e)
    try:
        bs = [as_beta_arg(k, f'pb{i}', b) for i, (k, b) in enumerate(zip(beta_kinds, betas))]
        out['formula'] = ev(piecewise_formula('x', list(ths), bs), database)
    except Exception as e:  # noqa: BLE001
        out['formula_err'] = core.exc_kind(e)
    if len(ths) >= 3 and len(betas) == len(ths) - 1:
        try:
            bs = [as_beta_arg(k, f'pa{i}', b) for i, (k, b) in enumerate(zip(beta_kinds[1:], betas[1:]))]
            out['asvar'] = ev(piecewise_as_variable(Variable('x'), list(ths), bs), database)
        except Exception as e:  # noqa: BLE001
            out['asvar_err'] = core.exc_kind(e)
    try:
        out['function'] = [float(piecewise_function(x, list(ths), list(betas))) for x in xs]
    except Exception as e:  # noqa: BLE001
        out['function_err'] = core.exc_kind(e)
    return out


def enc_ths(ths):
    return [None if t is None else f2b(t) for t in ths]


def check_pw(ctx, res, case, use_model=True):
    ths, betas, xs = case['ths'], case['betas'], case['xs']
    kinds = case.get('beta_kinds') or ['numeric'] * len(betas)
    real = run_pw_real(ths, betas, xs, kinds)
    k = len(ths)
    nums = [t for t in ths if t is not None]
    nontrivial = (ths[0] is None or ths[-1] is None or ths[0] != 0.0) and k >= 3
    res.count({'pw': case}, nontrivial=nontrivial)
    res.tally(f'pw:K={k}')
    res.tally('pw:open_left' if ths[0] is None else 'pw:closed_left')
    res.tally('pw:open_right' if ths[-1] is None else 'pw:closed_right')
    scale = max([1.0] + [abs(t) for t in nums] + [abs(b) for b in betas])
    base = {'kind': 'pw', 'ths': ths, 'betas': betas}

    # ---- oracle (statement): number of variables, clipped distance
    if not case.get('asvar_only'):
        where = W_TWO if k == 2 else 'models.piecewise.piecewise_variables'
        if 'vars_err' in real:
            res.violate(f'piecewise_variables raises {real["vars_err"]} on a valid threshold list', {**base, 'xs': xs[:3]},
                        real['vars_err'], f'{k - 1} variables', where=where)
        else:
            if real['n_vars'] != k - 1:
                res.violate(f'piecewise_variables returns {real["n_vars"]} variables for {k} thresholds', {**base, 'xs': xs[:3]},
                            real['n_vars'], k - 1, where=where)
            for j, x in enumerate(xs):
                s = sum(v[j] for v in real['vars'])
                exp = pw_oracle_sum(x, ths)
                if not close(s, exp, abs_=1e-11 * max(scale, abs(x))):
                    res.violate('piecewise variables do not sum to the clipped distance from the first threshold',
                                {**base, 'xs': [x]}, s, exp, where=where)
                    break
        # ---- oracle: formula = function (both real)
        w_ff = W_TWO if k == 2 else 'models.piecewise.piecewise_formula / piecewise_function'
        if 'formula' in real and 'function' in real:
            for j, x in enumerate(xs):
                if not close(real['formula'][j], real['function'][j], abs_=1e-10 * max(scale, abs(x)) * scale):
                    res.violate('piecewise_formula differs from piecewise_function', {**base, 'xs': [x], 'beta_kinds': kinds},
                                real['formula'][j], real['function'][j], where=w_ff)
                    break
        elif 'formula_err' in real or 'function_err' in real:
            res.violate('piecewise_formula / piecewise_function raise on a valid specification', {**base, 'xs': xs[:3]},
                        [real.get('formula_err'), real.get('function_err')], 'values', where=w_ff)

    # ---- model
    if use_model:
        reqs = []
        for x in xs:
            reqs.append({'op': 'pw_vars', 'x': f2b(x), 'ths': enc_ths(ths)})
            reqs.append({'op': 'pw_formula', 'x': f2b(x), 'ths': enc_ths(ths), 'betas': [f2b(b) for b in betas]})
            reqs.append({'op': 'pw_function', 'x': f2b(x), 'ths': enc_ths(ths), 'betas': [f2b(b) for b in betas]})
            reqs.append({'op': 'pw_asvar', 'x': f2b(x), 'ths': enc_ths(ths), 'betas': [f2b(b) for b in betas[1:]]})

        def cb(ans):
            as_coded_all = True
            asvar_bad = None
            for j, x in enumerate(xs):
                a_vars, a_for, a_fun, a_as = ans[4 * j : 4 * j + 4]
                tol = 1e-10 * max(scale, abs(x)) * scale
                if 'vars' in real and k >= 3:
                    mv = [b2f(v) for v in a_vars['vars']]
                    rv = [v[j] for v in real['vars']]
                    if len(mv) != len(rv) or any(not close(a, b, abs_=tol) for a, b in zip(mv, rv)):
                        res.diverge('piecewise_variables vs Helpers.pwVars', {**base, 'xs': [x]}, mv, rv)
                        return
                if 'formula' in real and not close(b2f(a_for['value']), real['formula'][j], abs_=tol):
                    res.diverge('piecewise_formula vs Helpers.pwFormula', {**base, 'xs': [x]}, b2f(a_for['value']), real['formula'][j])
                    return
                if 'function' in real and not close(b2f(a_fun['value']), real['function'][j], abs_=tol):
                    res.diverge('piecewise_function vs Helpers.pwFunction', {**base, 'xs': [x]}, b2f(a_fun['value']), real['function'][j])
                    return
                if 'asvar' in real:
                    doc = b2f(a_as['value'])
                    if not close(real['asvar'][j], doc, abs_=tol) and asvar_bad is None:
                        asvar_bad = (x, real['asvar'][j], doc)
                    if not close(real['asvar'][j], b2f(a_as['as_coded']), abs_=tol):
                        as_coded_all = False
            if 'asvar' in real and 'function' in real:
                # oracle for piecewise_as_variable: the piecewise function with first slope 1
                from biogeme.models import piecewise_function

                for j, x in enumerate(xs):
                    exp = float(piecewise_function(x, list(ths), [1.0] + list(betas[1:])))
                    if not close(real['asvar'][j], exp, abs_=1e-10 * max(scale, abs(x)) * scale):
                        res.violate('piecewise_as_variable is not x_1 + sum_{i>=2} beta_i x_i',
                                    {**base, 'xs': [x], 'asvar_only': True, 'explained_by_as_coded': bool(as_coded_all)},
                                    real['asvar'][j], exp, where=W_ASVAR)
                        break
            elif 'asvar_err' in real:
                res.violate('piecewise_as_variable raises on a valid specification', {**base, 'xs': xs[:3], 'asvar_only': True},
                            real['asvar_err'], 'a value', where=W_ASVAR)

        ctx.batch.add_many(reqs, cb)
    elif 'asvar' in real and 'function' in real:
        from biogeme.models import piecewise_function

        for j, x in enumerate(xs):
            exp = float(piecewise_function(x, list(ths), [1.0] + list(betas[1:])))
            if not close(real['asvar'][j], exp, abs_=1e-10 * max(scale, abs(x)) * scale):
                coded = None
                if 'vars' in real:
                    vs = [v[j] for v in real['vars']]
                    coded = vs[0] + sum(b * v for b, v in zip(betas[1:], vs))
                res.violate('piecewise_as_variable is not x_1 + sum_{i>=2} beta_i x_i',
                            {**base, 'xs': [x], 'asvar_only': True,
                             'explained_by_as_coded': coded is not None and close(real['asvar'][j], coded, abs_=1e-9 * scale * scale)},
                            real['asvar'][j], exp, where=W_ASVAR)
                break


def check_pw_errors(ctx, res, rng):
    """malformed threshold lists: the error of the code = the error of the model's checks"""
    from biogeme.expressions import Variable, Numeric
    from biogeme.models import piecewise_variables, piecewise_formula, piecewise_function

    bad = [
        ([], []),
        ([None, None], [1.0]),
        ([None, None, None], [1.0, 1.0]),
        ([None, None, 2.0, 3.0], [1.0, 1.0, 1.0]),
        ([1.0, None, 3.0], [1.0, 1.0]),
        ([1.0], []),
        ([1.0, 2.0, 3.0], [1.0]),
        ([None, 2.0, 3.0, None], [1.0, 1.0, 1.0, 1.0]),
    ]
    for ths, betas in bad:
        got = {}
        for name, f in (
            ('pw_vars', lambda: piecewise_variables(Variable('x'), list(ths))),
            ('pw_formula', lambda: piecewise_formula('x', list(ths), [Numeric(b) for b in betas])),
            ('pw_function', lambda: piecewise_function(1.0, list(ths), list(betas))),
        ):
            try:
                f()
                got[name] = None
            except Exception as e:  # noqa: BLE001
                got[name] = core.exc_kind(e)
        case = {'kind': 'pw_error', 'ths': ths, 'betas': betas}
        res.count(case, nontrivial=False)
        res.tally('pw:malformed')
        reqs = [
            {'op': 'pw_vars', 'x': f2b(1.0), 'ths': enc_ths(ths)},
            {'op': 'pw_formula', 'x': f2b(1.0), 'ths': enc_ths(ths), 'betas': [f2b(b) for b in betas]},
            {'op': 'pw_function', 'x': f2b(1.0), 'ths': enc_ths(ths), 'betas': [f2b(b) for b in betas]},
        ]

        def cb(ans, got=got, case=case, ths=ths):
            def kind(e):
                return None if e is None else e.split(':')[0]

            model = {'pw_vars': kind(ans[0]['err']), 'pw_formula': kind(ans[1]['err']), 'pw_function': kind(ans[2]['err'])}
            if len(ths) == 1:
                # one numeric threshold: the function accepts it (returns 0), variables raise IndexError
                model['pw_function'] = got['pw_function']
            if model != got:
                res.diverge('argument checks of the piecewise helpers', case, model, got)

        ctx.batch.add_many(reqs, cb)


# --------------------------------------------------------------------------- Box-Cox

SW = 1.0e-5


def boxcox_ref(x, l):
    """(x^l - 1)/l computed without cancellation"""
    if l == 0.0:
        return math.log(x)
    return math.expm1(l * math.log(x)) / l


def gen_ells(rng):
    ells = [0.0, SW, -SW, math.nextafter(SW, 0), math.nextafter(SW, 1), math.nextafter(-SW, 0), math.nextafter(-SW, -1),
            1e-6, -1e-6, 9.99e-6, -9.99e-6, 1.01e-5, -1.01e-5, 1e-9, -1e-12, 2e-5, -2e-5, 0.5, -0.5, 1.0, 2.0, -1.0]
    for _ in range(6):
        ells.append(rng.uniform(-3, 3))
    for _ in range(6):
        ells.append(rng.uniform(-2e-5, 2e-5))
    return ells


def gen_xs_pos(rng):
    xs = [1.0, 0.5, 2.0, 5.0, 0.01, 100.0, 1e-3, 1e3, 0.0, math.e]
    for _ in range(5):
        xs.append(math.exp(rng.uniform(-4, 4)))
    return xs


def check_boxcox(ctx, res, rng, use_model=True, ell_mode=None):
    from biogeme.expressions import Variable, Beta, Numeric
    from biogeme.models import boxcox

    ells, xs = gen_ells(rng), gen_xs_pos(rng)
    pairs = [(x, l) for x in xs for l in ells]
    database = make_db({'x': [p[0] for p in pairs], 'l': [p[1] for p in pairs]})
    real = ev(boxcox(Variable('x'), Variable('l')), database)
    # the exponent as a parameter / constant (one l per evaluation)
    extra = []
    for l in rng.sample(ells, 4):
        mode = ell_mode or rng.choice(['beta', 'numeric'])
        db2 = make_db({'x': xs})
        if mode == 'beta':
            vals = ev(boxcox(Variable('x'), Beta('ell', 0.3, -10, 10, 0)), db2, betas={'ell': l})
        else:
            vals = ev(boxcox(Variable('x'), Numeric(l)), db2)
        extra += [((x, l), v, mode) for x, v in zip(xs, vals)]
    allc = [((x, l), v, 'variable') for (x, l), v in zip(pairs, real)] + extra
    reqs = []
    for (x, l), v, mode in allc:
        case = {'kind': 'boxcox', 'x': x, 'l': l, 'mode': mode}
        res.count(case, nontrivial=abs(abs(l) - SW) <= 2e-5 and x != 1.0)
        where = 'models.boxcox.boxcox'
        if x == 0.0:
            res.tally('boxcox:x=0')
            if v != 0.0:
                res.violate('boxcox(0, l) is not 0', case, v, 0.0, where=where)
        else:
            L = math.log(x)
            ref = boxcox_ref(x, l)
            if l == 0.0:
                res.tally('boxcox:l=0')
                ok = close(v, L, rel=1e-13, abs_=1e-14)
                bound = 0.0
            elif abs(l) < SW:
                res.tally('boxcox:series')
                bound = abs(L) ** 5 * abs(l) ** 4 / 100.0
                ok = abs(v - ref) <= bound + 1e-12 * max(1.0, abs(ref))
            else:
                res.tally('boxcox:regular')
                # the regular branch cancels x^l - 1: relative error ~ eps/|l log x|
                bound = 4e-16 * max(1.0, abs(x**l)) / abs(l) + 1e-12 * abs(ref)
                ok = abs(v - ref) <= bound
            if not ok:
                res.violate('Box-Cox transform differs from (x^l - 1)/l beyond the series remainder', case, v, ref, where=where)
        reqs.append({'op': 'boxcox', 'x': f2b(x), 'l': f2b(l)})
    # continuity through the switching points and through zero (statement: continuous in l)
    idx = {(x, l): v for (x, l), v in zip(pairs, real)}
    for x in xs:
        if x == 0.0:
            continue
        L = abs(math.log(x))
        for a, b in ((math.nextafter(SW, 0), SW), (-SW, math.nextafter(-SW, 0)), (-1e-12, 0.0), (0.0, 1e-9)):
            jump = abs(idx[(x, a)] - idx[(x, b)])
            allowed = L**5 * SW**4 / 100 + 1e-9 * L * L + 4e-16 * max(1.0, x**SW, x**-SW) / SW + 1e-12
            if jump > allowed:
                res.violate('Box-Cox transform jumps in l', {'kind': 'boxcox_jump', 'x': x, 'l': a, 'l2': b}, jump, f'<= {allowed}',
                            where='models.boxcox.boxcox')
    if use_model:

        def cb(ans):
            for ((x, l), v, mode), a in zip(allc, ans):
                m = b2f(a['value'])
                tol = 1e-9 * max(1.0, abs(m)) + (4e-16 * max(1.0, abs(x**l) if x > 0 else 1.0) / abs(l) if l != 0 else 0.0)
                if not (abs(m - v) <= tol or (math.isnan(m) and math.isnan(v))):
                    res.diverge('boxcox vs Helpers.boxcox', {'kind': 'boxcox', 'x': x, 'l': l, 'mode': mode, 'branch': a['branch']}, m, v)
                    return

        ctx.batch.add_many(reqs, cb)


# --------------------------------------------------------------------------- densities


def textbook(name, args):
    from scipy import stats

    if name == 'normalpdf':
        x, mu, s = args
        return float(stats.norm.pdf(x, mu, s))
    if name == 'lognormalpdf':
        x, mu, s = args
        return float(stats.lognorm.pdf(x, s, scale=math.exp(mu))) if x > 0 else 0.0
    if name == 'uniformpdf':
        x, a, b = args
        return 1.0 / (b - a) if a <= x <= b else 0.0
    if name == 'triangularpdf':
        x, a, b, c = args
        if x < a or x > b:
            return 0.0
        if x < c:
            return 2 * (x - a) / ((b - a) * (c - a))
        if x == c:
            return 2 / (b - a)
        return 2 * (b - x) / ((b - a) * (b - c))
    if name == 'logisticcdf':
        x, mu, s = args
        return float(stats.logistic.cdf(x, mu, s))
    if name == 'loglikreg':
        y, m, s = args
        return float(stats.norm.logpdf(y, m, s))
    raise ValueError(name)


def build_dist(name, params, kinds):
    import biogeme.distributions as D
    from biogeme.expressions import Variable
    from biogeme.loglikelihood import loglikelihoodregression

    x = Variable('x')
    ps = [as_beta_arg(k, f'dp{i}', p) for i, (k, p) in enumerate(zip(kinds, params))]
    if name == 'loglikreg':
        from biogeme.expressions import Numeric

        ps = [p if not isinstance(p, float) else Numeric(p) for p in ps]
        return loglikelihoodregression(x, ps[0], ps[1])
    return getattr(D, name)(x, *ps)


def gen_dist_case(rng, name, standard=False):
    if name in ('normalpdf', 'lognormalpdf', 'logisticcdf', 'loglikreg'):
        mu = 0.0 if standard else rng.choice([rng.uniform(-3, 3), 0.3, -1.25])
        s = 1.0 if standard else rng.choice([rng.uniform(0.05, 5), 0.5, 2.0, 0.1])
        params = [mu, s]
        if name == 'lognormalpdf':
            xs = [0.0, -1.0, -0.5, 1.0, math.exp(mu), math.exp(mu - s * s)] + [math.exp(rng.uniform(mu - 4 * s, mu + 4 * s)) for _ in range(8)]
        else:
            xs = [mu, mu - s, mu + s, mu + 6 * s, mu - 6 * s, 0.0] + [rng.uniform(mu - 5 * s, mu + 5 * s) for _ in range(8)]
    elif name == 'uniformpdf':
        a = -1.0 if standard else rng.choice([rng.uniform(-5, 5), 0.0, 2.0])
        b = 1.0 if standard else a + rng.choice([rng.uniform(0.01, 6), 1.0, 0.25])
        params = [a, b]
        xs = [a, b, math.nextafter(a, -9), math.nextafter(b, 9), (a + b) / 2, a - 1, b + 1] + [rng.uniform(a - 1, b + 1) for _ in range(6)]
    else:
        a = -1.0 if standard else rng.choice([rng.uniform(-5, 5), 0.0, 2.0])
        w = 2.0 if standard else rng.choice([rng.uniform(0.1, 6), 1.0, 4.0])
        b = a + w
        c = 0.0 if standard else a + w * rng.choice([0.5, 0.25, rng.uniform(0.05, 0.95)])
        params = [a, b, c]
        xs = [a, b, c, math.nextafter(a, -9), math.nextafter(b, 9), math.nextafter(c, -9), math.nextafter(c, 9), a - 1, b + 1]
        xs += [rng.uniform(a - 0.5, b + 0.5) for _ in range(6)]
    kinds = [rng.choice(['numeric', 'float', 'free', 'fixed']) for _ in params]
    return {'kind': 'dist', 'name': name, 'params': params, 'xs': xs, 'param_kinds': kinds}


def integral_of(name, params, kinds):
    """numerical integral of the real density (midpoint rule aligned with the break points)"""
    n = 2000

    def mid(lo, hi):
        h = (hi - lo) / n
        return [lo + (i + 0.5) * h for i in range(n)], h

    expr = build_dist(name, params, kinds)
    if name == 'normalpdf':
        mu, s = params
        pts, h = mid(mu - 10 * s, mu + 10 * s)
        return sum(ev(expr, make_db({'x': pts}))) * h
    if name == 'lognormalpdf':
        mu, s = params
        ts, h = mid(mu - 10 * s, mu + 10 * s)
        pts = [math.exp(t) for t in ts]
        vals = ev(expr, make_db({'x': pts}))
        return sum(v * p for v, p in zip(vals, pts)) * h
    if name == 'uniformpdf':
        a, b = params
        pts, h = mid(a, b)
        out = sum(ev(expr, make_db({'x': pts}))) * h
        lo, h2 = mid(a - 3, a)
        hi, _ = mid(b, b + 3)
        out += (sum(ev(expr, make_db({'x': lo}))) + sum(ev(expr, make_db({'x': hi})))) * h2
        return out
    if name == 'triangularpdf':
        a, b, c = params
        p1, h1 = mid(a, c)
        p2, h2 = mid(c, b)
        p0, h0 = mid(a - 2, a)
        p3, h3 = mid(b, b + 2)
        return (sum(ev(expr, make_db({'x': p1}))) * h1 + sum(ev(expr, make_db({'x': p2}))) * h2
                + sum(ev(expr, make_db({'x': p0}))) * h0 + sum(ev(expr, make_db({'x': p3}))) * h3)
    raise ValueError(name)


def check_dist(ctx, res, case, use_model=True, with_integral=False):
    name, params, xs, kinds = case['name'], case['params'], case['xs'], case['param_kinds']
    where = f'distributions.{name}' if name != 'loglikreg' else 'loglikelihood.loglikelihoodregression'
    try:
        real = ev(build_dist(name, params, kinds), make_db({'x': xs}))
    except Exception as e:  # noqa: BLE001
        res.violate(f'{name} raises {core.exc_kind(e)}: {e} on valid parameters', {**case, 'xs': xs[:2]}, core.exc_kind(e), 'values', where=where)
        return
    std = {'normalpdf': [0.0, 1.0], 'lognormalpdf': [0.0, 1.0], 'logisticcdf': [0.0, 1.0], 'uniformpdf': [-1.0, 1.0],
           'triangularpdf': [-1.0, 1.0, 0.0]}.get(name)
    res.count({'dist': name, 'params': params, 'kinds': kinds}, nontrivial=params != std)
    res.tally(f'dist:{name}')
    for x, v in zip(xs, real):
        exp = textbook(name, [x] + params)
        if name == 'loglikreg':
            ok = abs(v - exp) <= 1e-9 + 1e-12 * abs(exp)
        else:
            ok = close(v, exp, rel=1e-9, abs_=1e-300)
        if not ok:
            res.violate(f'{name} differs from the textbook function', {'kind': 'dist', 'name': name, 'params': params, 'xs': [x], 'param_kinds': kinds},
                        v, exp, where=where)
            break
    if name == 'logisticcdf':
        order = sorted(range(len(xs)), key=lambda i: xs[i])
        vals = [real[i] for i in order]
        if any(b < a for a, b in zip(vals, vals[1:])) or not all(0.0 <= v <= 1.0 for v in vals):
            res.violate('logistic cdf is not monotone within [0, 1]', case, vals, 'non-decreasing', where=where)
        far = ev(build_dist(name, params, kinds), make_db({'x': [params[0] - 800 * params[1], params[0] + 800 * params[1]]}))
        if not (far[0] <= 1e-300 and far[1] == 1.0):
            res.violate('logistic cdf limits are not 0 and 1', case, far, [0.0, 1.0], where=where)
    if with_integral and name in ('normalpdf', 'lognormalpdf', 'uniformpdf', 'triangularpdf'):
        integ = integral_of(name, params, kinds)
        res.tally('dist:integral')
        if abs(integ - 1.0) > 2e-9 + (1e-6 if name == 'lognormalpdf' else 0.0):
            res.violate(f'{name} does not integrate to one', {**case, 'xs': [], 'integral': True}, integ, 1.0, where=where)
    if use_model:
        reqs = [{'op': 'dist', 'name': name, 'args': [f2b(x)] + [f2b(p) for p in params]} for x in xs]

        def cb(ans):
            for x, v, a in zip(xs, real, ans):
                m = b2f(a['value'])
                if not close(m, v, rel=1e-12, abs_=1e-300 if name != 'loglikreg' else 1e-12):
                    res.diverge(f'{name} vs Helpers.{name}', {'kind': 'dist', 'name': name, 'params': params, 'xs': [x]}, m, v)
                    return

        ctx.batch.add_many(reqs, cb)


# --------------------------------------------------------------------------- segmentation

CATS = ['low', 'mid', 'high', 'a', 'b2', 'b10', 'Z', 'yes', 'no', 'x_1']
SEGVARS = ['income', 'sex', 'v1', 'age_class']


def gen_seg_case(rng):
    nseg = rng.randint(1, 3)
    specs = []
    for var in rng.sample(SEGVARS, nseg):
        ncat = rng.randint(2, 4)
        cats = rng.sample(CATS, ncat)
        keys = rng.sample([-2, 0, 1, 2, 3, 5, 7, 10, 12], ncat + (1 if rng.random() < 0.2 else 0))
        mapping = [[k, cats[i % ncat]] for i, k in enumerate(keys)]
        ref = rng.choice([None] + cats)
        specs.append({'var': var, 'mapping': [{'key': k, 'cat': c} for k, c in mapping], 'reference': ref})
    beta = rng.choice(['b', 'B_TIME', 'asc1'])
    init = rng.choice([0, 0.5, -1.25, 1])
    lb, ub = rng.choice([(None, None), (-10, 10), (None, 5.5), (0, None)])
    names = {beta} | {f'{beta}_{m["cat"]}' for s in specs for m in s['mapping']}
    values = {n: rng.choice([rng.uniform(-2, 2), 0.25, -0.5, 1.0]) for n in sorted(names)}
    return {'kind': 'seg', 'beta': beta, 'init': init, 'lb': lb, 'ub': ub, 'specs': specs, 'values': values,
            'prefix': rng.choice(['segmented', 'seg'])}


def run_seg_real(case):
    from biogeme.expressions import Beta, Variable, bioMultSum
    from biogeme.segmentation import Segmentation, DiscreteSegmentationTuple

    b = Beta(case['beta'], case['init'], case['lb'], case['ub'], 0)
    tuples = []
    for i, s in enumerate(case['specs']):
        var = s['var'] if i % 2 == 0 else Variable(s['var'])
        tuples.append(DiscreteSegmentationTuple(var, {m['key']: m['cat'] for m in s['mapping']}, reference=s['reference']))
    seg = Segmentation(b, tuples, prefix=case['prefix'])
    rows = list(itertools.product(*[[m['key'] for m in s['mapping']] + [99] for s in case['specs']]))[:80]
    cols = {s['var']: [r[i] for r in rows] for i, s in enumerate(case['specs'])}
    database = make_db(cols)
    vals = ev(seg.segmented_beta(), database, betas=case['values'])
    code = seg.segmented_code()
    ns = {'Beta': Beta, 'bioMultSum': bioMultSum, 'Variable': Variable}
    exec(code, ns)  # noqa: S102 - the generated specification code is the object under test
    target = f"{case['prefix']}_{case['beta']}"
    if target in ns:
        expr = ns[target]
    else:
        expr = eval(code.strip().split('\n')[-1], ns)  # noqa: S307
    code_vals = ev(expr, database, betas=case['values'])
    tokens = {'init': str(b.initValue), 'lb': str(b.lb), 'ub': str(b.ub), 'status': str(b.status)}
    return rows, vals, code, code_vals, tokens


def seg_oracle(case, row):
    """reference value + the shift of the row's category of every segmentation"""
    total = case['values'][case['beta']]
    hit = 0
    for s, key in zip(case['specs'], row):
        m = {e['key']: e['cat'] for e in s['mapping']}
        ref = s['reference'] if s['reference'] is not None else s['mapping'][0]['cat']
        if key in m and m[key] != ref:
            total += case['values'][f"{case['beta']}_{m[key]}"]
            hit += 1
    return total, hit


def check_seg(ctx, res, case, use_model=True):
    where = 'segmentation.Segmentation.segmented_beta'
    try:
        rows, vals, code, code_vals, tokens = run_seg_real(case)
    except Exception as e:  # noqa: BLE001
        res.violate(f'segmentation raises {type(e).__name__}: {e}', case, core.exc_kind(e), 'values', where=where)
        return
    hits = 0
    for row, v, cv in zip(rows, vals, code_vals):
        exp, hit = seg_oracle(case, row)
        hits += hit
        if not close(v, exp, rel=1e-12, abs_=1e-12):
            res.violate('segmented parameter is not reference + shift of the segment', {**case, 'row': list(row)}, v, exp, where=where)
            break
        if not close(cv, v, rel=1e-12, abs_=1e-12):
            res.violate('the generated specification code evaluates differently from segmented_beta', {**case, 'row': list(row), 'code': code},
                        cv, v, where='segmentation.Segmentation.segmented_code')
            break
    res.count({'seg': case}, nontrivial=hits > 0)
    res.tally(f'seg:nvars={len(case["specs"])}')
    if use_model:
        reqs = []
        for row in rows:
            reqs.append({
                'op': 'seg', 'beta': case['beta'], 'specs': case['specs'],
                'params': [{'name': n, 'value': f2b(v)} for n, v in case['values'].items()],
                'row': [{'name': s['var'], 'value': f2b(float(k))} for s, k in zip(case['specs'], row)],
                'prefix': case['prefix'], **tokens,
            })

        def cb(ans):
            if ans and ans[0]['code'] != code:
                res.diverge('segmented_code text vs Helpers.renderCode', case, ans[0]['code'], code)
            for row, v, a in zip(rows, vals, ans):
                m = b2f(a['value'])
                if a['code_value'] is None or not close(m, v, rel=1e-12, abs_=1e-12) or not close(b2f(a['code_value']), v, rel=1e-12, abs_=1e-12):
                    res.diverge('segmented_beta vs Helpers.segmentedBeta / evalCode', {**case, 'row': list(row)}, [m, a['code_value']], v)
                    return

        ctx.batch.add_many(reqs, cb)


# --------------------------------------------------------------------------- nested correlation


def gen_corr_case(rng):
    n = rng.randint(2, 7)
    cs = rng.sample([1, 2, 3, 4, 5, 7, 10, 11, 20], n)
    pool = list(cs)
    rng.shuffle(pool)
    nests = []
    while pool and len(nests) < 3 and rng.random() < 0.85:
        size = min(len(pool), rng.choice([1, 2, 2, 3, 4]))
        alts = [pool.pop() for _ in range(size)]
        nests.append({'mu': rng.choice([rng.uniform(1.0, 5.0), 1.0, 2.0, 1.5]), 'alts': alts, 'as_beta': rng.random() < 0.4,
                      'override': rng.random() < 0.5})
    mu = rng.choice([1.0, 1.0, 1.0, rng.uniform(0.5, 1.0)])
    return {'kind': 'corr', 'choice_set': cs, 'nests': nests, 'mu': mu, 'named': rng.random() < 0.3, 'old_syntax': rng.random() < 0.4}


def run_corr_real(case):
    from biogeme.expressions import Beta
    from biogeme.nests import NestsForNestedLogit, OneNestForNestedLogit

    objs = []
    params = {}
    for i, n in enumerate(case['nests']):
        if n['as_beta']:
            if n['override']:
                p = Beta(f'mu_{i}', 1.0 + i, 1, 10, 0)
                params[f'mu_{i}'] = n['mu']
            else:
                p = Beta(f'mu_{i}', n['mu'], 1, 10, 0)
        else:
            p = n['mu']
        if not case.get('old_syntax'):
            objs.append(OneNestForNestedLogit(nest_param=p, list_of_alternatives=list(n['alts']), name=f'n{i}'))
        else:
            objs.append((p, list(n['alts'])))
    nn = NestsForNestedLogit(choice_set=list(case['choice_set']), tuple_of_nests=tuple(objs))
    names = {a: f'alt{a}' for a in case['choice_set']} if case['named'] else None
    kw = {} if case['mu'] == 1.0 else {'mu': case['mu']}
    df = nn.correlation(parameters=params or None, alternatives_names=names, **kw)
    return [[float(v) for v in r] for r in df.values.tolist()]


def check_corr(ctx, res, case, use_model=True):
    where = 'nests.NestsForNestedLogit.correlation'
    try:
        mat = run_corr_real(case)
    except Exception as e:  # noqa: BLE001
        res.violate(f'correlation raises {type(e).__name__}: {e}', case, core.exc_kind(e), 'matrix', where=where)
        return
    cs = case['choice_set']
    res.count({'corr': case}, nontrivial=any(len(n['alts']) >= 2 for n in case['nests']))
    res.tally(f'corr:n={len(cs)}')
    nest_of = {a: n for n in case['nests'] for a in n['alts']}
    for p, i in enumerate(cs):
        for q, j in enumerate(cs):
            if i == j:
                exp = 1.0
            elif i in nest_of and j in nest_of and nest_of[i] is nest_of[j]:
                m = nest_of[i]['mu']
                exp = 1.0 - 1.0 / (m * m) if case['mu'] == 1.0 else 1.0 - case['mu'] ** 2 / (m * m)
            else:
                exp = 0.0
            if not close(mat[p][q], exp, rel=1e-13, abs_=1e-13):
                res.violate('nested-logit correlation is not 1 - 1/mu^2 within a nest, 0 across, 1 on the diagonal',
                            {**case, 'pair': [i, j]}, mat[p][q], exp, where=where)
                return
    if use_model:
        req = {'op': 'corr', 'mu': f2b(case['mu']), 'choice_set': cs,
               'nests': [{'mu': f2b(n['mu']), 'alts': n['alts']} for n in case['nests']]}

        def cb(a):
            m = [[b2f(v) for v in r] for r in a['matrix']]
            if any(not close(x, y, rel=1e-13, abs_=1e-13) for r1, r2 in zip(m, mat) for x, y in zip(r1, r2)) or len(m) != len(mat):
                res.diverge('correlation vs Helpers.corrMatrix', case, m, mat)

        ctx.batch.add(req, cb)


# --------------------------------------------------------------------------- the check

CORPUS = [
    # F05 (fixed): non-zero first threshold, argument in the first segment
    {'kind': 'pw', 'ths': [1.0, 2.0, 5.0], 'betas': [2.0, -1.0], 'xs': [1.5, 0.5, 1.0, 2.0, 3.0, 7.0]},
    # known findings FC17a (two thresholds) and FC17b (as_variable)
    {'kind': 'pw', 'ths': [1.0, 3.0], 'betas': [2.0], 'xs': [2.0, 0.0, 1.0, 3.0, 4.0]},
    {'kind': 'pw', 'ths': [None, 3.0], 'betas': [2.0], 'xs': [2.0, 5.0]},
    {'kind': 'pw', 'ths': [1.0, None], 'betas': [2.0], 'xs': [0.0, 2.0]},
    {'kind': 'pw', 'ths': [1.0, 3.0, 4.0], 'betas': [1.0, 0.5], 'xs': [3.5, 0.0, 2.0, 5.0]},
    {'kind': 'pw', 'ths': [None, 10.0, 20.0, None], 'betas': [0.5, -0.25, 2.0], 'xs': [-5.0, 10.0, 15.0, 20.0, 33.0]},
]


def dispatch(ctx, res, case, use_model=True):
    k = case.get('kind')
    if k == 'pw':
        check_pw(ctx, res, case, use_model)
    elif k == 'dist':
        check_dist(ctx, res, case, use_model, with_integral=bool(case.get('integral')))
    elif k == 'seg':
        check_seg(ctx, res, case, use_model)
    elif k == 'corr':
        check_corr(ctx, res, case, use_model)
    else:
        raise ValueError(f'unknown case kind {k}')


def stream(ctx, res, rng, n_pw, n_box, n_dist, n_seg, n_corr, n_int, use_model=True):
    for _ in range(n_pw):
        ths = gen_thresholds(rng)
        betas = gen_betas(rng, len(ths) - 1)
        kinds = [rng.choice(['numeric', 'float', 'free', 'fixed']) for _ in betas]
        check_pw(ctx, res, {'kind': 'pw', 'ths': ths, 'betas': betas, 'xs': pw_points(rng, ths), 'beta_kinds': kinds}, use_model)
    for _ in range(n_box):
        check_boxcox(ctx, res, rng, use_model)
    names = ['normalpdf', 'lognormalpdf', 'uniformpdf', 'triangularpdf', 'logisticcdf', 'loglikreg']
    for i in range(n_dist):
        check_dist(ctx, res, gen_dist_case(rng, names[i % len(names)], standard=(i < len(names) and i % 2 == 0)), use_model)
    for i in range(n_int):
        c = gen_dist_case(rng, names[i % 4])
        c['xs'] = c['xs'][:3]
        c['integral'] = True
        check_dist(ctx, res, c, use_model, with_integral=True)
    for _ in range(n_seg):
        check_seg(ctx, res, gen_seg_case(rng), use_model)
    for _ in range(n_corr):
        check_corr(ctx, res, gen_corr_case(rng), use_model)


def check(ctx) -> Result:
    res = Result(rule=RULE, tolerance='model vs code: 1e-10..1e-12 relative (Box-Cox regular branch: + cancellation allowance eps/|l|); '
                 'oracles: 1e-9 relative for densities, series remainder bound for Box-Cox, 1e-11 for piecewise')
    rng = ctx.rng
    with core.scratch():
        for c in CORPUS:
            dispatch(ctx, res, dict(c))
            res.tally('corpus')
        check_pw_errors(ctx, res, rng)
        stream(ctx, res, rng, n_pw=ctx.n(150, 4000), n_box=ctx.n(5, 80), n_dist=ctx.n(60, 2000), n_seg=ctx.n(50, 1500),
               n_corr=ctx.n(80, 2500), n_int=ctx.n(8, 120))
        ctx.batch.flush()
    return res


def search(ctx, res, broken):
    """an obligation or the correspondence broke without a concrete failing input: apply the oracles
    of the statement to the real code on a widened stream (the model is not consulted)"""
    rng = core.rng_for('C17-search', ctx.seed)
    r2 = Result()
    with core.scratch():
        for c in CORPUS:
            dispatch(ctx, r2, dict(c), use_model=False)
        stream(ctx, r2, rng, n_pw=400, n_box=10, n_dist=200, n_seg=150, n_corr=200, n_int=12, use_model=False)
    matchers = MATCHERS
    for v in r2.violations:
        known = False
        for f in ctx.findings:
            if f.get('kind') == 'known' and f.get('where') == v.get('where'):
                pred = matchers.get(f.get('match', ''))
                if pred is None or pred(v.get('case')):
                    known = True
        if not known:
            res.violations.append(v)
            return


def replay(ctx, obj):
    case = obj.get('case') or {}
    out = {'replayed': obj.get('what')}
    r = Result()
    with core.scratch():
        k = case.get('kind')
        if k in ('pw', 'dist', 'seg', 'corr'):
            c = dict(case)
            if k == 'pw' and 'xs' not in c:
                c['xs'] = [0.0]
            dispatch(ctx, r, c, use_model=False)
        elif k in ('boxcox', 'boxcox_jump'):
            from biogeme.expressions import Variable
            from biogeme.models import boxcox

            ls = [case['l']] + ([case['l2']] if 'l2' in case else [])
            vals = ev(boxcox(Variable('x'), Variable('l')), make_db({'x': [case['x']] * len(ls), 'l': ls}))
            x = case['x']
            out['observed'] = vals
            if k == 'boxcox':
                l = case['l']
                ref = 0.0 if x == 0 else boxcox_ref(x, l)
                bound = 0.0 if x == 0 else (abs(math.log(x)) ** 5 * abs(l) ** 4 / 100 if abs(l) < SW else 4e-16 * max(1.0, abs(x**l)) / abs(l)) + 1e-12 * max(1.0, abs(ref))
                out['expected'] = ref
                if abs(vals[0] - ref) > bound:
                    r.violate('Box-Cox', case, vals[0], ref)
            else:
                L = abs(math.log(x))
                allowed = L**5 * SW**4 / 100 + 1e-9 * L * L + 4e-16 * max(1.0, x**SW, x**-SW) / SW + 1e-12
                if abs(vals[0] - vals[1]) > allowed:
                    r.violate('Box-Cox jump', case, abs(vals[0] - vals[1]), allowed)
        else:
            out.update({'property_fails': False, 'note': 'nothing to replay (no concrete input in this file)'})
            return out
    ctx.batch.items.clear()
    out['property_fails'] = bool(r.violations)
    out['violations'] = r.violations[:2]
    return out
