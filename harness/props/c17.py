"""C17 — specification helpers equal their documented closed forms.

Round 3: the helpers BUILD formulas.  Every formula built in a run is kept with the real signature text handed to the engine
(lib/leanrun.observe) and (i) read by the driver into a tree (model of the engine's reader, Sig.parseLine) that must be, node by
node, the tree Model/HelpersBuild.lean builds for the same abstract case, (ii) evaluated there with the engine's node semantics,
(iii) run by the proved engine model (Driver/Formula.lean), (iv) compared with the real engine, the closed-form model and the oracles.
`translate` regenerates lean/Generated/Helpers.lean (live helper outputs for a family of shapes = model-built trees, kernel-checked).

Tie: correspondence (C) + translator.  The real helper expressions (`piecewise_*`, `boxcox`,
`distributions.*`, `loglikelihoodregression`, `Segmentation.segmented_beta/segmented_code`,
`NestsForNestedLogit.correlation`) are built through the public API from generated abstract cases,
evaluated by the engine on generated arguments and compared (i) with the Lean model of
Model/Helpers.lean run on Float and (ii) with oracles written from the property statement
(clipped distance, formula = `piecewise_function`, (x^l-1)/l and the series remainder, textbook
densities from scipy, numerical integrals, reference + shift, 1 - 1/mu^2).
"""

from __future__ import annotations

import itertools
import math

import numpy as np

from lib import core, leanrun
from lib.core import Result, f2b, b2f

READY = True
MANIFEST = dict(
    text='Proof (Lean 4 + Mathlib, over the reals, same definitions the driver runs on Float). (1) Closed forms: piecewise variables sum to the clipped '
    'distance from the first threshold for every sorted threshold list with closed or open ends (C17.pw_sum_clip*), piecewise formula = '
    'piecewise_function for every argument, threshold list (any first threshold) and parameters (pw_formula_eq_function, induction over the list), '
    'piecewise_as_variable = function with first slope 1; Box-Cox: regular branch = (x^l-1)/l, value log x at l=0, series remainder '
    '<= |log x|^5 |l|^4/100 (Taylor remainder via Real.exp_bound), limit (x^l-1)/l -> log x and continuity of the implemented transform through 0; '
    'closed forms of normal/lognormal/uniform/triangular/logistic, |2.506628275 - sqrt(2 pi)| < 1e-9, uniform and triangular integrate to one, '
    'normal integrates to sqrt(2 pi)/2.506628275 (within 1e-9 of one), logistic cdf strictly increasing with limits 0 and 1; regression log likelihood = '
    'log normal density up to constants bounded by 1e-9; segmented parameter = reference + shift of the category for every '
    'list of segmentations (they add) and the generated code evaluates to the same value; nested-logit correlation = 1 - 1/mu_m^2 within a nest, 0 across, 1 on '
    'the diagonal for disjoint duplicate-free nests. (2) Round 3, the FORMULAS: Model/HelpersBuild.lean builds, statement by statement as the Python sources do, the '
    'expression tree each helper returns (piecewise_variables / piecewise_formula / piecewise_as_variable incl. the parameters they create themselves, boxcox with Power or '
    'PowerConstant according to the exponent, the five density helpers, loglikelihoodregression / likelihoodregression, Segmentation.segmented_beta and the expression '
    'the generated code denotes); C17.pw_variables_built (every number type), pw_formula_built_eq_function, pw_as_variable_built_eq_function, boxcox_built_regular / '
    '_series_bound / _special, densities_built, regression_built, segmented_built_value, segmented_code_built say that these trees, evaluated with the node semantics of '
    'the engine, have the documented closed forms for every argument / parameter expression and environment; density_checks ties the build-time argument checks to the '
    'hypotheses of the closed forms. Tie: (a) translator Generated/Helpers.lean regenerated on every run from the live helpers for 51 shapes (threshold lists of every '
    'length 2..6 x open/closed ends, three kinds of Box-Cox exponent, every density helper, three segmentations + their code): the signature text read by the model of the '
    'engine reader IS the tree of the Lean model (kernel-checked equality); (b) on every generated case the real signature text of every formula a helper built is read into a '
    'tree by the driver and compared node by node with the tree of the Lean model, evaluated there, run by the PROVED engine model (Driver/Formula.lean via lib/leanrun.py) and '
    'compared with the real engine, the closed-form Lean model and oracles from the statement.',
    design='DESIGN.md §5 C17',
    technique='Lean 4 / Mathlib theorems over an executable NumOps model of values AND of the built expression trees + translator (live helper outputs -> Lean data, '
    'kernel-checked equality with the model-built trees) + four-way correspondence (real engine, proved engine model on the real text, tree read from the text, closed form) '
    '+ scipy / statement oracles',
    note='Partial: lognormal integral only numerically; IEEE rounding validated, not proved; mixedloglikelihood (Monte-Carlo) only by an oracle (log of a draw-independent '
    'probability) and the shape log(MonteCarlo(P)); boxcox with a Python float exponent (constant-folded, reflected comparisons) is tied by value only. The shared engine model '
    'multiplies 0 * NaN = NaN where the real engine (bioExprTimes.cc) returns 0 for a zero left operand: rows with a logarithm of a negative number under a zero factor '
    '(lognormalpdf at x < 0) are tied three-way (engine, tree with the real Times semantics, closed form) and tallied. Finding FC17c (found by this check, repaired in /repo by a7d78a2): normalpdf / uniformpdf raise when a '
    'parameter is a data variable. FC17a / FC17b / F05 / F06 are fixed in the repository (their theorems about the former code are kept as documentation).',
)

TRUSTED = [
    'the C++ engine evaluates the helper expressions (now cross-checked on every formula against the proved engine model run on the real signature text and against the tree '
    'evaluation of Model/HelpersBuild.lean with the modelled node semantics: zero-left-operand product/quotient, bioMin/bioMax branches, lazy Elem)',
    'std::stod / Python float read the decimal literals of the signature text (leanrun.num_table); the translator writes those decimal texts as real literals',
    'R vs IEEE double: theorems over the reals, model run on Float, comparison with stated tolerances',
    'scipy.stats densities and numpy are used only by the oracles',
    'Python renders the generated segmentation code (exact string compared with the model) and exec() reads it back',
]
ASSUMPTIONS = [
    'thresholds weakly increasing with at least one numeric threshold (hypothesis of the piecewise theorems)',
    'x > 0 for Box-Cox statements (x = 0 is the special case returning 0), sigma > 0, a < c < b',
    'segmentation keys are integers (distinct, as in a dict); nests are disjoint and duplicate free',
    'translator family uses dyadic thresholds (Python differences exact, so the decimal text of a width is its real value)',
]
EXTRA_MODULES = list(leanrun.MODULES)
RULE = (
    'piecewise: threshold lists of 2-6 entries (open/closed ends, non-zero first threshold, float or int typed) with arguments at, just below/above and away from '
    'every threshold, parameters given as Numeric / float / free / fixed / free-with-override Beta or created by the helper (betas=None); Box-Cox: l around +-1e-5 and 0, '
    'exponent as Variable / free / fixed Beta / Numeric / float, x at 1, next to 1, near 0; densities with non-standard parameters (mode off-centre and next to an end point, '
    'x <= 0 for the lognormal, end points for the uniform), parameters also as data variables; argument-check stream; segmentations with 1-3 variables, reference coded by several '
    'values, negative codes, no non-reference category, class and function entry points; nested structures with the labels of the nests varied (unique, equal, equal to a default label, unnamed, inherited through object re-use), '
    'mu as number / free / fixed Beta / formula / through the parameters argument, 0, 1, >= 2 alone alternatives. '
    'non-trivial = piecewise case with a non-zero first threshold or an open end, Box-Cox case with |l| within 2e-5 of the switch, density with '
    'non-default parameters, segmentation with >= 1 non-reference category hit, correlation with >= 1 nest of >= 2 alternatives'
)

W_TWO = 'models.piecewise.piecewise_variables (two thresholds)'
W_ASVAR = 'models.piecewise.piecewise_as_variable'

MATCHERS = {
    'variable_param_normal_uniform': lambda case: isinstance(case, dict) and case.get('name') in ('normalpdf', 'uniformpdf') and 'variable' in (case.get('param_kinds') or []),
    'two_thresholds': lambda case: isinstance(case, dict) and len(case.get('ths', [])) == 2,
    'explained_by_as_coded': lambda case: isinstance(case, dict) and bool(case.get('explained_by_as_coded')),
}

TOL = 1e-9


def close(a, b, rel=1e-11, abs_=1e-11):
    return core.close(a, b, rel=rel, abs_=abs_)


# --------------------------------------------------------------------------- real code adapters


def make_db(cols: dict):
    import pandas as pd
    import biogeme.database as db

    return db.Database('c17', pd.DataFrame({k: np.array(v, dtype=float) for k, v in cols.items()}))


class EngineRefused(RuntimeError):
    """the real calculator / engine raised while evaluating a helper formula"""


# ties collected during check(): every formula a helper built is kept with the REAL signature text handed to the engine;
# finish_ties() then (i) runs that text in the proved engine model (leanrun / Driver/Formula.lean), (ii) has the driver read the
# same text into a tree, compare it node by node with the tree the Lean model of the helper builds and evaluate it, and compares
# all of them with the real engine (and, in the callers, with the closed-form Lean model and the oracles).
_TIES = None
_TIE_COUNT: dict = {}
_TIE_CAP = 400


def ev(expr, database, betas=None, tie=None):
    """real evaluation on every row through the real calculator; `tie` = {'what', 'case', 'where', 'tree', 'betas'}"""
    o = leanrun.observe(expr, database, betas)
    if 'values' not in o:
        raise EngineRefused(o.get('error', 'no value'))
    if tie is not None and _TIES is not None:
        # thorough tier: at most _TIE_CAP formulas of each kind go through the Lean side (the real engine, the closed-form model and
        # the oracles still see every case)
        key = tie['what'].split('[')[0]
        _TIE_COUNT[key] = _TIE_COUNT.get(key, 0) + 1
        if _TIE_COUNT[key] <= _TIE_CAP:
            _TIES.append({**tie, 'o': o})
    return o['values']


def leaf_of(kind, name, value):
    """the leaf of the Lean tree that stands for a parameter handed to a helper, and the value the engine is given for it"""
    if kind in ('numeric', 'float'):
        return {'num': f2b(float(value))}, None
    if kind == 'variable':
        return {'var': name}, None
    return {'beta': name}, (name, float(value))


def finish_ties(ctx, res):
    """three-way agreement on the formulas the helpers built"""
    ties = _TIES or []
    if not ties:
        return
    for t in ties:
        o = t['o']
        t['ans'] = None
        if t.get('tree') is None or not o.get('signature') or o.get('data') is None:
            continue
        req = {'op': 'tree', 'text': o['signature'], 'nums': leanrun.num_table(o['signature']),
               'benv': [[n, f2b(v)] for n, v in sorted((t.get('betas') or {}).items())],
               'rows': [[[c, f2b(x)] for c, x in zip(o['columns'], row)] for row in o['data']], **t['tree']}
        ctx.batch.add(req, lambda a, t=t: t.update(ans=a))
    ctx.batch.flush()
    leans = []
    for i in range(0, len(ties), 1500):
        leans += leanrun.lean_values([t['o'] for t in ties[i:i + 1500]])
    for t, lv in zip(ties, leans):
        o, what, case, where = t['o'], t['what'], t['case'], t['where']
        vals = o['values']
        scale = t.get('scale', 1.0)
        a = t['ans']
        text_vals = None
        if a is not None:
            if 'read' not in a:
                res.diverge(f'{what}: the driver refused the tree request', case, a, o['signature'][-1:], where=where)
                continue
            if not a['read']:
                res.diverge(f'{what}: the signature text is not read back as a tree of helper nodes', case, None, o['signature'][-3:], where=where)
                continue
            res.tally('tie:formula text read into a tree')
            text_vals = [b2f(v) for v in a['text_vals']]
            if not a['same']:
                res.diverge(f'{what}: the formula the code built is not the formula the Lean model of the helper builds (node by node)',
                            case, {'built_size': a['built_size'], 'built_vals': [b2f(v) for v in a['built_vals']][:4]},
                            {'size': a['size'], 'vals': vals[:4], 'text': o['signature'][-4:]}, where=where)
                continue
            res.tally('tie:formula = Lean-built formula (node by node)')
            bad = [i for i, (x, y) in enumerate(zip(vals, text_vals)) if not (close(x, y, rel=1e-9, abs_=1e-12 * scale) or (math.isnan(x) and math.isnan(y)))]
            if bad:
                i = bad[0]
                res.diverge(f'{what}: real engine vs the real text evaluated as a tree with the engine node semantics', {**case, 'row': i}, text_vals[i], vals[i], where=where)
                continue
        # the shared, proved engine model on the same text
        if lv is None:
            continue
        if isinstance(lv, tuple):
            res.diverge(f'{what}: the text handed to the engine is not readable by the model of its reader', case, lv, o['signature'][-1:], where=where)
            continue
        res.tally('tie:formulas run by the proved engine model')
        for i, (x, y) in enumerate(zip(vals, lv)):
            if isinstance(y, tuple):
                if y[1] in ('domain', 'choiceMissing', 'keyMissing'):
                    res.tally('tie:outside the regular domain of the engine model')
                    continue
                res.diverge(f'{what}: engine model refuses ({y[1]}) where the real engine returns a number', {**case, 'row': i}, y, x, where=where)
                break
            if close(x, y, rel=1e-9, abs_=1e-12 * scale) or (math.isnan(x) and math.isnan(y)):
                res.tally('tie:three-way rows (engine, engine model on the text, tree)' if text_vals is not None else 'tie:two-way rows (engine, engine model on the text)')
                continue
            if math.isnan(y) and text_vals is not None and close(x, text_vals[i], rel=1e-9, abs_=1e-12 * scale):
                # the real engine's Times returns 0 for a zero left operand without looking at the right one (bioExprTimes.cc);
                # the shared engine model multiplies (0 * NaN = NaN).  Only reachable outside the reals (log of a negative number).
                res.tally('tie:NaN under a zero factor in the shared engine model (Times shortcut of the real engine)')
                continue
            res.diverge(f'{what}: real engine vs the real signature text run by the engine model', {**case, 'row': i}, y, x, where=where)
            break


KINDS = ['numeric', 'float', 'free', 'fixed', 'free_o']


def as_beta_arg(kind, name, value):
    """parameters are handed to the helpers as Numeric, float, free Beta, fixed Beta, or a free Beta whose value is given to the
    calculator at evaluation time and differs from its initial value ('free_o')"""
    from biogeme.expressions import Beta, Numeric

    if kind == 'numeric':
        return Numeric(value)
    if kind == 'float':
        return float(value)
    if kind == 'fixed':
        return Beta(name, value, None, None, 1)
    if kind == 'free_o':
        return Beta(name, value + 1.5, None, None, 0)
    if kind == 'variable':
        from biogeme.expressions import Variable

        return Variable(name)          # the parameter comes from a column of the data (e.g. a scale that differs by observation)
    return Beta(name, value, None, None, 0)


def beta_env(kinds, names, values):
    """(values for the calculator's `betas` argument, values by name for the Lean side)"""
    over = {n: float(v) for k, n, v in zip(kinds, names, values) if k == 'free_o'}
    byname = {n: float(v) for k, n, v in zip(kinds, names, values) if k in ('free', 'fixed', 'free_o')}
    return over, byname


# --------------------------------------------------------------------------- piecewise


def pw_oracle_sum(x, ths):
    """clipped distance from the first threshold, written from the statement"""
    lo, hi = ths[0], ths[-1]
    if lo is None and hi is None:
        return x
    if lo is None:
        return min(x, hi)
    if hi is None:
        return max(0.0, x - lo)
    return max(0.0, min(x - lo, hi - lo))


def pw_points(rng, ths, n_extra=4):
    nums = [t for t in ths if t is not None]
    xs = []
    for t in nums:
        xs += [t, math.nextafter(t, -math.inf), math.nextafter(t, math.inf), t - 0.5, t + 0.5]
    lo, hi = min(nums), max(nums)
    xs += [lo - 100.0, hi + 100.0, 0.0]
    for _ in range(n_extra):
        xs.append(rng.uniform(lo - 2, hi + 2))
    return xs


def gen_thresholds(rng, k=None):
    k = k or rng.choice([2, 3, 3, 4, 4, 5, 6])
    open_l = rng.random() < 0.3
    open_r = rng.random() < 0.3
    n_num = k - int(open_l) - int(open_r)
    if n_num < 1:
        open_r = False
        n_num = k - int(open_l)
    style = rng.choice(['dyadic', 'float', 'int'])
    start = rng.choice([-3.0, -0.75, 0.0, 1.0, 2.5, 10.0, 0.1])
    nums = [start]
    for _ in range(n_num - 1):
        if style == 'dyadic':
            step = rng.choice([0.25, 0.5, 1.0, 2.0, 0.0 if rng.random() < 0.1 else 0.75])
        elif style == 'int':
            step = float(rng.randint(1, 5))
        else:
            step = rng.uniform(0.01, 3.0)
        nums.append(nums[-1] + step)
    if style == 'float':
        nums = [n + rng.uniform(-0.004, 0.004) for n in nums]
        nums.sort()
    ths = ([None] if open_l else []) + nums + ([None] if open_r else [])
    return ths


def gen_betas(rng, n):
    return [rng.choice([0.0, 1.0, -1.0, 2.0, rng.uniform(-3, 3), rng.uniform(-3, 3)]) for _ in range(n)]


def th_strs(ths):
    return [None if t is None else str(t) for t in ths]


def default_beta_names(var, ths, first=0):
    """names of the parameters the helpers create when none is given (written from the docstring:
    beta_VAR_interval, interval = <a>_<b> with minus_inf / inf for the open ends)"""
    out = []
    for a, b in list(zip(ths, ths[1:]))[first:]:
        out.append(f"beta_{var}_{'minus_inf' if a is None else a}_{'inf' if b is None else b}")
    return out


def run_pw_real(ths, betas, xs, beta_kinds, case=None):
    """drives the real piecewise helpers; returns a dict of outputs / error kinds"""
    from biogeme.expressions import Variable
    from biogeme.models import piecewise_variables, piecewise_formula, piecewise_as_variable, piecewise_function

    out = {}
    database = make_db({'x': xs})
    base = {'kind': 'pw', 'ths': ths, 'betas': betas, 'beta_kinds': beta_kinds}
    scale = max([1.0] + [abs(t) for t in ths if t is not None] + [abs(b) for b in betas] + [abs(x) for x in xs]) ** 2
    e_ths = [None if t is None else f2b(float(t)) for t in ths]
    xarg = (case or {}).get('xarg', 'var')
    try:
        vs = piecewise_variables(Variable('x') if xarg == 'var' else 'x', list(ths))
        out['n_vars'] = len(vs)
        out['vars'] = [ev(v, database, tie={'what': f'piecewise_variables[{i}]', 'case': base, 'where': 'models.piecewise.piecewise_variables', 'scale': scale,
                                           'tree': {'helper': 'pw_var', 'x': {'var': 'x'}, 'ths': e_ths, 'index': i}}) for i, v in enumerate(vs)]
    except Exception as e:  # noqa: BLE001
        out['vars_err'] = core.exc_kind(e)
    try:
        names = [f'pb{i}' for i in range(len(betas))]
        bs = [as_beta_arg(k, n, b) for k, n, b in zip(beta_kinds, names, betas)]
        over, byname = beta_env(beta_kinds, names, betas)
        out['formula'] = ev(piecewise_formula('x' if xarg == 'var' else Variable('x'), list(ths), bs), database, betas=over,
                            tie={'what': 'piecewise_formula', 'case': base, 'where': 'models.piecewise.piecewise_formula / piecewise_function', 'scale': scale, 'betas': byname,
                                 'tree': {'helper': 'pw_formula', 'x': {'var': 'x'}, 'ths': e_ths, 'betas': [leaf_of(k, n, b)[0] for k, n, b in zip(beta_kinds, names, betas)]}})
    except Exception as e:  # noqa: BLE001
        out['formula_err'] = core.exc_kind(e)
    if len(betas) == len(ths) - 1:
        # betas=None: the helper creates the parameters itself (named after the intervals)
        try:
            names = default_beta_names('x', ths)
            out['formula_default'] = ev(piecewise_formula('x', list(ths)), database, betas=dict(zip(names, betas)),
                                        tie={'what': 'piecewise_formula (betas=None)', 'case': base, 'where': 'models.piecewise.piecewise_formula / piecewise_function',
                                             'scale': scale, 'betas': dict(zip(names, [float(b) for b in betas])),
                                             'tree': {'helper': 'pw_formula_default', 'var': 'x', 'ths': e_ths, 'th_strs': th_strs(ths)}})
        except Exception as e:  # noqa: BLE001
            out['formula_default_err'] = f'{core.exc_kind(e)}: {e}'[:200]
    if len(ths) >= 3 and len(betas) == len(ths) - 1:
        try:
            names = [f'pa{i}' for i in range(1, len(betas))]
            bs = [as_beta_arg(k, n, b) for k, n, b in zip(beta_kinds[1:], names, betas[1:])]
            over, byname = beta_env(beta_kinds[1:], names, betas[1:])
            out['asvar'] = ev(piecewise_as_variable(Variable('x') if xarg == 'var' else 'x', list(ths), bs), database, betas=over,
                              tie={'what': 'piecewise_as_variable', 'case': base, 'where': W_ASVAR, 'scale': scale, 'betas': byname,
                                   'tree': {'helper': 'pw_asvar', 'x': {'var': 'x'}, 'ths': e_ths,
                                            'betas': [leaf_of(k, n, b)[0] for k, n, b in zip(beta_kinds[1:], names, betas[1:])]}})
        except Exception as e:  # noqa: BLE001
            out['asvar_err'] = core.exc_kind(e)
        try:
            names = default_beta_names('x', ths, first=1)
            out['asvar_default'] = ev(piecewise_as_variable('x', list(ths)), database, betas=dict(zip(names, betas[1:])),
                                      tie={'what': 'piecewise_as_variable (betas=None)', 'case': base, 'where': W_ASVAR, 'scale': scale,
                                           'betas': dict(zip(names, [float(b) for b in betas[1:]])),
                                           'tree': {'helper': 'pw_asvar_default', 'var': 'x', 'ths': e_ths, 'th_strs': th_strs(ths)}})
        except Exception as e:  # noqa: BLE001
            out['asvar_default_err'] = f'{core.exc_kind(e)}: {e}'[:200]
    try:
        out['function'] = [float(piecewise_function(x, list(ths), list(betas))) for x in xs]
    except Exception as e:  # noqa: BLE001
        out['function_err'] = core.exc_kind(e)
    return out


def enc_ths(ths):
    return [None if t is None else f2b(float(t)) for t in ths]


def check_pw(ctx, res, case, use_model=True):
    ths, betas, xs = case['ths'], case['betas'], case['xs']
    kinds = case.get('beta_kinds') or ['numeric'] * len(betas)
    real = run_pw_real(ths, betas, xs, kinds, case)
    k = len(ths)
    nums = [t for t in ths if t is not None]
    nontrivial = (ths[0] is None or ths[-1] is None or ths[0] != 0.0) and k >= 3
    res.count({'pw': case}, nontrivial=nontrivial)
    res.tally(f'pw:K={k}')
    res.tally('pw:open_left' if ths[0] is None else 'pw:closed_left')
    res.tally('pw:open_right' if ths[-1] is None else 'pw:closed_right')
    scale = max([1.0] + [abs(t) for t in nums] + [abs(b) for b in betas])
    base = {'kind': 'pw', 'ths': ths, 'betas': betas}

    # ---- oracle (statement): number of variables, clipped distance
    if not case.get('asvar_only'):
        where = W_TWO if k == 2 else 'models.piecewise.piecewise_variables'
        if 'vars_err' in real:
            res.violate(f'piecewise_variables raises {real["vars_err"]} on a valid threshold list', {**base, 'xs': xs[:3]},
                        real['vars_err'], f'{k - 1} variables', where=where)
        else:
            if real['n_vars'] != k - 1:
                res.violate(f'piecewise_variables returns {real["n_vars"]} variables for {k} thresholds', {**base, 'xs': xs[:3]},
                            real['n_vars'], k - 1, where=where)
            for j, x in enumerate(xs):
                s = sum(v[j] for v in real['vars'])
                exp = pw_oracle_sum(x, ths)
                if not close(s, exp, abs_=1e-11 * max(scale, abs(x))):
                    res.violate('piecewise variables do not sum to the clipped distance from the first threshold',
                                {**base, 'xs': [x]}, s, exp, where=where)
                    break
        # ---- oracle: formula = function (both real)
        w_ff = W_TWO if k == 2 else 'models.piecewise.piecewise_formula / piecewise_function'
        if 'formula' in real and 'function' in real:
            for j, x in enumerate(xs):
                if not close(real['formula'][j], real['function'][j], abs_=1e-10 * max(scale, abs(x)) * scale):
                    res.violate('piecewise_formula differs from piecewise_function', {**base, 'xs': [x], 'beta_kinds': kinds},
                                real['formula'][j], real['function'][j], where=w_ff)
                    break
        elif 'formula_err' in real or 'function_err' in real:
            res.violate('piecewise_formula / piecewise_function raise on a valid specification', {**base, 'xs': xs[:3]},
                        [real.get('formula_err'), real.get('function_err')], 'values', where=w_ff)
        # ---- oracle: the same with the parameters the helpers create themselves (betas=None), values given at evaluation
        if 'function' in real:
            from biogeme.models import piecewise_function

            for key, w, first in (('formula_default', w_ff, None), ('asvar_default', W_ASVAR, 1.0)):
                if key in real:
                    res.tally(f'pw:{key}')
                    for j, x in enumerate(xs):
                        exp = real['function'][j] if first is None else float(piecewise_function(x, list(ths), [first] + list(betas[1:])))
                        if not close(real[key][j], exp, abs_=1e-10 * max(scale, abs(x)) * scale):
                            res.violate(f'{key.split("_")[0]} built with betas=None differs from piecewise_function at the same parameter values',
                                        {**base, 'xs': [x], 'default_betas': True}, real[key][j], exp, where=w)
                            break
                elif key + '_err' in real:
                    res.violate(f'{key.split("_")[0]} with betas=None raises on a valid specification', {**base, 'xs': xs[:3], 'default_betas': True},
                                real[key + '_err'], 'values', where=w)

    # ---- model
    if use_model:
        reqs = []
        for x in xs:
            reqs.append({'op': 'pw_vars', 'x': f2b(x), 'ths': enc_ths(ths)})
            reqs.append({'op': 'pw_formula', 'x': f2b(x), 'ths': enc_ths(ths), 'betas': [f2b(b) for b in betas]})
            reqs.append({'op': 'pw_function', 'x': f2b(x), 'ths': enc_ths(ths), 'betas': [f2b(b) for b in betas]})
            reqs.append({'op': 'pw_asvar', 'x': f2b(x), 'ths': enc_ths(ths), 'betas': [f2b(b) for b in betas[1:]]})

        def cb(ans):
            as_coded_all = True
            asvar_bad = None
            for j, x in enumerate(xs):
                a_vars, a_for, a_fun, a_as = ans[4 * j : 4 * j + 4]
                tol = 1e-10 * max(scale, abs(x)) * scale
                if 'vars' in real and k >= 3:
                    mv = [b2f(v) for v in a_vars['vars']]
                    rv = [v[j] for v in real['vars']]
                    if len(mv) != len(rv) or any(not close(a, b, abs_=tol) for a, b in zip(mv, rv)):
                        res.diverge('piecewise_variables vs Helpers.pwVars', {**base, 'xs': [x]}, mv, rv)
                        return
                if 'formula' in real and not close(b2f(a_for['value']), real['formula'][j], abs_=tol):
                    res.diverge('piecewise_formula vs Helpers.pwFormula', {**base, 'xs': [x]}, b2f(a_for['value']), real['formula'][j])
                    return
                if 'function' in real and not close(b2f(a_fun['value']), real['function'][j], abs_=tol):
                    res.diverge('piecewise_function vs Helpers.pwFunction', {**base, 'xs': [x]}, b2f(a_fun['value']), real['function'][j])
                    return
                if 'asvar' in real:
                    doc = b2f(a_as['value'])
                    if not close(real['asvar'][j], doc, abs_=tol) and asvar_bad is None:
                        asvar_bad = (x, real['asvar'][j], doc)
                    if not close(real['asvar'][j], b2f(a_as['as_coded']), abs_=tol):
                        as_coded_all = False
            if 'asvar' in real and 'function' in real:
                # oracle for piecewise_as_variable: the piecewise function with first slope 1
                from biogeme.models import piecewise_function

                for j, x in enumerate(xs):
                    exp = float(piecewise_function(x, list(ths), [1.0] + list(betas[1:])))
                    if not close(real['asvar'][j], exp, abs_=1e-10 * max(scale, abs(x)) * scale):
                        res.violate('piecewise_as_variable is not x_1 + sum_{i>=2} beta_i x_i',
                                    {**base, 'xs': [x], 'asvar_only': True, 'explained_by_as_coded': bool(as_coded_all)},
                                    real['asvar'][j], exp, where=W_ASVAR)
                        break
            elif 'asvar_err' in real:
                res.violate('piecewise_as_variable raises on a valid specification', {**base, 'xs': xs[:3], 'asvar_only': True},
                            real['asvar_err'], 'a value', where=W_ASVAR)

        ctx.batch.add_many(reqs, cb)
    elif 'asvar' in real and 'function' in real:
        from biogeme.models import piecewise_function

        for j, x in enumerate(xs):
            exp = float(piecewise_function(x, list(ths), [1.0] + list(betas[1:])))
            if not close(real['asvar'][j], exp, abs_=1e-10 * max(scale, abs(x)) * scale):
                coded = None
                if 'vars' in real:
                    vs = [v[j] for v in real['vars']]
                    coded = vs[0] + sum(b * v for b, v in zip(betas[1:], vs))
                res.violate('piecewise_as_variable is not x_1 + sum_{i>=2} beta_i x_i',
                            {**base, 'xs': [x], 'asvar_only': True,
                             'explained_by_as_coded': coded is not None and close(real['asvar'][j], coded, abs_=1e-9 * scale * scale)},
                            real['asvar'][j], exp, where=W_ASVAR)
                break


def check_pw_errors(ctx, res, rng):
    """malformed threshold lists: the error of the code = the error of the model's checks"""
    from biogeme.expressions import Variable, Numeric
    from biogeme.models import piecewise_variables, piecewise_formula, piecewise_function, piecewise_as_variable

    bad = [
        ([], []),
        ([None, None], [1.0]),
        ([None, None, None], [1.0, 1.0]),
        ([None, None, 2.0, 3.0], [1.0, 1.0, 1.0]),
        ([1.0, None, 3.0], [1.0, 1.0]),
        ([1.0], []),
        ([1.0, 2.0, 3.0], [1.0]),
        ([None, 2.0, 3.0, None], [1.0, 1.0, 1.0, 1.0]),
        ([1.0, 3.0], [2.0]),                 # valid; as a transformed variable: one interval, no term left for bioMultSum
        ([None, 3.0], [2.0]),
        ([1.0, 2.0, 4.0], [1.0, 1.0]),       # valid everywhere
        ([1.0, 2.0, 4.0], [1.0, 1.0, 1.0]),  # one parameter too many for formula/function: exactly right for nothing
    ]
    for ths, betas in bad:
        got = {}
        for name, f in (
            ('pw_vars', lambda: piecewise_variables(Variable('x'), list(ths))),
            ('pw_formula', lambda: piecewise_formula('x', list(ths), [Numeric(b) for b in betas])),
            ('pw_function', lambda: piecewise_function(1.0, list(ths), list(betas))),
            ('pw_asvar', lambda: piecewise_as_variable('x', list(ths), [Numeric(b) for b in betas[1:]])),
            ('pw_asvar_default', lambda: piecewise_as_variable('x', list(ths))),
        ):
            try:
                f()
                got[name] = None
            except Exception as e:  # noqa: BLE001
                got[name] = core.exc_kind(e)
        case = {'kind': 'pw_error', 'ths': ths, 'betas': betas}
        res.count(case, nontrivial=False)
        res.tally('pw:malformed')
        reqs = [
            {'op': 'pw_vars', 'x': f2b(1.0), 'ths': enc_ths(ths)},
            {'op': 'pw_formula', 'x': f2b(1.0), 'ths': enc_ths(ths), 'betas': [f2b(b) for b in betas]},
            {'op': 'pw_function', 'x': f2b(1.0), 'ths': enc_ths(ths), 'betas': [f2b(b) for b in betas]},
            {'op': 'pw_asvar_check', 'ths': enc_ths(ths), 'n_betas': len(betas[1:])},
            {'op': 'pw_asvar_check', 'ths': enc_ths(ths), 'n_betas': None},
        ]

        def cb(ans, got=got, case=case, ths=ths):
            def kind(e):
                return None if e is None else e.split(':')[0]

            model = {'pw_vars': kind(ans[0]['err']), 'pw_formula': kind(ans[1]['err']), 'pw_function': kind(ans[2]['err']),
                     'pw_asvar': kind(ans[3]['err']), 'pw_asvar_default': kind(ans[4]['err'])}
            if len(ths) == 1:
                # one numeric threshold: the function accepts it (returns 0), variables raise IndexError
                model['pw_function'] = got['pw_function']
            if model != got:
                res.diverge('argument checks of the piecewise helpers', case, model, got)

        ctx.batch.add_many(reqs, cb)


# --------------------------------------------------------------------------- Box-Cox

SW = 1.0e-5


def boxcox_ref(x, l):
    """(x^l - 1)/l computed without cancellation"""
    if l == 0.0:
        return math.log(x)
    return math.expm1(l * math.log(x)) / l


def gen_ells(rng):
    ells = [0.0, SW, -SW, math.nextafter(SW, 0), math.nextafter(SW, 1), math.nextafter(-SW, 0), math.nextafter(-SW, -1),
            1e-6, -1e-6, 9.99e-6, -9.99e-6, 1.01e-5, -1.01e-5, 1e-9, -1e-12, 2e-5, -2e-5, 0.5, -0.5, 1.0, 2.0, -1.0]
    for _ in range(6):
        ells.append(rng.uniform(-3, 3))
    for _ in range(6):
        ells.append(rng.uniform(-2e-5, 2e-5))
    return ells


def gen_xs_pos(rng):
    xs = [1.0, 0.5, 2.0, 5.0, 0.01, 100.0, 1e-3, 1e3, 0.0, math.e, 1e-8, math.nextafter(1.0, 0), math.nextafter(1.0, 2)]
    for _ in range(5):
        xs.append(math.exp(rng.uniform(-4, 4)))
    return xs


def check_boxcox(ctx, res, rng, use_model=True, ell_mode=None):
    from biogeme.expressions import Variable, Beta, Numeric
    from biogeme.models import boxcox

    ells, xs = gen_ells(rng), gen_xs_pos(rng)
    pairs = [(x, l) for x in xs for l in ells]
    database = make_db({'x': [p[0] for p in pairs], 'l': [p[1] for p in pairs]})
    W = 'models.boxcox.boxcox'
    real = ev(boxcox(Variable('x'), Variable('l')), database,
              tie={'what': 'boxcox(Variable, Variable)', 'case': {'kind': 'boxcox', 'mode': 'variable'}, 'where': W,
                   'tree': {'helper': 'boxcox', 'x': {'var': 'x'}, 'l': {'var': 'l'}}})
    # the exponent as a parameter / constant (one l per evaluation)
    extra = []
    for l in rng.sample(ells, 6):
        mode = ell_mode or rng.choice(['beta', 'numeric', 'fixed', 'float'])
        db2 = make_db({'x': xs})
        tcase = {'kind': 'boxcox', 'mode': mode, 'l': l}
        if mode == 'beta':
            vals = ev(boxcox(Variable('x'), Beta('ell', 0.3, -10, 10, 0)), db2, betas={'ell': l},
                      tie={'what': 'boxcox(Variable, free Beta)', 'case': tcase, 'where': W, 'betas': {'ell': l},
                           'tree': {'helper': 'boxcox', 'x': {'var': 'x'}, 'l': {'beta': 'ell'}}})
        elif mode == 'fixed':
            vals = ev(boxcox(Variable('x'), Beta('ell', l, -10, 10, 1)), db2,
                      tie={'what': 'boxcox(Variable, fixed Beta)', 'case': tcase, 'where': W, 'betas': {'ell': l},
                           'tree': {'helper': 'boxcox', 'x': {'var': 'x'}, 'l': {'beta': 'ell'}}})
        elif mode == 'float':
            # a Python float exponent: Python folds ell**2, ell**3 and the comparisons are built reflected; same value, other tree
            vals = ev(boxcox(Variable('x'), float(l)), db2, tie={'what': 'boxcox(Variable, float)', 'case': tcase, 'where': W, 'tree': None})
        else:
            vals = ev(boxcox(Variable('x'), Numeric(l)), db2,
                      tie={'what': 'boxcox(Variable, Numeric)', 'case': tcase, 'where': W,
                           'tree': {'helper': 'boxcox', 'x': {'var': 'x'}, 'l': {'num': f2b(l)}}})
        res.tally(f'boxcox:ell as {mode}')
        extra += [((x, l), v, mode) for x, v in zip(xs, vals)]
    allc = [((x, l), v, 'variable') for (x, l), v in zip(pairs, real)] + extra
    reqs = []
    for (x, l), v, mode in allc:
        case = {'kind': 'boxcox', 'x': x, 'l': l, 'mode': mode}
        res.count(case, nontrivial=abs(abs(l) - SW) <= 2e-5 and x != 1.0)
        where = 'models.boxcox.boxcox'
        if x == 0.0:
            res.tally('boxcox:x=0')
            if v != 0.0:
                res.violate('boxcox(0, l) is not 0', case, v, 0.0, where=where)
        else:
            L = math.log(x)
            ref = boxcox_ref(x, l)
            if l == 0.0:
                res.tally('boxcox:l=0')
                ok = close(v, L, rel=1e-13, abs_=1e-14)
                bound = 0.0
            elif abs(l) < SW:
                res.tally('boxcox:series')
                bound = abs(L) ** 5 * abs(l) ** 4 / 100.0
                ok = abs(v - ref) <= bound + 1e-12 * max(1.0, abs(ref))
            else:
                res.tally('boxcox:regular')
                # the regular branch cancels x^l - 1: relative error ~ eps/|l log x|
                bound = 4e-16 * max(1.0, abs(x**l)) / abs(l) + 1e-12 * abs(ref)
                ok = abs(v - ref) <= bound
            if not ok:
                res.violate('Box-Cox transform differs from (x^l - 1)/l beyond the series remainder', case, v, ref, where=where)
        reqs.append({'op': 'boxcox', 'x': f2b(x), 'l': f2b(l)})
    # continuity through the switching points and through zero (statement: continuous in l)
    idx = {(x, l): v for (x, l), v in zip(pairs, real)}
    for x in xs:
        if x == 0.0:
            continue
        L = abs(math.log(x))
        for a, b in ((math.nextafter(SW, 0), SW), (-SW, math.nextafter(-SW, 0)), (-1e-12, 0.0), (0.0, 1e-9)):
            jump = abs(idx[(x, a)] - idx[(x, b)])
            allowed = L**5 * SW**4 / 100 + 1e-9 * L * L + 4e-16 * max(1.0, x**SW, x**-SW) / SW + 1e-12
            if jump > allowed:
                res.violate('Box-Cox transform jumps in l', {'kind': 'boxcox_jump', 'x': x, 'l': a, 'l2': b}, jump, f'<= {allowed}',
                            where='models.boxcox.boxcox')
    if use_model:

        def cb(ans):
            for ((x, l), v, mode), a in zip(allc, ans):
                m = b2f(a['value'])
                tol = 1e-9 * max(1.0, abs(m)) + (4e-16 * max(1.0, abs(x**l) if x > 0 else 1.0) / abs(l) if l != 0 else 0.0)
                if not (abs(m - v) <= tol or (math.isnan(m) and math.isnan(v))):
                    res.diverge('boxcox vs Helpers.boxcox', {'kind': 'boxcox', 'x': x, 'l': l, 'mode': mode, 'branch': a['branch']}, m, v)
                    return

        ctx.batch.add_many(reqs, cb)


# --------------------------------------------------------------------------- densities


def textbook(name, args):
    from scipy import stats

    if name == 'normalpdf':
        x, mu, s = args
        return float(stats.norm.pdf(x, mu, s))
    if name == 'lognormalpdf':
        x, mu, s = args
        return float(stats.lognorm.pdf(x, s, scale=math.exp(mu))) if x > 0 else 0.0
    if name == 'uniformpdf':
        x, a, b = args
        return 1.0 / (b - a) if a <= x <= b else 0.0
    if name == 'triangularpdf':
        x, a, b, c = args
        if x < a or x > b:
            return 0.0
        if x < c:
            return 2 * (x - a) / ((b - a) * (c - a))
        if x == c:
            return 2 / (b - a)
        return 2 * (b - x) / ((b - a) * (b - c))
    if name == 'logisticcdf':
        x, mu, s = args
        return float(stats.logistic.cdf(x, mu, s))
    if name == 'loglikreg':
        y, m, s = args
        return float(stats.norm.logpdf(y, m, s))
    if name == 'likreg':
        y, m, s = args
        return float(stats.norm.pdf(y, m, s))
    raise ValueError(name)


def build_dist(name, params, kinds, with_env=False):
    import biogeme.distributions as D
    from biogeme.expressions import Variable
    from biogeme.loglikelihood import loglikelihoodregression, likelihoodregression

    x = Variable('x')
    names = [f'dp{i}' for i in range(len(params))]
    ps = [as_beta_arg(k, n, p) for k, n, p in zip(kinds, names, params)]
    if name in ('loglikreg', 'likreg'):
        from biogeme.expressions import Numeric

        ps = [p if not isinstance(p, float) else Numeric(p) for p in ps]
        expr = (loglikelihoodregression if name == 'loglikreg' else likelihoodregression)(x, ps[0], ps[1])
    else:
        expr = getattr(D, name)(x, *ps)
    if not with_env:
        return expr
    over, byname = beta_env(kinds, names, params)
    return expr, over, byname, [{'var': 'x'}] + [leaf_of(k, n, p)[0] for k, n, p in zip(kinds, names, params)]


W_VARPARAM = 'distributions.normalpdf / uniformpdf: build-time check of a parameter that is (or contains) a data variable'


def ev_dist(name, params, kinds, xs, tied=True):
    expr, over, byname, leaves = build_dist(name, params, kinds, with_env=True)
    where = f'distributions.{name}' if name not in ('loglikreg', 'likreg') else 'loglikelihood.' + ('loglikelihoodregression' if name == 'loglikreg' else 'likelihoodregression')
    tie = {'what': name, 'case': {'kind': 'dist', 'name': name, 'params': params, 'param_kinds': kinds}, 'where': where, 'betas': byname,
           'tree': {'helper': 'dist', 'name': name, 'args': leaves}} if tied else None
    cols = {'x': xs, **{f'dp{i}': [p] * len(xs) for i, (k, p) in enumerate(zip(kinds, params)) if k == 'variable'}}
    return ev(expr, make_db(cols), betas=over, tie=tie)


def gen_dist_case(rng, name, standard=False):
    if name in ('normalpdf', 'lognormalpdf', 'logisticcdf', 'loglikreg', 'likreg'):
        mu = 0.0 if standard else rng.choice([rng.uniform(-3, 3), 0.3, -1.25])
        s = 1.0 if standard else rng.choice([rng.uniform(0.05, 5), 0.5, 2.0, 0.1])
        params = [mu, s]
        if name == 'lognormalpdf':
            xs = [0.0, -1.0, -0.5, 1.0, math.exp(mu), math.exp(mu - s * s)] + [math.exp(rng.uniform(mu - 4 * s, mu + 4 * s)) for _ in range(8)]
        else:
            xs = [mu, mu - s, mu + s, mu + 6 * s, mu - 6 * s, 0.0] + [rng.uniform(mu - 5 * s, mu + 5 * s) for _ in range(8)]
    elif name == 'uniformpdf':
        a = -1.0 if standard else rng.choice([rng.uniform(-5, 5), 0.0, 2.0])
        b = 1.0 if standard else a + rng.choice([rng.uniform(0.01, 6), 1.0, 0.25])
        params = [a, b]
        xs = [a, b, math.nextafter(a, -9), math.nextafter(b, 9), (a + b) / 2, a - 1, b + 1] + [rng.uniform(a - 1, b + 1) for _ in range(6)]
    else:
        a = -1.0 if standard else rng.choice([rng.uniform(-5, 5), 0.0, 2.0])
        w = 2.0 if standard else rng.choice([rng.uniform(0.1, 6), 1.0, 4.0])
        b = a + w
        c = 0.0 if standard else rng.choice([a + w * 0.5, a + w * 0.25, a + w * rng.uniform(0.05, 0.95), a + w * 0.875, a + w * 2.0**-30, b - w * 2.0**-30])
        params = [a, b, c]
        xs = [a, b, c, math.nextafter(a, -9), math.nextafter(b, 9), math.nextafter(c, -9), math.nextafter(c, 9), a - 1, b + 1]
        xs += [rng.uniform(a - 0.5, b + 0.5) for _ in range(6)]
    # uniform / triangular compare the INITIAL values of their parameters with each other while the formula is built: no shifted initial value there
    kinds = [rng.choice((KINDS if name not in ('uniformpdf', 'triangularpdf') else KINDS[:4]) + ['variable']) for _ in params]
    return {'kind': 'dist', 'name': name, 'params': params, 'xs': xs, 'param_kinds': kinds}


def check_dist_errors(ctx, res, rng):
    """parameters outside the documented domain given as literals (or parameters with such an initial value): ValueError while the
    formula is built, exactly when the model's check says so; inside the domain: no error"""
    import biogeme.distributions as D
    from biogeme.expressions import Variable

    cases = []
    for s in (0.0, -1.0, -1e-300, 0.5, 1e-300):
        for name in ('normalpdf', 'lognormalpdf', 'logisticcdf'):
            cases.append((name, [0.25, s]))
    for a, b in ((1.0, 1.0), (2.0, 1.0), (1.0, math.nextafter(1.0, 0)), (-1.0, 3.0)):
        cases.append(('uniformpdf', [a, b]))
    for a, b, c in ((0.0, 1.0, 0.0), (0.0, 1.0, 1.0), (0.0, 1.0, -0.5), (0.0, 1.0, 1.5), (0.0, 1.0, 0.5), (0.0, 1.0, math.nextafter(0.0, 1)), (2.0, 1.0, 1.5)):
        cases.append(('triangularpdf', [a, b, c]))
    for name, params in cases:
        kinds = [rng.choice(['numeric', 'float', 'fixed', 'free']) for _ in params]
        try:
            getattr(D, name)(Variable('x'), *[as_beta_arg(k, f'dp{i}', p) for i, (k, p) in enumerate(zip(kinds, params))])
            got = None
        except Exception as e:  # noqa: BLE001
            got = core.exc_kind(e)
        case = {'kind': 'dist_error', 'name': name, 'params': params, 'param_kinds': kinds}
        res.count(case, nontrivial=False)
        res.tally('dist:argument checks')
        # oracle from the docstrings: sigma > 0; a <= b (a < b assumed, a = b not refused); a < c < b
        if name == 'uniformpdf':
            expect = 'ValueError' if params[0] > params[1] else None
        elif name == 'triangularpdf':
            expect = None if params[0] < params[2] < params[1] else 'ValueError'
        else:
            expect = None if params[1] > 0 else 'ValueError'
        if got != expect:
            res.violate(f'{name}: argument check of the documented domain', case, got, expect, where=f'distributions.{name} (argument checks)')

        def cb(a, got=got, case=case):
            m = 'ValueError' if a['raises'] else None
            if m != got:
                res.diverge('argument checks of the density helpers vs Helpers.*Check', case, m, got)

        ctx.batch.add({'op': 'dist_check', 'name': name, 'args': [f2b(p) for p in params]}, cb)


def check_mixed(ctx, res, rng):
    """mixedloglikelihood(P) = log(MonteCarlo(P)): for an integrand whose value does not depend on the draw (a draw multiplied by a
    literal zero) the simulated log likelihood is log P on every row; the expression returned is log -> MonteCarlo -> P itself"""
    from biogeme.expressions import Variable, Numeric, bioDraws, exp
    from biogeme.loglikelihood import mixedloglikelihood, loglikelihood
    import biogeme.distributions as D

    where = 'loglikelihood.mixedloglikelihood'
    for _ in range(ctx.n(3, 40)):
        mu, s = rng.choice([0.3, -1.25, rng.uniform(-2, 2)]), rng.choice([0.5, 2.0, rng.uniform(0.1, 4)])
        xs = [mu, mu + s, mu - 2 * s, rng.uniform(mu - 4 * s, mu + 4 * s)]
        nd = rng.choice([1, 3, 10])
        case = {'kind': 'mixed', 'mu': mu, 's': s, 'xs': xs, 'draws': nd}
        res.count(case, nontrivial=True)
        res.tally('mixedloglikelihood')
        try:
            p = D.normalpdf(Variable('x'), mu, s) * exp(Numeric(0) * bioDraws('xi', rng.choice(['NORMAL', 'UNIFORM'])))
            e = mixedloglikelihood(p)
            shape = [type(e).__name__, type(e.child).__name__, e.child.child is p]
            vals = [float(v) for v in np.atleast_1d(e.get_value_c(database=make_db({'x': xs}), number_of_draws=nd, prepare_ids=True))]
            plain = ev(loglikelihood(D.normalpdf(Variable('x'), mu, s)), make_db({'x': xs}))
        except Exception as ex:  # noqa: BLE001
            res.violate(f'mixedloglikelihood raises {core.exc_kind(ex)}: {str(ex)[:120]}', case, core.exc_kind(ex), 'values', where=where)
            continue
        if shape != ['log', 'MonteCarlo', True]:
            res.violate('mixedloglikelihood(P) is not log(MonteCarlo(P))', case, shape, ['log', 'MonteCarlo', True], where=where)
            continue
        for x, v, q in zip(xs, vals, plain):
            exp_ = textbook('loglikreg', [x, mu, s])
            if abs(v - exp_) > 1e-9 + 1e-12 * abs(exp_) or abs(v - q) > 1e-12 * max(1.0, abs(q)):
                res.violate('simulated log likelihood of a draw-independent probability is not its logarithm', {**case, 'xs': [x]}, v, exp_, where=where)
                break


def integral_of(name, params, kinds):
    """numerical integral of the real density (midpoint rule aligned with the break points)"""
    n = 2000

    def mid(lo, hi):
        h = (hi - lo) / n
        return [lo + (i + 0.5) * h for i in range(n)], h

    def evx(pts):
        return ev_dist(name, params, kinds, pts, tied=False)

    if name == 'normalpdf':
        mu, s = params
        pts, h = mid(mu - 10 * s, mu + 10 * s)
        return sum(evx(pts)) * h
    if name == 'lognormalpdf':
        mu, s = params
        ts, h = mid(mu - 10 * s, mu + 10 * s)
        pts = [math.exp(t) for t in ts]
        vals = evx(pts)
        return sum(v * p for v, p in zip(vals, pts)) * h
    if name == 'uniformpdf':
        a, b = params
        pts, h = mid(a, b)
        out = sum(evx(pts)) * h
        lo, h2 = mid(a - 3, a)
        hi, _ = mid(b, b + 3)
        out += (sum(evx(lo)) + sum(evx(hi))) * h2
        return out
    if name == 'triangularpdf':
        a, b, c = params
        p1, h1 = mid(a, c)
        p2, h2 = mid(c, b)
        p0, h0 = mid(a - 2, a)
        p3, h3 = mid(b, b + 2)
        return (sum(evx(p1)) * h1 + sum(evx(p2)) * h2
                + sum(evx(p0)) * h0 + sum(evx(p3)) * h3)
    raise ValueError(name)


def check_dist(ctx, res, case, use_model=True, with_integral=False):
    name, params, xs, kinds = case['name'], case['params'], case['xs'], case['param_kinds']
    where = f'distributions.{name}' if name not in ('loglikreg', 'likreg') else 'loglikelihood.' + ('loglikelihoodregression' if name == 'loglikreg' else 'likelihoodregression')
    try:
        real = ev_dist(name, params, kinds, xs)
    except Exception as e:  # noqa: BLE001
        w = W_VARPARAM if ('variable' in kinds and core.exc_kind(e) == 'BiogemeError' and 'getValue' in str(e)) else where
        res.violate(f'{name} raises {core.exc_kind(e)}: {str(e)[:120]} on valid parameters', {**case, 'xs': xs[:2]}, core.exc_kind(e), 'values', where=w)
        res.tally(f'dist:{name} raises while being built')
        return
    std = {'normalpdf': [0.0, 1.0], 'lognormalpdf': [0.0, 1.0], 'logisticcdf': [0.0, 1.0], 'uniformpdf': [-1.0, 1.0],
           'triangularpdf': [-1.0, 1.0, 0.0]}.get(name)
    res.count({'dist': name, 'params': params, 'kinds': kinds}, nontrivial=params != std)
    res.tally(f'dist:{name}')
    for x, v in zip(xs, real):
        exp = textbook(name, [x] + params)
        if name == 'loglikreg':
            ok = abs(v - exp) <= 1e-9 + 1e-12 * abs(exp)
        else:
            ok = close(v, exp, rel=1e-9, abs_=1e-300)
        if not ok:
            res.violate(f'{name} differs from the textbook function', {'kind': 'dist', 'name': name, 'params': params, 'xs': [x], 'param_kinds': kinds},
                        v, exp, where=where)
            break
    if name == 'logisticcdf':
        order = sorted(range(len(xs)), key=lambda i: xs[i])
        vals = [real[i] for i in order]
        if any(b < a for a, b in zip(vals, vals[1:])) or not all(0.0 <= v <= 1.0 for v in vals):
            res.violate('logistic cdf is not monotone within [0, 1]', case, vals, 'non-decreasing', where=where)
        far = ev_dist(name, params, kinds, [params[0] - 800 * params[1], params[0] + 800 * params[1]], tied=False)
        if not (far[0] <= 1e-300 and far[1] == 1.0):
            res.violate('logistic cdf limits are not 0 and 1', case, far, [0.0, 1.0], where=where)
    if with_integral and name in ('normalpdf', 'lognormalpdf', 'uniformpdf', 'triangularpdf'):
        integ = integral_of(name, params, kinds)
        res.tally('dist:integral')
        if abs(integ - 1.0) > 2e-9 + (1e-6 if name == 'lognormalpdf' else 0.0):
            res.violate(f'{name} does not integrate to one', {**case, 'xs': [], 'integral': True}, integ, 1.0, where=where)
    if use_model:
        reqs = [{'op': 'dist', 'name': name, 'args': [f2b(x)] + [f2b(p) for p in params]} for x in xs]

        def cb(ans):
            for x, v, a in zip(xs, real, ans):
                m = b2f(a['value'])
                if not close(m, v, rel=1e-12, abs_=1e-300 if name != 'loglikreg' else 1e-12):
                    res.diverge(f'{name} vs Helpers.{name}', {'kind': 'dist', 'name': name, 'params': params, 'xs': [x]}, m, v)
                    return

        ctx.batch.add_many(reqs, cb)


# --------------------------------------------------------------------------- segmentation

CATS = ['low', 'mid', 'high', 'a', 'b2', 'b10', 'Z', 'yes', 'no', 'x_1']
SEGVARS = ['income', 'sex', 'v1', 'age_class']


def gen_seg_case(rng):
    nseg = rng.randint(1, 3)
    specs = []
    for var in rng.sample(SEGVARS, nseg):
        ncat = rng.choice([1, 2, 2, 3, 3, 4])
        cats = rng.sample(CATS, ncat)
        # several values of the variable may code the same category (also the reference one); negative codes
        keys = rng.sample([-7, -2, -1, 0, 1, 2, 3, 5, 7, 10, 12], ncat + rng.choice([0, 0, 0, 1, 1, 2]))
        if rng.random() < 0.5:
            mapping = [[k, cats[i % ncat]] for i, k in enumerate(keys)]
        else:
            mapping = [[k, cats[i] if i < ncat else rng.choice(cats)] for i, k in enumerate(keys)]
        ref = rng.choice([None] + cats)
        specs.append({'var': var, 'mapping': [{'key': k, 'cat': c} for k, c in mapping], 'reference': ref})
    beta = rng.choice(['b', 'B_TIME', 'asc1'])
    init = rng.choice([0, 0.5, -1.25, 1])
    lb, ub = rng.choice([(None, None), (-10, 10), (None, 5.5), (0, None)])
    names = {beta} | {f'{beta}_{m["cat"]}' for s in specs for m in s['mapping']}
    values = {n: rng.choice([rng.uniform(-2, 2), 0.25, -0.5, 1.0]) for n in sorted(names)}
    return {'kind': 'seg', 'beta': beta, 'init': init, 'lb': lb, 'ub': ub, 'specs': specs, 'values': values,
            'prefix': rng.choice(['segmented', 'seg']), 'entry': rng.choice(['class', 'class', 'function'])}


def run_seg_real(case):
    from biogeme.expressions import Beta, Variable, bioMultSum
    from biogeme import segmentation
    from biogeme.segmentation import Segmentation, DiscreteSegmentationTuple

    b = Beta(case['beta'], case['init'], case['lb'], case['ub'], 0)
    tuples = []
    for i, s in enumerate(case['specs']):
        var = s['var'] if i % 2 == 0 else Variable(s['var'])
        tuples.append(DiscreteSegmentationTuple(var, {m['key']: m['cat'] for m in s['mapping']}, reference=s['reference']))
    seg = Segmentation(b, tuples, prefix=case['prefix'])
    rows = list(itertools.product(*[[m['key'] for m in s['mapping']] + [99] for s in case['specs']]))[:80]
    cols = {s['var']: [r[i] for r in rows] for i, s in enumerate(case['specs'])}
    database = make_db(cols)
    W = 'segmentation.Segmentation.segmented_beta'
    byname = {n: float(v) for n, v in case['values'].items()}
    tcase = {k: case[k] for k in ('kind', 'beta', 'specs', 'prefix')}
    if case.get('entry') == 'function':
        # module-level entry point
        built = segmentation.segmented_beta(b, tuples, prefix=case['prefix'])
        what = 'segmentation.segmented_beta (function)'
    else:
        built = seg.segmented_beta()
        what = 'Segmentation.segmented_beta'
    vals = ev(built, database, betas=case['values'],
              tie={'what': what, 'case': tcase, 'where': W, 'betas': byname, 'tree': {'helper': 'seg', 'beta': case['beta'], 'specs': case['specs']}})
    code = seg.segmented_code()
    ns = {'Beta': Beta, 'bioMultSum': bioMultSum, 'Variable': Variable}
    exec(code, ns)  # noqa: S102 - the generated specification code is the object under test
    target = f"{case['prefix']}_{case['beta']}"
    if target in ns:
        expr = ns[target]
    else:
        expr = eval(code.strip().split('\n')[-1], ns)  # noqa: S307
    code_vals = ev(expr, database, betas=case['values'],
                   tie={'what': 'exec(Segmentation.segmented_code())', 'case': tcase, 'where': 'segmentation.Segmentation.segmented_code', 'betas': byname,
                        'tree': {'helper': 'segcode', 'beta': case['beta'], 'specs': case['specs']}})
    tokens = {'init': str(b.initValue), 'lb': str(b.lb), 'ub': str(b.ub), 'status': str(b.status)}
    return rows, vals, code, code_vals, tokens


def seg_oracle(case, row):
    """reference value + the shift of the row's category of every segmentation"""
    total = case['values'][case['beta']]
    hit = 0
    for s, key in zip(case['specs'], row):
        m = {e['key']: e['cat'] for e in s['mapping']}
        ref = s['reference'] if s['reference'] is not None else s['mapping'][0]['cat']
        if key in m and m[key] != ref:
            total += case['values'][f"{case['beta']}_{m[key]}"]
            hit += 1
    return total, hit


def check_seg(ctx, res, case, use_model=True):
    where = 'segmentation.Segmentation.segmented_beta'
    try:
        rows, vals, code, code_vals, tokens = run_seg_real(case)
    except Exception as e:  # noqa: BLE001
        res.violate(f'segmentation raises {type(e).__name__}: {e}', case, core.exc_kind(e), 'values', where=where)
        return
    hits = 0
    for row, v, cv in zip(rows, vals, code_vals):
        exp, hit = seg_oracle(case, row)
        hits += hit
        if not close(v, exp, rel=1e-12, abs_=1e-12):
            res.violate('segmented parameter is not reference + shift of the segment', {**case, 'row': list(row)}, v, exp, where=where)
            break
        if not close(cv, v, rel=1e-12, abs_=1e-12):
            res.violate('the generated specification code evaluates differently from segmented_beta', {**case, 'row': list(row), 'code': code},
                        cv, v, where='segmentation.Segmentation.segmented_code')
            break
    res.count({'seg': case}, nontrivial=hits > 0)
    res.tally(f'seg:nvars={len(case["specs"])}')
    res.tally(f'seg:entry={case.get("entry", "class")}')
    if any(len({m['key'] for m in s['mapping'] if m['cat'] == (s['reference'] if s['reference'] is not None else s['mapping'][0]['cat'])}) > 1 for s in case['specs']):
        res.tally('seg:reference coded by several values')
    if all(len({m['cat'] for m in s['mapping']}) == 1 for s in case['specs']):
        res.tally('seg:no non-reference category (bare parameter code)')
    if use_model:
        reqs = []
        for row in rows:
            reqs.append({
                'op': 'seg', 'beta': case['beta'], 'specs': case['specs'],
                'params': [{'name': n, 'value': f2b(v)} for n, v in case['values'].items()],
                'row': [{'name': s['var'], 'value': f2b(float(k))} for s, k in zip(case['specs'], row)],
                'prefix': case['prefix'], **tokens,
            })

        def cb(ans):
            if ans and ans[0]['code'] != code:
                res.diverge('segmented_code text vs Helpers.renderCode', case, ans[0]['code'], code)
            for row, v, a in zip(rows, vals, ans):
                m = b2f(a['value'])
                if a['code_value'] is None or not close(m, v, rel=1e-12, abs_=1e-12) or not close(b2f(a['code_value']), v, rel=1e-12, abs_=1e-12):
                    res.diverge('segmented_beta vs Helpers.segmentedBeta / evalCode', {**case, 'row': list(row)}, [m, a['code_value']], v)
                    return

        ctx.batch.add_many(reqs, cb)


# --------------------------------------------------------------------------- nested correlation


CORR_KINDS = ['number', 'beta', 'beta_override', 'fixed', 'expr', 'expr_override']
CORR_NAMES = ['unique', 'unique', 'same', 'default_clash', 'unnamed', 'unnamed', 'reused']


def gen_corr_case(rng):
    """nests = membership + mu; everything else is an input dimension the matrix must NOT depend on: the labels of the nests (unique,
    the same label twice, an explicit label equal to the default label 'nest_<position>' of an unnamed nest, unnamed, an unnamed nest
    object that already went through another specification and kept the label it was given there), the way mu is given (number, free /
    fixed Beta, formula, value through the `parameters` argument away from the initial value), alone alternatives (0, 1, >= 2)"""
    n = rng.randint(2, 7)
    cs = rng.sample([1, 2, 3, 4, 5, 7, 10, 11, 20], n)
    pool = list(cs)
    rng.shuffle(pool)
    nests = []
    want_alone = rng.choice([0, 0, 1, 2, None])
    while pool and len(nests) < 4 and (rng.random() < 0.85 if want_alone is None else len(pool) > want_alone):
        size = min(len(pool) - (want_alone or 0), rng.choice([1, 2, 2, 3, 4]))
        alts = [pool.pop() for _ in range(max(size, 1))]
        kind = rng.choice(CORR_KINDS)
        nests.append({'mu': rng.choice([rng.uniform(1.0, 5.0), 1.0, 2.0, 1.5, 1.25]), 'alts': alts, 'kind': kind,
                      'name_mode': rng.choice(CORR_NAMES), 'reuse_pos': rng.randint(1, 4)})
    # labels: 'default_clash' takes the default label of another position
    for i, nd in enumerate(nests):
        m = nd['name_mode']
        nd['name'] = {'unique': f'n{i}', 'same': 'shared', 'default_clash': f'nest_{rng.randint(1, max(len(nests), 1))}'}.get(m)
    mu = rng.choice([1.0, 1.0, 1.0, rng.uniform(0.5, 1.0)])
    return {'kind': 'corr', 'choice_set': cs, 'nests': nests, 'mu': mu, 'named': rng.random() < 0.3, 'old_syntax': rng.random() < 0.25}


def corr_kind(n):
    if 'kind' in n:
        return n['kind']
    return ('beta_override' if n.get('override') else 'beta') if n.get('as_beta') else 'number'      # cases stored before round 4


def run_corr_real(case):
    from biogeme.expressions import Beta, Numeric
    from biogeme.nests import NestsForNestedLogit, OneNestForNestedLogit

    objs = []
    params = {}
    for i, n in enumerate(case['nests']):
        kind, v = corr_kind(n), n['mu']
        if kind == 'number':
            p = v
        elif kind == 'beta':
            p = Beta(f'mu_{i}', v, 1, 10, 0)
        elif kind == 'beta_override':
            p = Beta(f'mu_{i}', 1.0 + i, 1, 10, 0)
            params[f'mu_{i}'] = v
        elif kind == 'fixed':
            p = Beta(f'mu_{i}', v, 1, 10, 1)
        elif kind == 'expr':
            p = Beta(f'mu_{i}', v / 2, None, None, 0) * Numeric(2)        # exact: scaling by a power of two
        else:
            p = Numeric(2) * Beta(f'mu_{i}', 3.0 + i, None, None, 0)
            params[f'mu_{i}'] = v / 2
        if case.get('old_syntax'):
            objs.append((p, list(n['alts'])))
            continue
        mode = n.get('name_mode', 'unique')
        name = n.get('name', f'n{i}') if mode in ('unique', 'same', 'default_clash') else None
        o = OneNestForNestedLogit(nest_param=p, list_of_alternatives=list(n['alts']), name=name)
        if mode == 'reused':
            # the same (unnamed) nest object first goes through another specification, at position `reuse_pos`
            fillers = [OneNestForNestedLogit(nest_param=1.0, list_of_alternatives=[], name=None) for _ in range(n.get('reuse_pos', 1) - 1)]
            NestsForNestedLogit(choice_set=list(case['choice_set']), tuple_of_nests=tuple(fillers + [o]))
        objs.append(o)
    nn = NestsForNestedLogit(choice_set=list(case['choice_set']), tuple_of_nests=tuple(objs))
    names = {a: f'alt{a}' for a in case['choice_set']} if case['named'] else None
    kw = {} if case['mu'] == 1.0 else {'mu': case['mu']}
    df = nn.correlation(parameters=params or None, alternatives_names=names, **kw)
    labels = [getattr(m, 'name', None) for m in nn.tuple_of_nests]
    return [[float(v) for v in r] for r in df.values.tolist()], labels


def check_corr(ctx, res, case, use_model=True):
    where = 'nests.NestsForNestedLogit.correlation'
    try:
        mat, labels = run_corr_real(case)
    except Exception as e:  # noqa: BLE001
        res.violate(f'correlation raises {type(e).__name__}: {e}', case, core.exc_kind(e), 'matrix', where=where)
        return
    cs = case['choice_set']
    res.count({'corr': case}, nontrivial=any(len(n['alts']) >= 2 for n in case['nests']))
    res.tally(f'corr:n={len(cs)}')
    n_alone = len(set(cs) - {a for n in case['nests'] for a in n['alts']})
    res.tally(f'corr:alone={min(n_alone, 2)}{"+" if n_alone >= 2 else ""}')
    if len(set(labels)) < len(labels):
        mus = {}
        for lab, n in zip(labels, case['nests']):
            mus.setdefault(lab, set()).add(n['mu'])
        res.tally('corr:two nests with the same label' + (' and different mu' if any(len(v) > 1 for v in mus.values()) else ''))
    for n in case['nests']:
        res.tally(f'corr:mu as {corr_kind(n)}')
        res.tally(f'corr:label {n.get("name_mode", "unique") if not case.get("old_syntax") else "tuple syntax"}')
    nest_of = {a: n for n in case['nests'] for a in n['alts']}
    for p, i in enumerate(cs):
        for q, j in enumerate(cs):
            if i == j:
                exp = 1.0
            elif i in nest_of and j in nest_of and nest_of[i] is nest_of[j]:
                m = nest_of[i]['mu']
                exp = 1.0 - 1.0 / (m * m) if case['mu'] == 1.0 else 1.0 - case['mu'] ** 2 / (m * m)
            else:
                exp = 0.0
            if not close(mat[p][q], exp, rel=1e-13, abs_=1e-13):
                res.violate('nested-logit correlation is not 1 - 1/mu^2 within a nest, 0 across, 1 on the diagonal',
                            {**case, 'pair': [i, j]}, mat[p][q], exp, where=where)
                return
    if use_model:
        req = {'op': 'corr', 'mu': f2b(case['mu']), 'choice_set': cs,
               'nests': [{'mu': f2b(n['mu']), 'alts': n['alts']} for n in case['nests']]}

        def cb(a):
            m = [[b2f(v) for v in r] for r in a['matrix']]
            if any(not close(x, y, rel=1e-13, abs_=1e-13) for r1, r2 in zip(m, mat) for x, y in zip(r1, r2)) or len(m) != len(mat):
                res.diverge('correlation vs Helpers.corrMatrix', case, m, mat)

        ctx.batch.add(req, cb)


# --------------------------------------------------------------------------- translator: Generated/Helpers.lean

GEN_FILE = core.LEAN / 'Generated' / 'Helpers.lean'
T_NUMS = [1.0, 2.5, 3.0, 5.25, 8.0, 9.5]          # dyadic: Python's differences are exact, their repr is their decimal value
T_SEGS = [
    [{'var': 'inc', 'mapping': [{'key': -2, 'cat': 'low'}, {'key': 1, 'cat': 'mid'}, {'key': 3, 'cat': 'high'}, {'key': 7, 'cat': 'mid'}], 'reference': 'mid'}],
    [{'var': 'sex', 'mapping': [{'key': 0, 'cat': 'm'}, {'key': 1, 'cat': 'f'}], 'reference': None},
     {'var': 'age', 'mapping': [{'key': 10, 'cat': 'b10'}, {'key': 2, 'cat': 'b2'}, {'key': -1, 'cat': 'b2'}], 'reference': 'b10'}],
    [{'var': 'v', 'mapping': [{'key': 1, 'cat': 'only'}, {'key': 5, 'cat': 'only'}], 'reference': None}],
]


def _lean_num(tok):
    from decimal import Decimal

    d = Decimal(tok)
    txt = format(abs(d), 'f')
    if '.' not in txt:
        txt += '.0'
    return f'(-{txt})' if d < 0 else txt


def _lean_str(s):
    import json

    return json.dumps(s)


def _lean_specs(specs):
    out = []
    for sp in specs:
        m = ', '.join(f"({e['key']}, {_lean_str(e['cat'])})" for e in sp['mapping'])
        r = 'none' if sp['reference'] is None else f"some {_lean_str(sp['reference'])}"
        out.append(f"⟨{_lean_str(sp['var'])}, [{m}], {r}⟩")
    return '[' + ', '.join(out) + ']'


def translator_shapes():
    """(name, build() -> real expression, tree request, Lean term of the model's builder) for a fixed family of shapes"""
    from biogeme.expressions import Variable, Beta, Numeric

    shapes = []
    for k in range(2, 7):
        for ol, orr in ((False, False), (True, False), (False, True), (True, True)):
            n = k - int(ol) - int(orr)
            if n < 1:
                continue
            nums = T_NUMS[:n]
            ths = ([None] if ol else []) + nums + ([None] if orr else [])
            tag = f"K{k}_{'o' if ol else 'c'}{'o' if orr else 'c'}"
            lths = f"(mkThs {str(ol).lower()} [{', '.join(_lean_num(repr(t)) for t in nums)}] {str(orr).lower()})"
            lstrs = '[' + ', '.join('none' if t is None else f'some {_lean_str(str(t))}' for t in ths) + ']'
            e_ths = [None if t is None else f2b(t) for t in ths]

            def b_formula(ths=ths):
                from biogeme.models import piecewise_formula

                return piecewise_formula('x', list(ths))

            sorted_pf = ('(by simp only [List.pairwise_cons, List.mem_cons, List.not_mem_nil, or_false, forall_eq_or_imp, forall_eq, IsEmpty.forall_iff, '
                         'implies_true, List.Pairwise.nil, and_true] <;> norm_num)')
            olb, orb = str(ol).lower(), str(orr).lower()
            shapes.append((f'pw_formula_{tag}', b_formula, {'helper': 'pw_formula_default', 'var': 'x', 'ths': e_ths, 'th_strs': th_strs(ths)},
                           f'pwFormulaE (.var "x") {lths} ((pwBetaNames "x" {lstrs}).map .beta)',
                           (f'pwFunction (env.var "x") {lths} (((pwBetaNames "x" {lstrs}).map .beta).map (evalT env))',
                            f'C17.pw_formula_built_eq_function env _ {olb} {orb} _ _ _ {sorted_pf}')))
            if k >= 3:
                def b_asvar(ths=ths):
                    from biogeme.models import piecewise_as_variable

                    return piecewise_as_variable(Variable('x'), list(ths))

                shapes.append((f'pw_as_variable_{tag}', b_asvar, {'helper': 'pw_asvar_default', 'var': 'x', 'ths': e_ths, 'th_strs': th_strs(ths)},
                               f'pwAsVariableE (.var "x") {lths} ((pwBetaNames "x" {lstrs}.tail).map .beta)',
                               (f'pwFunction (env.var "x") {lths} (1 :: ((pwBetaNames "x" {lstrs}.tail).map .beta).map (evalT env))',
                                f'C17.pw_as_variable_built_eq_function env _ {olb} {orb} _ _ _ {sorted_pf}')))

    def bx(l):
        from biogeme.models import boxcox

        return lambda: boxcox(Variable('x'), l())

    shapes.append(('boxcox_variable', bx(lambda: Variable('l')), {'helper': 'boxcox', 'x': {'var': 'x'}, 'l': {'var': 'l'}}, 'boxcoxE (.var "x") (.var "l")'))
    shapes.append(('boxcox_beta', bx(lambda: Beta('ell', 0.25, -10, 10, 0)), {'helper': 'boxcox', 'x': {'var': 'x'}, 'l': {'beta': 'ell'}}, 'boxcoxE (.var "x") (.beta "ell")'))
    shapes.append(('boxcox_numeric', bx(lambda: Numeric(0.5)), {'helper': 'boxcox', 'x': {'var': 'x'}, 'l': {'num': f2b(0.5)}}, 'boxcoxE (.var "x") (.num 0.5)'))
    lean_name = {'normalpdf': 'normalpdfE', 'lognormalpdf': 'lognormalpdfE', 'uniformpdf': 'uniformpdfE', 'triangularpdf': 'triangularpdfE',
                 'logisticcdf': 'logisticcdfE', 'loglikreg': 'loglikRegE', 'likreg': 'likRegE'}
    for name, params, kinds in (('normalpdf', [0.5, 2.0], ['numeric', 'free']), ('lognormalpdf', [0.25, 0.5], ['fixed', 'float']),
                                ('uniformpdf', [-1.5, 2.0], ['float', 'numeric']), ('triangularpdf', [-1.0, 3.0, 0.5], ['numeric', 'free', 'fixed']),
                                ('logisticcdf', [0.5, 2.0], ['free', 'numeric']), ('loglikreg', [0.5, 2.0], ['free', 'free']),
                                ('likreg', [0.5, 2.0], ['numeric', 'fixed'])):
        leaves = [leaf_of(k, f'dp{i}', p)[0] for i, (k, p) in enumerate(zip(kinds, params))]
        lleaves = ' '.join(f'(.beta {_lean_str(l["beta"])})' if 'beta' in l else f'(.num {_lean_num(repr(p))})' for l, p in zip(leaves, params))
        shapes.append((f'{name}_shape', (lambda name=name, params=params, kinds=kinds: build_dist(name, params, kinds)),
                       {'helper': 'dist', 'name': name, 'args': [{'var': 'x'}] + leaves}, f'{lean_name[name]} (.var "x") {lleaves}'))
    for i, specs in enumerate(T_SEGS):
        def b_seg(specs=specs, code=False):
            from biogeme.expressions import bioMultSum
            from biogeme.segmentation import Segmentation, DiscreteSegmentationTuple

            b = Beta('b', 0.5, None, None, 0)
            seg = Segmentation(b, [DiscreteSegmentationTuple(sp['var'], {m['key']: m['cat'] for m in sp['mapping']}, reference=sp['reference']) for sp in specs])
            if not code:
                return seg.segmented_beta()
            ns = {'Beta': Beta, 'bioMultSum': bioMultSum, 'Variable': Variable}
            text = seg.segmented_code()
            exec(text, ns)  # noqa: S102
            return ns['segmented_b'] if 'segmented_b' in ns else eval(text.strip().split('\n')[-1], ns)  # noqa: S307

        shapes.append((f'segmented_beta_{i}', b_seg, {'helper': 'seg', 'beta': 'b', 'specs': specs}, f'segmentedBetaE "b" {_lean_specs(specs)}'))
        shapes.append((f'segmented_code_{i}', (lambda specs=specs: b_seg(specs, True)), {'helper': 'segcode', 'beta': 'b', 'specs': specs},
                       f'segmentedCodeE "b" {_lean_specs(specs)}'))
    return shapes


def translate(ctx):
    """regenerate lean/Generated/Helpers.lean: for a fixed family of shapes (threshold lists of every length 2..6 with open/closed
    ends, the three kinds of Box-Cox exponent, every density helper, segmentations) the expression the LIVE helper returns -- its
    signature text read by the model of the engine's reader -- is written as Lean data, with the obligation that it IS the tree the
    Lean model of the helper builds (so the closed-form theorems of Props/C17.lean are about the formula the code really builds)"""
    import re

    obligations = []
    ok_b, log_b = core.lean_build(['Props.C17', 'Driver.Common'])
    if not ok_b:
        return [{'name': 'Generated.Helpers', 'ok': False, 'why': 'the builder model does not build: ' + log_b[-300:]}]
    items, reqs = [], []
    with core.scratch():
        database = make_db({'x': [0.5, 2.0], 'l': [0.5, 0.0], 'inc': [1, 3], 'sex': [0, 1], 'age': [2, 10], 'v': [1, 5]})
        for name, build, tree, lterm, *more in translator_shapes():
            try:
                o = leanrun.observe(build(), database)
            except Exception as e:  # noqa: BLE001
                obligations.append({'name': f'Generated.Helpers.{name}_eq', 'ok': False, 'why': f'the helper raises on this shape: {core.exc_kind(e)}: {e}'[:300]})
                continue
            if not o.get('signature'):
                obligations.append({'name': f'Generated.Helpers.{name}_eq', 'ok': False, 'why': f'no formula reached the engine: {o.get("error")}'[:300]})
                continue
            items.append((name, o, lterm, more[0] if more else None))
            reqs.append({'op': 'tree', 'text': o['signature'], 'nums': leanrun.num_table(o['signature']), 'benv': [], 'rows': [], 'render': True, **tree})
    answers = ctx.driver.ask(reqs) if reqs else []
    lines = ['/- GENERATED by harness/props/c17.py (translate) from the live helpers of the library on every run -- do not edit.',
             'For each shape: `g_<shape>` is the expression the helper returned (its signature text, read by the model of the engine\'s',
             'reader, as a tree with decimal literals as written in the text); `<shape>_eq` states that it is the tree the Lean model of the',
             'helper (Model/HelpersBuild.lean) builds for that shape.  The closed-form theorems of Props/C17.lean (section "the formulas the',
             'helpers build") are about the right-hand sides; `<shape>_value` applies them: the formula the code built for the shape coincides with the plain',
             'piecewise function at every argument and parameter values. -/', 'import Model.HelpersBuild', 'import Proofs.HelpersBuild', 'import Props.C17', '',
             'namespace GenHelpers', 'open HelpersBuild Helpers Expr', '']
    names = []
    for (name, o, lterm, value), a in zip(items, answers):
        if not a.get('read') or 'render' not in a:
            obligations.append({'name': f'Generated.Helpers.{name}_eq', 'ok': False, 'why': 'the signature text is not read back as a tree of helper nodes'})
            continue
        tok_of = {}
        for tok, bits in leanrun.num_table(o['signature']):
            tok_of.setdefault(bits, tok)
        term = re.sub(r'NUM(\d+)', lambda m: _lean_num(tok_of[int(m.group(1))]), a['render'])
        lines += [f'noncomputable def g_{name} : HE ℝ :=', f'  {term}', '', f'theorem {name}_eq : g_{name} = {lterm} := by', f'  unfold g_{name}', '  helpers_eq', '']
        names.append(f'{name}_eq')
        if value is not None:
            # the closed-form theorem of Props/C17.lean applied to the formula the code built for this shape
            lines += [f'theorem {name}_value (env : Env ℝ) : evalT env g_{name} = {value[0]} := by', f'  rw [{name}_eq, {value[1]}]', '  simp [evalT_var]', '']
            names.append(f'{name}_value')
    lines += ['end GenHelpers', '']
    text = '\n'.join(lines)
    if not GEN_FILE.exists() or GEN_FILE.read_text() != text:
        GEN_FILE.write_text(text)
    ok, log = core.lean_build(['Generated.Helpers'])
    failed = set()
    if not ok:
        tl = text.splitlines()
        starts = {n: next(i for i, l in enumerate(tl, 1) if l.startswith(f'theorem {n} ')) for n in names}
        for m in re.finditer(r'error: Generated/Helpers\.lean:(\d+):\d+', log):
            ln = int(m.group(1))
            owner = max((n for n in names if starts[n] <= ln), key=lambda n: starts[n], default=None)
            if owner:
                failed.add(owner)
        if not failed:
            failed = set(names)
    axioms_bad = {}
    if ok and names:
        import os
        import tempfile

        with tempfile.NamedTemporaryFile('w', suffix='.lean', dir=core.LEAN, delete=False) as tf:
            tf.write('import Generated.Helpers\n' + ''.join(f'#print axioms GenHelpers.{n}\n' for n in names))
            tname = tf.name
        try:
            pr = core.lake(['env', 'lean', tname])
            out = (pr.stdout or '') + (pr.stderr or '')
        finally:
            os.unlink(tname)
        for n in names:
            m = re.search(r"'GenHelpers\." + re.escape(n) + r"' (does not depend on any axioms|depends on axioms: \[([^\]]*)\])", out, flags=re.S)
            axs = {x.strip() for x in (m.group(2) or '').replace('\n', ' ').split(',') if x.strip()} if m else {'?'}
            if not axs <= core.ALLOWED_AXIOMS:
                axioms_bad[n] = sorted(axs)
    for n in names:
        bad = n in failed or n in axioms_bad
        obligations.append({'name': f'Generated.Helpers.{n}', 'ok': not bad,
                            'why': '' if not bad else (f'axioms {axioms_bad[n]}' if n in axioms_bad else
                                                       'the formula the live helper builds for this shape is not the formula of the Lean model (helpers_eq fails)')})
    return obligations


# --------------------------------------------------------------------------- the check

CORPUS = [
    # F05 (fixed): non-zero first threshold, argument in the first segment
    {'kind': 'pw', 'ths': [1.0, 2.0, 5.0], 'betas': [2.0, -1.0], 'xs': [1.5, 0.5, 1.0, 2.0, 3.0, 7.0]},
    # known findings FC17a (two thresholds) and FC17b (as_variable)
    {'kind': 'pw', 'ths': [1.0, 3.0], 'betas': [2.0], 'xs': [2.0, 0.0, 1.0, 3.0, 4.0]},
    {'kind': 'pw', 'ths': [None, 3.0], 'betas': [2.0], 'xs': [2.0, 5.0]},
    {'kind': 'pw', 'ths': [1.0, None], 'betas': [2.0], 'xs': [0.0, 2.0]},
    {'kind': 'pw', 'ths': [1.0, 3.0, 4.0], 'betas': [1.0, 0.5], 'xs': [3.5, 0.0, 2.0, 5.0]},
    {'kind': 'pw', 'ths': [None, 10.0, 20.0, None], 'betas': [0.5, -0.25, 2.0], 'xs': [-5.0, 10.0, 15.0, 20.0, 33.0]},
]


def dispatch(ctx, res, case, use_model=True):
    k = case.get('kind')
    if k == 'pw':
        check_pw(ctx, res, case, use_model)
    elif k == 'dist':
        check_dist(ctx, res, case, use_model, with_integral=bool(case.get('integral')))
    elif k == 'seg':
        check_seg(ctx, res, case, use_model)
    elif k == 'corr':
        check_corr(ctx, res, case, use_model)
    else:
        raise ValueError(f'unknown case kind {k}')


def stream(ctx, res, rng, n_pw, n_box, n_dist, n_seg, n_corr, n_int, use_model=True):
    for _ in range(n_pw):
        ths = gen_thresholds(rng)
        betas = gen_betas(rng, len(ths) - 1)
        kinds = [rng.choice(KINDS) for _ in betas]
        if all(t is None or float(t).is_integer() for t in ths) and rng.random() < 0.5:
            ths = [None if t is None else int(t) for t in ths]          # Python ints: names beta_x_1_5, Numeric(1)
            res.tally('pw:int-typed thresholds')
        check_pw(ctx, res, {'kind': 'pw', 'ths': ths, 'betas': betas, 'xs': pw_points(rng, ths), 'beta_kinds': kinds,
                            'xarg': rng.choice(['var', 'name'])}, use_model)
    for _ in range(n_box):
        check_boxcox(ctx, res, rng, use_model)
    names = ['normalpdf', 'lognormalpdf', 'uniformpdf', 'triangularpdf', 'logisticcdf', 'loglikreg', 'likreg']
    for i in range(n_dist):
        check_dist(ctx, res, gen_dist_case(rng, names[i % len(names)], standard=(i < len(names) and i % 2 == 0)), use_model)
    for i in range(n_int):
        c = gen_dist_case(rng, names[i % 4])
        c['xs'] = c['xs'][:3]
        c['integral'] = True
        check_dist(ctx, res, c, use_model, with_integral=True)
    for _ in range(n_seg):
        check_seg(ctx, res, gen_seg_case(rng), use_model)
    for _ in range(n_corr):
        check_corr(ctx, res, gen_corr_case(rng), use_model)


def check(ctx) -> Result:
    res = Result(rule=RULE, tolerance='model vs code: 1e-10..1e-12 relative (Box-Cox regular branch: + cancellation allowance eps/|l|); '
                 'oracles: 1e-9 relative for densities, series remainder bound for Box-Cox, 1e-11 for piecewise')
    rng = ctx.rng
    global _TIES
    _TIES = []
    _TIE_COUNT.clear()
    try:
        with core.scratch():
            for c in CORPUS:
                dispatch(ctx, res, dict(c))
                res.tally('corpus')
            check_pw_errors(ctx, res, rng)
            check_dist_errors(ctx, res, rng)
            check_mixed(ctx, res, rng)
            stream(ctx, res, rng, n_pw=ctx.n(150, 4000), n_box=ctx.n(5, 80), n_dist=ctx.n(70, 2000), n_seg=ctx.n(50, 1500),
                   n_corr=ctx.n(80, 2500), n_int=ctx.n(8, 120))
            ctx.batch.flush()
            finish_ties(ctx, res)
    finally:
        _TIES = None
    import os

    if os.environ.get('C17_DEBUG'):
        import json

        with open(os.environ['C17_DEBUG'], 'w') as f:
            json.dump({'divergences': res.divergences, 'violations': res.violations}, f, default=str)
    return res


def search(ctx, res, broken):
    """an obligation or the correspondence broke without a concrete failing input: apply the oracles
    of the statement to the real code on a widened stream (the model is not consulted)"""
    rng = core.rng_for('C17-search', ctx.seed)
    r2 = Result()
    with core.scratch():
        for c in CORPUS:
            dispatch(ctx, r2, dict(c), use_model=False)
        stream(ctx, r2, rng, n_pw=400, n_box=10, n_dist=200, n_seg=150, n_corr=200, n_int=12, use_model=False)
    matchers = MATCHERS
    for v in r2.violations:
        known = False
        for f in ctx.findings:
            if f.get('kind') == 'known' and f.get('where') == v.get('where'):
                pred = matchers.get(f.get('match', ''))
                if pred is None or pred(v.get('case')):
                    known = True
        if not known:
            res.violations.append(v)
            return


def replay(ctx, obj):
    case = obj.get('case') or {}
    out = {'replayed': obj.get('what')}
    r = Result()
    with core.scratch():
        k = case.get('kind')
        if k in ('pw', 'dist', 'seg', 'corr'):
            c = dict(case)
            if k == 'pw' and 'xs' not in c:
                c['xs'] = [0.0]
            dispatch(ctx, r, c, use_model=False)
        elif k in ('boxcox', 'boxcox_jump'):
            from biogeme.expressions import Variable
            from biogeme.models import boxcox

            ls = [case['l']] + ([case['l2']] if 'l2' in case else [])
            vals = ev(boxcox(Variable('x'), Variable('l')), make_db({'x': [case['x']] * len(ls), 'l': ls}))
            x = case['x']
            out['observed'] = vals
            if k == 'boxcox':
                l = case['l']
                ref = 0.0 if x == 0 else boxcox_ref(x, l)
                bound = 0.0 if x == 0 else (abs(math.log(x)) ** 5 * abs(l) ** 4 / 100 if abs(l) < SW else 4e-16 * max(1.0, abs(x**l)) / abs(l)) + 1e-12 * max(1.0, abs(ref))
                out['expected'] = ref
                if abs(vals[0] - ref) > bound:
                    r.violate('Box-Cox', case, vals[0], ref)
            else:
                L = abs(math.log(x))
                allowed = L**5 * SW**4 / 100 + 1e-9 * L * L + 4e-16 * max(1.0, x**SW, x**-SW) / SW + 1e-12
                if abs(vals[0] - vals[1]) > allowed:
                    r.violate('Box-Cox jump', case, abs(vals[0] - vals[1]), allowed)
        elif k == 'dist_error':
            import biogeme.distributions as D
            from biogeme.expressions import Variable

            name, params, kinds = case['name'], case['params'], case['param_kinds']
            try:
                getattr(D, name)(Variable('x'), *[as_beta_arg(kd, f'dp{i}', pv) for i, (kd, pv) in enumerate(zip(kinds, params))])
                got = None
            except Exception as e:  # noqa: BLE001
                got = core.exc_kind(e)
            if name == 'uniformpdf':
                expect = 'ValueError' if params[0] > params[1] else None
            elif name == 'triangularpdf':
                expect = None if params[0] < params[2] < params[1] else 'ValueError'
            else:
                expect = None if params[1] > 0 else 'ValueError'
            out['observed'], out['expected'] = got, expect
            if got != expect:
                r.violate('argument check', case, got, expect)
        elif k == 'mixed':
            class _C:  # the stream of check_mixed re-run on this one case
                pass
            from biogeme.expressions import Variable, Numeric, bioDraws, exp
            from biogeme.loglikelihood import mixedloglikelihood
            import biogeme.distributions as D

            try:
                p = D.normalpdf(Variable('x'), case['mu'], case['s']) * exp(Numeric(0) * bioDraws('xi', 'NORMAL'))
                e = mixedloglikelihood(p)
                vals = [float(v) for v in np.atleast_1d(e.get_value_c(database=make_db({'x': case['xs']}), number_of_draws=case['draws'], prepare_ids=True))]
                out['observed'] = vals
                if [type(e).__name__, type(e.child).__name__, e.child.child is p] != ['log', 'MonteCarlo', True] or any(
                        abs(v - textbook('loglikreg', [x, case['mu'], case['s']])) > 1e-9 + 1e-12 * abs(v) for x, v in zip(case['xs'], vals)):
                    r.violate('mixedloglikelihood', case, vals, 'log of the probability')
            except Exception as ex:  # noqa: BLE001
                r.violate('mixedloglikelihood raises', case, core.exc_kind(ex), 'values')
        else:
            out.update({'property_fails': False, 'note': 'nothing to replay (no concrete input in this file)'})
            return out
    ctx.batch.items.clear()
    out['property_fails'] = bool(r.violations)
    out['violations'] = r.violations[:2]
    return out
