"""C18 — MDCEV forecasts solve the consumer problem and model pieces agree.

Tie: correspondence + relations on real runs.  An abstract problem (variant, options, parameter
values per abstract alternative, rows, budget, Gumbel draws) is instantiated under several
labelings (1..n, shuffled, sparse such as {7, 3, 12}) into real `Translated` / `GammaProfile` /
`Generalized` / `NonMonotonic` objects.  Driven: `forecast_bisection_one_draw`,
`forecast_bruteforce_one_draw`, `forecast`, `validation`, `identification_chosen_alternatives`,
`utility_one_alternative`, `derivative_utility_one_alternative`,
`optimal_consumption_one_alternative`, `utility_expression_one_alternative` (through the engine,
value and gradient), `forecast_comparison_one_draw`.

Oracle (from the statement, on the real outputs): x >= 0, sum x = B (1e-8), equal marginal
utilities on the support and not larger at zero elsewhere, outside good consumed, objective >=
brute force - tolerance, numeric utility = symbolic utility, derivative = derivative (engine
gradient and finite differences), inverse inverts, and the same results under every labeling.
The Lean driver evaluates the relation of the theorems (`kktB`) on the real outputs and recomputes
`U, dU, inv, identifyChosen, forecast` (Float instance of the model the theorems are about).
"""

from __future__ import annotations

import logging
import math

import numpy as np

from lib import core
from lib.core import Result, f2b, b2f, close

READY = True
MANIFEST = dict(
    text='Proof (Lean 4, over R): for each of the four variants (with/without outside good, prices, scale) the derivative function is the derivative of the utility '
    '(C18.deriv_all, deriv_translated, deriv_gamma_profile, deriv_generalized, deriv_non_monotonic), the closed-form consumption inverts it (C18.inverse_*), marginal utility is '
    'decreasing and utilities are concave (C18.marginal_utility_decreasing, utility_concave), total consumption is decreasing in the multiplier (C18.consumption_monotone); '
    'KKT point => no feasible point is better, for every family of concave utilities (C18.kkt_optimal) and for the model\'s sum_of_utilities (C18.kkt_optimal_variant; '
    'the Boolean relation evaluated by the driver is its hypothesis list: C18.kkt_relation_exact); bisection keeps lo <= lambda* <= hi, halves the bracket and stops only by one of '
    'the two tolerances (C18.bisection_invariant, bisection_halves, bisection_termination); the outside good is always in the identified set and receives a positive consumption '
    '(C18.outside_good_always_chosen, outside_good_consumed); relabelling commutes with the forecast on any number type (C18.labels_irrelevant) and the forecast does not depend on '
    'the order of index_to_key over R (C18.order_irrelevant). Tie: four variants x options x labelings (1..n, shuffled, sparse) x budgets x rows x Gumbel draws on the real code; '
    'KKT relation evaluated by the Lean driver on every real forecast; pointwise comparison of U, U\', inverse, identification and forecast with the Float model; brute-force comparison; '
    'numeric utility vs symbolic utility and its engine gradient; Mdcev.validation, Mdcev.forecast, forecast_comparison_one_draw under relabelling.',
    design='DESIGN.md §5 C18',
    technique='Lean 4 theorems over an executable model + relation evaluated on real forecasts + differential correspondence + relabelling stream',
    note='Partial: SLSQP (brute force) is external, only "forecast >= brute force - tolerance" is required; concavity on the documented domain 0 < alpha < 1, gamma > 0, price > 0; '
    'optimality is proved against competitors that give the outside good a positive amount; "numeric utility = symbolic utility" is validated through the engine only (no Lean theorem); '
    'IEEE rounding not modelled (tolerances stated); the iteration order of a CPython set is read from the real object. Two defects of the code are listed as known findings '
    '(F-C18-1 label compared with a position in GammaProfile; F-C18-2 forecast_comparison_one_draw mixes sorted-label and set order).',
)
TRUSTED = [
    'scipy SLSQP (reference optimiser, may be inexact)',
    'the C++ engine evaluates the baseline utilities and the symbolic utility expression (value and gradient)',
    'CPython iteration order of a set of ints (Mdcev.index_to_key) is read from the real object, not modelled',
    'numpy exp/log/power vs Lean Float (libm) agree to a few ulp',
]
ASSUMPTIONS = [
    'documented parameter domain: 0 < alpha < 1, gamma > 0, price > 0, scale > 0, budget > 0',
    'no ties among the marginal utilities at zero (probability zero for continuous draws) in the label-irrelevance theorem',
]
RULE = (
    'one evaluation = one (problem, labeling, row, draw) forecast or one alternative of a pieces check; non-trivial = forecast with >= 3 goods where '
    'at least one good is not consumed or the labeling differs from 1..n'
)

VARIANTS = ['translated', 'gamma_profile', 'generalized', 'non_monotonic']
F_C18_1_WHERE = 'GammaProfile.derivative_utility_one_alternative: label compared with outside_good_index (a position)'
F_C18_2_WHERE = 'Mdcev.forecast_comparison_one_draw: consumption ordered by sorted label, epsilon/utilities by set-iteration position'

TOL_BUDGET = 1e-8
TOL_MARG = 1e-6


# ----------------------------------------------------------------------------- generators


def gumbel(rng):
    u = rng.random()
    u = min(max(u, 1e-12), 1 - 1e-12)
    return -math.log(-math.log(u))


def gen_problem(rng, variant=None, n=None):
    variant = variant or rng.choice(VARIANTS)
    n = n or rng.choice([2, 3, 3, 4, 5, 6])
    outside = rng.random() < 0.6
    prob = {
        'variant': variant,
        'n': n,
        'outside': rng.randrange(n) if outside else None,  # abstract position of the outside good
        'psi_c': [rng.randint(-12, 12) / 8 for _ in range(n)],
        'psi_b': [rng.randint(-4, 4) / 8 for _ in range(n)],
        'gamma': [rng.choice([0.5, 1.0, 1.5, 2.0, 3.49, 4.0]) for _ in range(n)],
        'alpha': [rng.choice([0.25, 0.5, 0.75, 0.3, 0.6, 0.8]) for _ in range(n)],
        'prices': [rng.choice([0.5, 1.0, 1.25, 2.0, 3.0]) for _ in range(n)] if variant in ('gamma_profile', 'generalized') and rng.random() < 0.5 else None,
        'mu_c': [rng.randint(-8, 2) / 8 for _ in range(n)],
        'scale': rng.choice([None, None, 0.5, 1.0, 2.0]),
        'rows': [{'x': rng.randint(-16, 16) / 8, 'z': rng.randint(0, 8) / 4} for _ in range(rng.randint(1, 2))],
        'budget': rng.choice([1.0, 2.0, 5.0, 10.0, 37.5, 100.0]),
    }
    n_draws = rng.randint(1, 2)
    prob['eps'] = [[[gumbel(rng) for _ in range(n)] for _ in range(n_draws)] for _ in prob['rows']]
    return prob


def set_order(labels):
    """iteration order of the set built from the dict keys (what Mdcev.index_to_key will be)"""
    return [k for k in set(dict.fromkeys(labels))]


def labelings(rng, n):
    """1..n, a shuffle of 1..n, and sparse labels whose set order differs from the sorted order"""
    seq = list(range(1, n + 1))
    sh = list(seq)
    while n > 1 and sh == seq:
        rng.shuffle(sh)
    for _ in range(50):
        sp = rng.sample(range(0, 41), n)
        if set_order(sp) != sorted(sp):
            break
    return {'seq': seq, 'shuffled': sh, 'sparse': sp}


def f_c18_1_shape(variant, labels, outside_label):
    """gamma profile with an outside good, and a *different* alternative whose label equals the
    position of the outside good in the set-iteration order"""
    if variant != 'gamma_profile' or outside_label is None:
        return False
    pos = set_order(labels).index(outside_label)
    return pos in labels and pos != outside_label


def order_differs(labels):
    return set_order(labels) != sorted(labels)


MATCHERS = {
    'label_equals_outside_position': lambda sub: isinstance(sub, dict) and 'labels' in sub
    and f_c18_1_shape(sub['problem']['variant'], sub['labels'], sub['labels'][sub['problem']['outside']] if sub['problem']['outside'] is not None else None),
    'set_order_differs': lambda sub: isinstance(sub, dict) and 'labels' in sub and order_differs(sub['labels']),
}


# ----------------------------------------------------------------------------- adapter


def build_model(prob, labels):
    from biogeme.expressions import Beta, Numeric, Variable
    from biogeme.mdcev import GammaProfile, Translated, Generalized, NonMonotonic

    n = prob['n']
    x, z = Variable('x'), Variable('z')
    base = {labels[j]: Beta(f'c_{j}', prob['psi_c'][j], None, None, 0) + Beta(f'b_{j}', prob['psi_b'][j], None, None, 0) * x for j in range(n)}
    gam = {labels[j]: (None if prob['outside'] == j else Beta(f'g_{j}', prob['gamma'][j], 0.001, None, 0)) for j in range(n)}
    alp = {labels[j]: Beta(f'a_{j}', prob['alpha'][j], None, None, 0) for j in range(n)}
    scale = None if prob['scale'] is None else Beta('scale', prob['scale'], None, None, 0)
    v = prob['variant']
    if v == 'translated':
        return Translated('m', base, gam, alp, scale)
    if v == 'gamma_profile':
        prices = None if prob['prices'] is None else {labels[j]: Numeric(prob['prices'][j]) for j in range(n)}
        return GammaProfile('m', base, gam, alp, scale, prices)
    if v == 'generalized':
        prices = None if prob['prices'] is None else {labels[j]: Numeric(prob['prices'][j]) for j in range(n)}
        return Generalized('m', base, gam, alp, scale, prices)
    mu = {labels[j]: Beta(f'm_{j}', prob['mu_c'][j], None, None, 0) + Numeric(0.125) * z for j in range(n)}
    return NonMonotonic('m', base, gam, mu, alp, scale)


def row_db(prob, r):
    import pandas as pd
    from biogeme.database import Database

    return Database(f'row_{r}', pd.DataFrame([prob['rows'][r]]))


def eps_vector(model, labels, eps_abs):
    e = np.zeros(len(labels))
    for j, k in enumerate(labels):
        e[model.key_to_index[k]] = eps_abs[j]
    return e


def lean_alts(prob, labels, order, r, eps_abs):
    """alternatives in index order with the values of their expressions on row r"""
    row = prob['rows'][r]
    pos = {k: j for j, k in enumerate(labels)}
    out = []
    for k in order:
        j = pos[k]
        out.append({
            'label': k,
            'psi': f2b(prob['psi_c'][j] + prob['psi_b'][j] * row['x']),
            'gamma': None if prob['outside'] == j else f2b(prob['gamma'][j]),
            'alpha': f2b(prob['alpha'][j]),
            'price': f2b(1.0 if prob['prices'] is None else prob['prices'][j]),
            'mu': f2b(prob['mu_c'][j] + 0.125 * row['z']),
            'eps': f2b(eps_abs[j]),
        })
    return out


def jscale(prob):
    return None if prob['scale'] is None else f2b(prob['scale'])


# ----------------------------------------------------------------------------- oracle


def oracle_forecast(model, db, prob, labels, e, x_by_label):
    """the statement, on a real forecast.  Returns (reason or None, lambda)"""
    budget = prob['budget']
    for k, v in x_by_label.items():
        if not (v >= 0):
            return f'consumption of alternative {k} is {v} (negative or NaN)', None
    tot = sum(x_by_label.values())
    if abs(tot - budget) > TOL_BUDGET * max(1.0, budget):
        return f'budget not exhausted: sum = {tot!r}, budget = {budget!r}', None
    og = None if prob['outside'] is None else labels[prob['outside']]
    if og is not None and not x_by_label[og] > 0:
        return f'the outside good {og} is not consumed', None
    marg = {}
    for k, v in x_by_label.items():
        if v > 0:
            marg[k] = float(model.derivative_utility_one_alternative(the_id=k, the_consumption=float(v), epsilon=float(e[model.key_to_index[k]]), one_observation=db))
    lam = max(marg.values()) if marg else float('nan')
    lo = min(marg.values()) if marg else float('nan')
    if marg and abs(lam - lo) > TOL_MARG * max(1.0, abs(lam)):
        return f'marginal utilities of the consumed goods differ: {marg}', lam
    for k, v in x_by_label.items():
        if v == 0:
            m0 = float(model.derivative_utility_one_alternative(the_id=k, the_consumption=0.0, epsilon=float(e[model.key_to_index[k]]), one_observation=db))
            if m0 > lam + TOL_MARG * max(1.0, abs(lam)):
                return f'alternative {k} is not consumed although its marginal utility at zero {m0} exceeds {lam}', lam
    return None, lam


def safe(fn, *a, **k):
    try:
        return fn(*a, **k), None
    except Exception as ex:  # noqa: BLE001
        return None, f'{type(ex).__name__}: {ex}'


class LogCatch(logging.Handler):
    def __init__(self):
        super().__init__(level=logging.WARNING)
        self.msgs = []

    def emit(self, record):
        self.msgs.append(record.getMessage())


def comparison_warnings(model, db, budget, e):
    """run forecast_comparison_one_draw with the library's warnings captured"""
    lg = logging.getLogger('biogeme.mdcev.mdcev')
    h = LogCatch()
    prev = logging.root.manager.disable
    logging.disable(logging.NOTSET)
    old_level = lg.level
    lg.setLevel(logging.WARNING)
    lg.addHandler(h)
    err = None
    try:
        model.forecast_comparison_one_draw(one_row_of_database=db, total_budget=budget, epsilon=e)
    except Exception as ex:  # noqa: BLE001
        err = f'{type(ex).__name__}: {ex}'
    finally:
        lg.removeHandler(h)
        lg.setLevel(old_level)
        logging.disable(prev)
    kinds = sorted({m.split('[')[0].split(':')[0].strip()[:40] for m in h.msgs if not m.startswith('Solution with')})
    return kinds, err


def expected_comparison(model, db, budget, e):
    """what forecast_comparison_one_draw has to report, recomputed from the two real solvers (same
    deterministic calls as inside it) with every vector in position order: independent of how the
    method itself orders the consumptions, and not demanding anything of the external SLSQP solver"""
    bf, _ = safe(model.forecast_bruteforce_one_draw, db, budget, e.copy())
    an, _ = safe(model.forecast_bisection_one_draw, db, budget, e.copy())
    if bf is None and an is None:
        return ['Both algorithms failed.']
    if bf is None:
        return ['Brute force algorithm failed.']
    if an is None:
        return ['Analytical algorithm failed.']
    kinds = set()
    cs_b = {k for k, v in bf.items() if not np.isclose(v, 0)}
    cs_a = {k for k, v in an.items() if not np.isclose(v, 0)}
    if cs_a != cs_b:
        kinds.add('Different optimal choice sets')
    xb = np.array([bf[k] for k in model.index_to_key])
    xa = np.array([an[k] for k in model.index_to_key])
    ob = model.sum_of_utilities(consumptions=xb, epsilon=e.copy(), data_row=db)
    oa = model.sum_of_utilities(consumptions=xa, epsilon=e.copy(), data_row=db)
    # borderline comparisons (within a factor 10 of np.isclose's thresholds) are not decided
    def far(a, b):
        return abs(a - b) > 10 * (1e-8 + 1e-5 * abs(b))

    def near(a, b):
        return abs(a - b) < 0.1 * (1e-8 + 1e-5 * abs(b))

    undecided = False
    if far(oa, ob):
        kinds.add('Difference between optimal utility with analytical'[:40])
    elif not near(oa, ob):
        undecided = True
    if far(float(sum(xa)), float(sum(xb))):
        kinds.add('Difference between constraint with analytical'[:40])
    elif not near(float(sum(xa)), float(sum(xb))):
        undecided = True
    return None if undecided else sorted(kinds)


# ----------------------------------------------------------------------------- checks


def check_problem(ctx, res, prob, labs, brute=True, pieces=True, comparison=False):
    """one abstract problem under several labelings"""
    results = {}  # (labeling, r, d) -> consumption by abstract alternative
    comp = {}
    for lname, labels in labs.items():
        og_label = None if prob['outside'] is None else labels[prob['outside']]
        known1 = f_c18_1_shape(prob['variant'], labels, og_label)
        W1 = (lambda d, k=known1: F_C18_1_WHERE if k else d)
        with core.scratch():
            model, err = safe(build_model, prob, labels)
            if model is None:
                res.violate(f'the model cannot be built: {err}', {'problem': prob, 'labels': labels}, err, 'a model', where='Mdcev.__init__')
                continue
            order = list(model.index_to_key)
            pos = {k: j for j, k in enumerate(labels)}
            # label <-> position maps
            res.tally('maps')
            maps_ok = (sorted(order) == sorted(labels) and len(order) == prob['n'] == model.number_of_alternatives
                       and all(order[model.key_to_index[k]] == k for k in labels)
                       and model.outside_good_key == og_label
                       and model.outside_good_index == (None if og_label is None else order.index(og_label)))
            if not maps_ok:
                res.violate('index_to_key / key_to_index / outside_good_index are not consistent with the labels',
                            {'problem': prob, 'labels': labels, 'labeling': lname},
                            {'index_to_key': order, 'key_to_index': {int(k): int(v) for k, v in model.key_to_index.items()},
                             'outside_good_key': model.outside_good_key, 'outside_good_index': model.outside_good_index},
                            'inverse maps over the labels', where='Mdcev.__init__ (label maps)')
                continue
            for r in range(len(prob['rows'])):
                db = row_db(prob, r)
                for d, eps_abs in enumerate(prob['eps'][r]):
                    sub = {'problem': prob, 'labels': labels, 'labeling': lname, 'row': r, 'draw': d}
                    e = eps_vector(model, labels, eps_abs)
                    fc, err = safe(model.forecast_bisection_one_draw, db, prob['budget'], e.copy())
                    res.tally(f'{prob["variant"]}')
                    res.tally(f'labeling={lname}')
                    if fc is None:
                        res.count({'fc_raises': sub})
                        res.violate(f'forecast_bisection_one_draw raises on a valid model: {err}', sub, err, 'a forecast', where=W1('Mdcev.forecast_bisection_one_draw'))
                        continue
                    x_by_label = {int(k): float(v) for k, v in fc.items()}
                    xs_abs = [x_by_label.get(labels[j], float('nan')) for j in range(prob['n'])]
                    results[(lname, r, d)] = xs_abs
                    n_zero = sum(1 for v in xs_abs if v == 0)
                    res.count({'forecast': sub['labels'], 'v': prob['variant'], 'x': xs_abs}, nontrivial=prob['n'] >= 3 and (n_zero > 0 or lname != 'seq'))
                    res.tally('some_good_not_consumed' if n_zero else 'all_consumed')
                    why, lam = oracle_forecast(model, db, prob, labels, e, x_by_label)
                    if why:
                        res.violate(f'forecast: {why}', sub, x_by_label, 'KKT point of the consumer problem', where=W1('Mdcev.forecast_bisection_one_draw'))
                    # brute force: the forecast must be at least as good
                    bf = None
                    if brute:
                        bf, berr = safe(model.forecast_bruteforce_one_draw, db, prob['budget'], e.copy())
                        if bf is not None:
                            xb = np.array([float(bf[k]) for k in order])
                            xa = np.array([x_by_label[k] for k in order])
                            ob, oerr = safe(model.sum_of_utilities, xb, e, db)
                            oa, oerr2 = safe(model.sum_of_utilities, xa, e, db)
                            if ob is not None and oa is not None and math.isfinite(ob):
                                slack = 1e-6 * max(1.0, abs(ob)) + abs(lam or 0.0) * abs(float(xb.sum()) - prob['budget']) * 2
                                res.tally('brute_force_compared')
                                if not (oa >= ob - slack):
                                    res.violate('forecast is worse than the brute-force solution', sub, {'objective': oa, 'x': x_by_label},
                                                {'objective_brute': ob, 'x_brute': {k: float(v) for k, v in bf.items()}}, where=W1('Mdcev.forecast_bisection_one_draw'))
                    # identification
                    idt, ierr = safe(model.identification_chosen_alternatives, db, prob['budget'], e.copy())
                    alts = lean_alts(prob, labels, order, r, eps_abs)
                    common = {'variant': prob['variant'], 'scale': jscale(prob)}
                    reqs = [
                        {'op': 'forecast', **common, 'alts': alts, 'budget': f2b(prob['budget']), 'tol_dual': f2b(1e-13), 'tol_budget': f2b(1e-13)},
                        {'op': 'ident', **common, 'alts': alts, 'budget': f2b(prob['budget'])},
                        {'op': 'kkt', **common, 'alts': alts, 'budget': f2b(prob['budget']), 'xs': [f2b(x_by_label[k]) for k in order],
                         'tol_budget': f2b(TOL_BUDGET * max(1.0, prob['budget'])), 'tol_marginal': f2b(TOL_MARG),
                         'brute': None if bf is None else [f2b(float(bf[k])) for k in order]},
                    ]

                    bf_gap = 0.0 if bf is None else abs(sum(float(bf[k]) for k in order) - prob['budget'])

                    def cb(ans, sub=sub, x_by_label=x_by_label, order=order, idt=idt, why=why, W1=W1, bf_gap=bf_gap):
                        f = ans[0]
                        if 'err' in f:
                            res.diverge('Mdcev.forecast (model) fails where the code succeeds', sub, f, x_by_label, where=W1(''))
                        else:
                            mx = {k: b2f(b) for k, b in f['x']}
                            if any(not close(mx[k], x_by_label[k], 1e-7, 1e-9) for k in order):
                                res.diverge('forecast_bisection_one_draw vs Mdcev.forecast', sub, mx, x_by_label, where=W1(''))
                        if idt is not None:
                            mi = ans[1]
                            got = (sorted(int(k) for k in idt[0]), float(idt[1]), float(idt[2]))
                            if sorted(mi['chosen']) != got[0] or not close(b2f(mi['lo']), got[1], 1e-9, 1e-12) or not close(b2f(mi['hi']), got[2], 1e-9, 1e-12):
                                res.diverge('identification_chosen_alternatives vs Mdcev.identifyChosen', sub,
                                            [sorted(mi['chosen']), b2f(mi['lo']), b2f(mi['hi'])], list(got), where=W1(''))
                        k = ans[2]
                        if bool(k.get('kkt')) != (why is None):
                            res.diverge('Lean relation kktB on the real forecast vs the Python oracle', sub,
                                        {'kkt': k.get('kkt'), 'marginal': [b2f(b) for b in k.get('marginal', [])]}, why, where=W1(''))
                        if k.get('objective_brute') is not None:
                            oa, ob = b2f(k['objective']), b2f(k['objective_brute'])
                            lam_m = b2f(k['lam']) if k.get('lam') is not None else 0.0
                            slack = 1e-6 * max(1.0, abs(ob)) + 2 * abs(lam_m if math.isfinite(lam_m) else 0.0) * bf_gap
                            if math.isfinite(ob) and not (oa >= ob - slack):
                                res.diverge('model objective: forecast worse than brute force', sub, oa, ob, where=W1(''))

                    ctx.batch.add_many(reqs, cb)
                    if comparison and lname in ('seq', 'sparse'):
                        kinds, cerr = comparison_warnings(model, db, prob['budget'], e.copy())
                        want = expected_comparison(model, db, prob['budget'], e)
                        res.tally('comparison_checked' if want is not None else 'comparison_borderline')
                        if want is not None and (cerr is not None or kinds != want):
                            res.violate('forecast_comparison_one_draw does not report what its two solutions imply',
                                        sub, {'warnings': kinds, 'error': cerr}, {'warnings': want, 'error': None},
                                        where=F_C18_2_WHERE if order_differs(labels) else 'Mdcev.forecast_comparison_one_draw')
                if pieces:
                    check_pieces(ctx, res, prob, labels, lname, model, db, r, W1)
            if pieces:
                val, verr = safe(model.validation, row_db(prob, 0))
                res.tally('validation')
                if val is None or val:
                    res.violate(f'Mdcev.validation reports inconsistencies on a valid model: {val if val is not None else verr}',
                                {'problem': prob, 'labels': labels, 'labeling': lname}, val if val is not None else verr, [], where=W1('Mdcev.validation'))
            # forecast(): all rows and draws at once, columns sorted by label
            check_forecast_table(res, prob, labels, lname, model, results, W1)
    # label irrelevance: same abstract problem, same abstract draws
    keys = sorted({(r, d) for (_, r, d) in results})
    for r, d in keys:
        ref_name = next((ln for ln in labs if (ln, r, d) in results), None)
        for ln in labs:
            if ln == ref_name or (ln, r, d) not in results:
                continue
            a, b = results[(ref_name, r, d)], results[(ln, r, d)]
            res.tally('relabelling_compared')
            if any(not close(u, v, 1e-7, 1e-9) for u, v in zip(a, b)):
                og1 = None if prob['outside'] is None else labs[ln][prob['outside']]
                og0 = None if prob['outside'] is None else labs[ref_name][prob['outside']]
                known = f_c18_1_shape(prob['variant'], labs[ln], og1) or f_c18_1_shape(prob['variant'], labs[ref_name], og0)
                bad = ln if f_c18_1_shape(prob['variant'], labs[ln], og1) else ref_name
                res.violate('the forecast depends on the labels of the alternatives',
                            {'problem': prob, 'labels': labs[bad if known else ln], 'labeling': ln, 'other_labels': labs[ref_name], 'row': r, 'draw': d},
                            {ln: b}, {ref_name: a}, where=F_C18_1_WHERE if known else 'Mdcev (labels)')


def check_forecast_table(res, prob, labels, lname, model, results, W1):
    import pandas as pd
    from biogeme.database import Database

    db = Database('all', pd.DataFrame(prob['rows']))
    epsilons = []
    for r in range(len(prob['rows'])):
        epsilons.append(np.array([eps_vector(model, labels, ea) for ea in prob['eps'][r]]))
    out, err = safe(model.forecast, db, prob['budget'], epsilons, False, 1e-13, 1e-13)
    sub = {'problem': prob, 'labels': labels, 'labeling': lname}
    res.tally('forecast_table')
    if out is None:
        if any((lname, r, 0) in results for r in range(len(prob['rows']))):
            res.violate(f'Mdcev.forecast raises: {err}', sub, err, 'one data frame per observation', where=W1('Mdcev.forecast'))
        return
    for r, df in enumerate(out):
        if list(df.columns) != sorted(labels):
            res.violate('Mdcev.forecast: columns are not the sorted labels', sub, list(df.columns), sorted(labels), where=W1('Mdcev.forecast'))
            continue
        for d in range(len(prob['eps'][r])):
            if (lname, r, d) not in results:
                continue
            want = results[(lname, r, d)]
            got = [float(df.iloc[d][labels[j]]) for j in range(prob['n'])]
            if any(not close(u, v, 1e-9, 1e-12) for u, v in zip(got, want)):
                res.violate('Mdcev.forecast differs from forecast_bisection_one_draw on the same row and draw', {**sub, 'row': r, 'draw': d}, got, want, where=W1('Mdcev.forecast'))


def check_pieces(ctx, res, prob, labels, lname, model, db, r, W1):
    """U, U', inverse on each alternative: numeric = symbolic (engine), derivative = derivative,
    inverse inverts; and the Float model pointwise"""
    from biogeme.expressions import Beta, Numeric

    order = list(model.index_to_key)
    eps0 = prob['eps'][r][0]
    alts = lean_alts(prob, labels, order, r, eps0)
    pos = {k: j for j, k in enumerate(labels)}
    xs = [0.5, 1.0, 2.75, 10.0]
    lams = [0.05, 0.5, 2.0]
    for a in alts:
        k = a['label']
        j = pos[k]
        eps = eps0[j]
        sub = {'problem': prob, 'labels': labels, 'labeling': lname, 'row': r, 'alt': k, 'pieces': True}
        res.count({'pieces': prob['variant'], 'alt': j, 'label': k, 'outside': prob['outside'] == j}, nontrivial=lname != 'seq' or prob['prices'] is not None)
        res.tally('pieces')
        if prob['variant'] == 'non_monotonic':
            mu_e = prob['mu_c'][j] + 0.125 * prob['rows'][r]['z'] + eps / (prob['scale'] or 1.0)
            lam_list = [mu_e + 0.05, mu_e + 0.5, mu_e + 2.0]
        else:
            lam_list = lams
        real_u, real_d, real_i, sym_u, sym_g = [], [], [], [], []
        for x in xs:
            u, _ = safe(model.utility_one_alternative, the_id=k, the_consumption=x, epsilon=eps, one_observation=db)
            dv, _ = safe(model.derivative_utility_one_alternative, the_id=k, the_consumption=x, epsilon=eps, one_observation=db)
            real_u.append(float('nan') if u is None else float(u))
            real_d.append(float('nan') if dv is None else float(dv))
            ex, eerr = safe(model.utility_expression_one_alternative, the_id=k, the_consumption=Beta('consumption', x, None, None, 0), unscaled_epsilon=Numeric(eps))
            if ex is None:
                sym_u.append(float('nan'))
                sym_g.append(float('nan'))
            else:
                fo, _ = safe(ex.get_value_and_derivatives, database=db, prepare_ids=True, gradient=True, named_results=True)
                sym_u.append(float('nan') if fo is None else float(fo.function))
                sym_g.append(float('nan') if fo is None else float(fo.gradient['consumption']))
            # finite differences of the real utility
            h = 1e-5 * max(1.0, x)
            up, _ = safe(model.utility_one_alternative, the_id=k, the_consumption=x + h, epsilon=eps, one_observation=db)
            um, _ = safe(model.utility_one_alternative, the_id=k, the_consumption=x - h, epsilon=eps, one_observation=db)
            if up is not None and um is not None and dv is not None:
                fd = (float(up) - float(um)) / (2 * h)
                if not close(fd, float(dv), 1e-5, 1e-7):
                    res.violate(f'derivative_utility_one_alternative is not the derivative of utility_one_alternative at x={x}', sub, float(dv), fd,
                                where=W1('derivative_utility_one_alternative'))
        for lam in lam_list:
            iv, _ = safe(model.optimal_consumption_one_alternative, the_id=k, dual_variable=lam, epsilon=eps, one_observation=db)
            real_i.append(float('nan') if iv is None else float(iv))
            if iv is not None and float(iv) > 0:
                back, _ = safe(model.derivative_utility_one_alternative, the_id=k, the_consumption=float(iv), epsilon=eps, one_observation=db)
                if back is None or not close(float(back), lam, 1e-8, 1e-10):
                    res.violate(f'optimal_consumption_one_alternative does not invert the derivative at lambda={lam}', sub, back, lam,
                                where=W1('optimal_consumption_one_alternative'))
        for x, a1, a2 in zip(xs, real_u, sym_u):
            if not close(a1, a2, 1e-9, 1e-12):
                res.violate(f'numeric utility differs from the symbolic utility at x={x}', sub, a1, a2, where=W1('utility_expression_one_alternative'))
        for x, a1, a2 in zip(xs, real_d, sym_g):
            if not close(a1, a2, 1e-8, 1e-11):
                res.violate(f'derivative_utility_one_alternative differs from the gradient of the symbolic utility at x={x}', sub, a1, a2,
                            where=W1('derivative_utility_one_alternative'))
        req = {'op': 'pieces', 'variant': prob['variant'], 'scale': jscale(prob), 'alt': a, 'xs': [f2b(x) for x in xs], 'lams': [f2b(l) for l in lam_list]}

        def cb(ans, sub=sub, real_u=real_u, real_d=real_d, real_i=real_i, W1=W1):
            for name, real in (('U', real_u), ('dU', real_d), ('inv', real_i)):
                m = [b2f(b) for b in ans[name]]
                if any(not close(u, v, 1e-10, 1e-12) for u, v in zip(m, real)):
                    res.diverge(f'{name}: model vs code', sub, m, real, where=W1(''))

        ctx.batch.add(req, cb)


def symbolic_marginal(model, k, x, eps, db):
    """marginal utility from the *symbolic* utility on the real row (engine gradient): does not go
    through calculate_baseline_utility or any stored value"""
    from biogeme.expressions import Beta, Numeric

    ex = model.utility_expression_one_alternative(the_id=k, the_consumption=Beta('consumption', float(x), None, None, 0), unscaled_epsilon=Numeric(float(eps)))
    fo = ex.get_value_and_derivatives(database=db, prepare_ids=True, gradient=True, named_results=True)
    return float(fo.gradient['consumption'])


def oracle_symbolic(model, db, prob, labels, e, x_by_label):
    """KKT on a forecast with the marginal utilities taken from the symbolic utility"""
    budget = prob['budget']
    if any(not (v >= 0) for v in x_by_label.values()):
        return 'a consumption is negative or NaN'
    tot = sum(x_by_label.values())
    if abs(tot - budget) > TOL_BUDGET * max(1.0, budget):
        return f'budget not exhausted: sum = {tot!r}'
    og = None if prob['outside'] is None else labels[prob['outside']]
    marg = {k: symbolic_marginal(model, k, v, e[model.key_to_index[k]], db) for k, v in x_by_label.items() if v > 0 or k != og}
    pos = [marg[k] for k, v in x_by_label.items() if v > 0]
    if not pos:
        return 'nothing is consumed'
    lam = max(pos)
    if lam - min(pos) > TOL_MARG * max(1.0, abs(lam)):
        return f'symbolic marginal utilities of the consumed goods differ: { {k: marg[k] for k, v in x_by_label.items() if v > 0} }'
    for k, v in x_by_label.items():
        if v == 0 and marg[k] > lam + TOL_MARG * max(1.0, abs(lam)):
            return f'alternative {k} is not consumed although its symbolic marginal utility at zero {marg[k]} exceeds {lam}'
    return None


def scenario_rows(prob):
    """a second scenario: same number of observations, changed explanatory variables"""
    return [{'x': -r['x'] + 0.625 + 0.25 * i, 'z': r['z'] + 0.75} for i, r in enumerate(prob['rows'])]


def check_scenarios(ctx, res, prob, labels, lname):
    """the SAME model object is used on a base scenario and then on a changed scenario (another
    database whose rows carry the same names, and the same database with modified data): the second
    results must be those of a freshly built model, validation must stay silent and the forecast
    must solve the problem of the *new* observation"""
    import pandas as pd
    from biogeme.database import Database

    rows2 = scenario_rows(prob)
    prob2 = {**prob, 'rows': rows2}
    sub = {'problem': prob, 'labels': labels, 'labeling': lname, 'scenario': True}
    og_label = None if prob['outside'] is None else labels[prob['outside']]
    with core.scratch():
        model, err = safe(build_model, prob, labels)
        fresh, err2 = safe(build_model, prob, labels)
        if model is None or fresh is None:
            return
        eps = [np.array([eps_vector(model, labels, ea) for ea in prob['eps'][r]]) for r in range(len(prob['rows']))]
        base_db = Database('scenario', pd.DataFrame(prob['rows']))
        out1, e1 = safe(model.forecast, base_db, prob['budget'], eps, False, 1e-13, 1e-13)
        # also the one-row route on the base scenario (rows named as Mdcev.forecast names them)
        for r in range(len(prob['rows'])):
            safe(model.validation, Database(f'row_{r}', pd.DataFrame([prob['rows'][r]])))
        # (a) another database, (b) the same database object with modified data
        for mode in ('other_database', 'same_database_modified'):
            if mode == 'other_database':
                db2 = Database('policy', pd.DataFrame(rows2))
            else:
                base_db.data['x'] = [r['x'] for r in rows2]
                base_db.data['z'] = [r['z'] for r in rows2]
                db2 = base_db
            res.count({'scenario': mode, 'v': prob['variant'], 'labels': labels, 'rows2': rows2}, nontrivial=any(b != 0 for b in prob['psi_b']))
            res.tally(f'scenario:{mode}')
            out2, e2 = safe(model.forecast, db2, prob['budget'], eps, False, 1e-13, 1e-13)
            ref_db = Database('reference', pd.DataFrame(rows2))
            ref, e3 = safe(fresh.forecast, ref_db, prob['budget'], eps, False, 1e-13, 1e-13)
            if (out2 is None) != (ref is None):
                res.violate(f'second scenario on a re-used model: {e2}; freshly built model: {e3}', {**sub, 'mode': mode}, e2, e3, where='Mdcev.forecast (re-used model)')
                continue
            if out2 is None:
                continue
            for r, (df2, dfr) in enumerate(zip(out2, ref)):
                a = [[float(v) for v in df2[k]] for k in sorted(labels)]
                b = [[float(v) for v in dfr[k]] for k in sorted(labels)]
                if any(not close(u, v, 1e-9, 1e-12) for ra, rb in zip(a, b) for u, v in zip(ra, rb)):
                    res.violate('forecast of a changed scenario with a re-used model object differs from a freshly built model',
                                {**sub, 'mode': mode, 'row': r}, {k: v for k, v in zip(sorted(labels), a)}, {k: v for k, v in zip(sorted(labels), b)},
                                where='Mdcev.forecast (re-used model)')
                # KKT from the symbolic utility on the real new row (first draw)
                row2 = Database(f'row_{r}', pd.DataFrame([rows2[r]]))
                x_by_label = {k: float(df2[k].iloc[0]) for k in labels}
                why, oerr = safe(oracle_symbolic, model, row2, prob2, labels, eps[r][0], x_by_label)
                if oerr is None and why:
                    res.violate(f'forecast of the changed scenario (re-used model): {why}', {**sub, 'mode': mode, 'row': r}, x_by_label,
                                'KKT point of the new observation (symbolic marginal utilities)', where='Mdcev.forecast (re-used model)')
                # pieces on the new row with the re-used model: numeric = symbolic
                val, verr = safe(model.validation, row2)
                if val is None or val:
                    res.violate(f'Mdcev.validation on the changed scenario (re-used model): {val if val is not None else verr}',
                                {**sub, 'mode': mode, 'row': r}, val if val is not None else verr, [], where='Mdcev.validation (re-used model)')
                one, oerr = safe(model.forecast_bisection_one_draw, row2, prob['budget'], eps[r][0].copy(), 1e-13, 1e-13)
                if one is not None and any(not close(float(one[k]), x_by_label[k], 1e-9, 1e-12) for k in labels):
                    res.violate('forecast_bisection_one_draw on the new row differs from Mdcev.forecast of the same row (re-used model)',
                                {**sub, 'mode': mode, 'row': r}, {int(k): float(v) for k, v in one.items()}, x_by_label, where='Mdcev.forecast (re-used model)')


# ----------------------------------------------------------------------------- corpus / check / search / replay

# input of known finding F-C18-1 (kept identical to known_findings.d/C18.json)
KNOWN_F_C18_1 = {
    'variant': 'gamma_profile', 'n': 3, 'outside': 1, 'psi_c': [-3.0, 0.5, 0.2], 'psi_b': [0.25, 0.25, 0.25], 'gamma': [1.0, 1.5, 2.0],
    'alpha': [0.5, 0.5, 0.5], 'prices': None, 'mu_c': [0.0, 0.0, 0.0], 'scale': None, 'rows': [{'x': 1.0, 'z': 0.0}], 'budget': 2.0,
    'eps': [[[0.3, -0.2, 0.1]]],
}
KNOWN_F_C18_1_LABELS = {'seq': [1, 2, 3], 'other': [11, 12, 13]}

KNOWN_F_C18_2 = {
    'variant': 'gamma_profile', 'n': 2, 'outside': None, 'psi_c': [0.5, -0.25], 'psi_b': [0.25, 0.0], 'gamma': [1.0, 2.0], 'alpha': [0.5, 0.5],
    'prices': None, 'mu_c': [0.0, 0.0], 'scale': None, 'rows': [{'x': 1.0, 'z': 0.0}], 'budget': 10.0, 'eps': [[[0.3, 1.2]]],
}
KNOWN_F_C18_2_LABELS = {'seq': [1, 2], 'sparse': [4, 18]}

CORPUS = [
    # translated, outside good, sparse labels {7, 3, 12}
    ({'variant': 'translated', 'n': 3, 'outside': 0, 'psi_c': [0.5, -0.25, 0.125], 'psi_b': [0.25, 0.0, -0.125], 'gamma': [1.0, 2.0, 0.5], 'alpha': [0.5, 0.25, 0.75],
      'prices': None, 'mu_c': [0.0, 0.0, 0.0], 'scale': 2.0, 'rows': [{'x': 1.0, 'z': 0.5}], 'budget': 10.0, 'eps': [[[0.3, -0.2, 1.1]]]},
     {'seq': [1, 2, 3], 'sparse': [7, 3, 12]}),
    # non monotonic without outside good, small budget
    ({'variant': 'non_monotonic', 'n': 4, 'outside': None, 'psi_c': [0.5, -0.5, 0.0, 1.0], 'psi_b': [0.0, 0.25, -0.25, 0.125], 'gamma': [1.0, 2.0, 0.5, 4.0],
      'alpha': [0.5, 0.3, 0.6, 0.25], 'prices': None, 'mu_c': [-0.5, -0.25, 0.0, -1.0], 'scale': None, 'rows': [{'x': -0.5, 'z': 1.0}], 'budget': 1.0,
      'eps': [[[0.1, 2.0, -0.7, 0.4]]]},
     {'seq': [1, 2, 3, 4], 'sparse': [9, 33, 2, 16]}),
]


def check_constructor(res, rng, fault=None, labels=None):
    """the constructor refuses inconsistent dictionaries (labels of gamma / alpha differ from the
    baseline utilities, several outside goods)"""
    from biogeme.expressions import Beta
    from biogeme.mdcev import GammaProfile, Translated

    if labels is None:
        labels = rng.sample(range(0, 30), rng.randint(2, 5))
        fault = rng.choice(['none', 'gamma_missing', 'gamma_extra', 'alpha_missing', 'two_outside', 'one_outside'])
    base = {k: Beta(f'c{k}', 0.0, None, None, 0) for k in labels}
    gam = {k: Beta(f'g{k}', 1.0, None, None, 0) for k in labels}
    alp = {k: Beta(f'a{k}', 0.5, None, None, 0) for k in labels}
    if fault == 'gamma_missing':
        del gam[labels[0]]
    elif fault == 'gamma_extra':
        gam[99] = Beta('g99', 1.0, None, None, 0)
    elif fault == 'alpha_missing':
        del alp[labels[-1]]
    elif fault == 'two_outside':
        gam[labels[0]] = None
        gam[labels[1]] = None
    elif fault == 'one_outside':
        gam[labels[-1]] = None
    got, err = safe(Translated, 'm', base, gam, alp)
    outcome = 'ok' if got is not None else err.split(':')[0]
    res.count({'constructor': fault, 'labels': labels}, nontrivial=fault not in ('none', 'one_outside'))
    res.tally(f'constructor:{fault}')
    want = 'ok' if fault in ('none', 'one_outside') else 'BiogemeError'
    if outcome != want:
        res.violate(f'Mdcev constructor: inconsistent dictionaries ({fault}) are not handled as documented',
                    {'constructor': fault, 'labels': labels}, outcome, want, where='Mdcev.__init__')


def main_labelings(rng, prob):
    """labelings of the main stream: the shape of F-C18-1 is excluded by construction"""
    labs = labelings(rng, prob['n'])
    out = {}
    for name, labels in labs.items():
        og = None if prob['outside'] is None else labels[prob['outside']]
        if f_c18_1_shape(prob['variant'], labels, og):
            continue
        out[name] = labels
    return out


def check(ctx) -> Result:
    res = Result(rule=RULE, tolerance='budget 1e-8 (relative to max(1,B)); marginal utilities 1e-6 relative; objective vs brute force 1e-6 relative + multiplier x '
                 'brute-force budget violation; model vs code: pieces 1e-10, forecasts 1e-7, bounds 1e-9; relabelling 1e-7')
    rng = ctx.rng
    for prob, labs in CORPUS:
        check_problem(ctx, res, prob, labs)
        check_scenarios(ctx, res, prob, labs['sparse'], 'sparse')
        res.tally('corpus')
    # the listed known findings: their own inputs first
    check_problem(ctx, res, KNOWN_F_C18_1, KNOWN_F_C18_1_LABELS, pieces=False)
    check_problem(ctx, res, KNOWN_F_C18_2, KNOWN_F_C18_2_LABELS, pieces=False, comparison=True)
    for _ in range(ctx.n(4, 40)):
        prob = gen_problem(rng, variant='gamma_profile')
        if prob['outside'] is None:
            prob['outside'] = rng.randrange(prob['n'])
        labs = labelings(rng, prob['n'])
        check_problem(ctx, res, prob, labs, brute=False, pieces=False)
        res.tally('known_shape_stream')
    n_cmp = ctx.n(12, 100)
    for i in range(ctx.n(160, 2400)):
        prob = gen_problem(rng, variant=VARIANTS[i % 4])
        labs = main_labelings(rng, prob)
        check_problem(ctx, res, prob, labs, brute=(i % 2 == 0), pieces=(i % 3 == 0), comparison=(i < n_cmp))
        if i % (5 if ctx.quick else 3) == 1 and labs:
            ln = sorted(labs)[i % len(labs)]
            check_scenarios(ctx, res, prob, labs[ln], ln)
        if sum(1 for v in res.violations if v.get('where') not in (F_C18_1_WHERE, F_C18_2_WHERE)) > 5:
            break
    for _ in range(ctx.n(30, 300)):
        check_constructor(res, rng)
    ctx.batch.flush()
    return res


class _NoBatch:
    def add(self, *a, **k):
        pass

    def add_many(self, *a, **k):
        pass


class _Shim:
    def __init__(self, rng):
        self.rng = rng
        self.batch = _NoBatch()


def search(ctx, res, broken):
    """something broke without a concrete failing input: the property oracle alone, widened stream"""
    rng = core.rng_for('C18-search', ctx.seed)
    shim = _Shim(rng)
    for i in range(200):
        r2 = Result()
        prob = gen_problem(rng, variant=VARIANTS[i % 4])
        try:
            labs = main_labelings(rng, prob)
            check_problem(shim, r2, prob, labs, brute=True, pieces=True)
            if labs:
                ln = sorted(labs)[0]
                check_scenarios(shim, r2, prob, labs[ln], ln)
        except Exception as e:  # noqa: BLE001
            res.notes.append(f'search: {type(e).__name__}: {e}')
            continue
        if r2.violations:
            res.violations.extend(r2.violations[:1])
            return


def replay(ctx, obj):
    sub = obj.get('case') or {}
    out = {'replayed': obj.get('what')}
    if 'constructor' in sub:
        r = Result()
        check_constructor(r, None, sub['constructor'], sub['labels'])
        out.update({'property_fails': bool(r.violations), 'violations': [{'what': v['what'], 'observed': v['observed'], 'expected': v['expected']} for v in r.violations[:3]]})
        return out
    if 'problem' not in sub:
        out.update({'property_fails': False, 'note': 'nothing to replay (no concrete input in this file)'})
        return out
    prob = sub['problem']
    labs = {sub.get('labeling', 'given'): sub['labels']}
    if 'other_labels' in sub:
        labs = {'other': sub['other_labels'], **labs}
    r = Result()
    shim = _Shim(core.rng_for('C18-replay', 0))
    if sub.get('scenario'):
        check_scenarios(shim, r, prob, sub['labels'], sub.get('labeling', 'given'))
        out.update({'property_fails': bool(r.violations), 'violations': [{'what': v['what'], 'observed': v['observed'], 'expected': v['expected']} for v in r.violations[:3]]})
        return out
    check_problem(shim, r, prob, labs, brute=True, pieces=bool(sub.get('pieces')), comparison='forecast_comparison_one_draw' in str(obj.get('what')))
    out.update({'property_fails': bool(r.violations), 'violations': [{'what': v['what'], 'observed': v['observed'], 'expected': v['expected']} for v in r.violations[:3]]})
    return out
