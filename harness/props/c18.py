"""C18 — MDCEV forecasts solve the consumer problem and model pieces agree.

Tie: correspondence + relations on real runs.  An abstract problem (variant, options, parameter
values per abstract alternative, rows, budget, Gumbel draws) is instantiated under several
labelings (1..n, shuffled, sparse such as {7, 3, 12}) into real `Translated` / `GammaProfile` /
`Generalized` / `NonMonotonic` objects.  Driven: `forecast_bisection_one_draw`,
`forecast_bruteforce_one_draw`, `forecast`, `validation`, `identification_chosen_alternatives`,
`utility_one_alternative`, `derivative_utility_one_alternative`,
`optimal_consumption_one_alternative`, `utility_expression_one_alternative` (through the engine,
value and gradient), `forecast_comparison_one_draw`.

Round 3: parameter regimes (negative / tiny marginal utilities at zero, tiny and huge budgets, a dominant good); the
formula built by `utility_expression_one_alternative` is observed at the engine boundary and run by the proved
engine model (lib/leanrun) against `Mdcev.symbolicU`; `validate_forecast`; `estimation_results` setter /
`_update_parameters_in_expressions` (fresh object, used object, row objects used before and after) against a model
built with the values and against `Mdcev.updateModel`; `info_gamma_parameters`.

Oracle (from the statement, on the real outputs): x >= 0, sum x = B (1e-8), equal marginal
utilities on the support and not larger at zero elsewhere, outside good consumed, objective >=
brute force - tolerance, numeric utility = symbolic utility, derivative = derivative (engine
gradient and finite differences), inverse inverts, and the same results under every labeling.
The Lean driver evaluates the relation of the theorems (`kktB`) on the real outputs and recomputes
`U, dU, inv, identifyChosen, forecast` (Float instance of the model the theorems are about).
"""

from __future__ import annotations

import logging
import math

import numpy as np

from lib import core, leanrun
from lib.core import Result, f2b, b2f, close

READY = True
MANIFEST = dict(
    text='Proof (Lean 4, over R): for each of the four variants (with/without outside good, prices, scale) the derivative function is the derivative of the utility '
    '(C18.deriv_all, deriv_translated, deriv_gamma_profile, deriv_generalized, deriv_non_monotonic), the closed-form consumption inverts it (C18.inverse_*), marginal utility is '
    'decreasing and utilities are concave (C18.marginal_utility_decreasing, utility_concave), total consumption is decreasing in the multiplier (C18.consumption_monotone); '
    'KKT point => no feasible point is better, for every family of concave utilities (C18.kkt_optimal) and for the model\'s sum_of_utilities (C18.kkt_optimal_variant; '
    'the Boolean relation evaluated by the driver is its hypothesis list: C18.kkt_relation_exact); bisection keeps lo <= lambda* <= hi, halves the bracket and stops only by one of '
    'the two tolerances (C18.bisection_invariant, bisection_halves, bisection_termination); the outside good is always in the identified set and receives a positive consumption '
    '(C18.outside_good_always_chosen, outside_good_consumed); relabelling commutes with the forecast on any number type (C18.labels_irrelevant) and the forecast does not depend on '
    'the order of index_to_key over R (C18.order_irrelevant). Round 3: the formula built by utility_expression_one_alternative (modelled as a tree with the code\'s branches) '
    'evaluates to the numeric utility (C18.expr_eq_numeric); an ordinary good gets exactly 0 at its own marginal utility at zero and a non-negative amount below it '
    '(C18.inverse_at_zero_marginal, consumption_nonneg); a successful forecast gives 0 outside the identified set and the closed form at the returned multiplier inside (C18.forecast_support); the identified choice set is never empty, also when every marginal utility at zero is negative '
    '(C18.choice_set_nonempty, lower_bound_unbounded_iff); above lower_bound_dual_variable every closed form is in its domain (C18.lower_bound_sound); the multiplier handed over '
    'when the budget criterion stops the bisection meets the budget within the tolerance (C18.returned_multiplier_meets_budget - repaired behaviour, finding F-C18-3; the negation '
    'for the code\'s own rule on a witness: C18.midpoint_after_stop_misses_budget); after estimation every expression a forecast reads carries the estimated values '
    '(C18.parameters_updated, updated_slot_value). Tie: four variants x options x labelings (1..n, shuffled, sparse) x budgets x rows x Gumbel draws x parameter regimes '
    '(all marginal utilities at zero tiny / negative, tiny and huge budgets, one dominant good) on the real code; KKT relation evaluated by the Lean driver on every real forecast; '
    'pointwise comparison of U, U\', inverse, identification and forecast with the Float model; brute-force comparison; numeric utility vs symbolic utility and its engine gradient; '
    'the REAL signature text of the symbolic utility run by the proved engine model (leanrun) and compared with Mdcev.symbolicU and with the real engine; Mdcev.validation, '
    'Mdcev.forecast, forecast_comparison_one_draw and validate_forecast under relabelling; histories on ONE object of every variant: used at the starting values (numeric pieces / validation / table forecast / one-draw forecast on row objects used again / all) -> '
    'parameters changed (every group at once or one group: psi, gamma, alpha, mu, scale, prices; through the estimation_results setter, and once per variant through estimate_parameters '
    'in a fresh process) -> numeric pieces = closed forms at the NEW values (Lean model and a model built with the values), forecasts = those of a model built with the values and KKT '
    'with marginal utilities from that model, validation silent, expressions = Mdcev.updateModel; info_gamma_parameters.',
    design='DESIGN.md §5 C18',
    technique='Lean 4 theorems over an executable model + relation evaluated on real forecasts + differential correspondence + relabelling stream + engine-model run of the built formula',
    note='Partial: SLSQP (brute force) is external, only "forecast >= brute force - tolerance" is required; concavity on the documented domain 0 < alpha < 1, gamma > 0, price > 0; '
    'optimality is proved against competitors that give the outside good a positive amount; translated variant: statements about the inverse hold below the overflow guard '
    'MAX_EXP_ARGUMENT; the lru_cache of the numeric pieces is not modelled (finding F-C18-4 is about it); the estimation side (transformed_utility, determinant entries, '
    'loglikelihood, estimate_parameters) is outside the property; IEEE rounding not modelled (tolerances stated); the iteration order of a CPython set is read from the real object. '
    'Findings: F-C18-1, F-C18-2 (fixed in /repo); F-C18-3 (bisection returns the consumptions at the midpoint of the bracket it has just updated when the budget criterion '
    'stops it) and F-C18-4 (values cached before estimation_results is set are kept) were found by this check and are repaired in /repo (7ff3d5b, c10d1db).',
)
TRUSTED = [
    'scipy SLSQP (reference optimiser, may be inexact)',
    'the C++ engine evaluates the baseline utilities (psi, mu) of an observation inside the forecasts; for the alternatives of the pieces stream the real signature text of the baseline / mu utility and of the symbolic utility is additionally run by the proved engine model (the values must be those of the abstract problem / of Mdcev.symbolicU)',
    'CPython iteration order of a set of ints (Mdcev.index_to_key) is read from the real object, not modelled',
    'numpy exp/log/power vs Lean Float (libm) agree to a few ulp',
    'a stand-in for bioResults (subclass overriding get_beta_values) carries the estimated values; results.py is not an anchored file',
]
ASSUMPTIONS = [
    'documented parameter domain: 0 < alpha < 1, gamma > 0, price > 0, scale > 0, budget > 0',
    'no ties among the marginal utilities at zero (probability zero for continuous draws) in the label-irrelevance theorem',
    'in the low_marginal regime the "Inconsistent dual variables" messages of Mdcev.validation are not demanded to be absent (its fixed multiplier 10 puts the closed form at 1 - tiny: beyond double precision); utilities and derivatives are',
]
EXTRA_MODULES = list(leanrun.MODULES)
RULE = (
    'one evaluation = one (problem, labeling, row, draw) forecast, one alternative of a pieces check, one scenario / estimation sequence on one object, one validate_forecast '
    'call or one constructor case; non-trivial = forecast with >= 3 goods where at least one good is not consumed or the labeling differs from 1..n; sequences always'
)

VARIANTS = ['translated', 'gamma_profile', 'generalized', 'non_monotonic']
F_C18_1_WHERE = 'GammaProfile.derivative_utility_one_alternative: label compared with outside_good_index (a position)'
F_C18_2_WHERE = 'Mdcev.forecast_comparison_one_draw: consumption ordered by sorted label, epsilon/utilities by set-iteration position'

F_C18_3_WHERE = ('Mdcev.forecast_bisection_one_draw: stops on the budget criterion but returns the consumptions at the midpoint of the '
                 'bracket it has just updated')

F_C18_4_WHERE = ('Mdcev.estimation_results (setter): the values cached by calculate_baseline_utility / calculate_mu_utility / '
                 'optimal_consumption_one_alternative for the previous parameters are kept')

TOL_BUDGET = 1e-8
TOL_MARG = 1e-6


# ----------------------------------------------------------------------------- generators


def gumbel(rng):
    u = rng.random()
    u = min(max(u, 1e-12), 1 - 1e-12)
    return -math.log(-math.log(u))


def gen_problem(rng, variant=None, n=None, regime=None):
    variant = variant or rng.choice(VARIANTS)
    n = n or rng.choice([2, 3, 3, 4, 5, 6])
    outside = rng.random() < 0.6
    prob = {
        'variant': variant,
        'n': n,
        'outside': rng.randrange(n) if outside else None,  # abstract position of the outside good
        'psi_c': [rng.randint(-12, 12) / 8 for _ in range(n)],
        'psi_b': [rng.randint(-4, 4) / 8 for _ in range(n)],
        'gamma': [rng.choice([0.5, 1.0, 1.5, 2.0, 3.49, 4.0]) for _ in range(n)],
        'alpha': [rng.choice([0.25, 0.5, 0.75, 0.3, 0.6, 0.8]) for _ in range(n)],
        'prices': [rng.choice([0.5, 1.0, 1.25, 2.0, 3.0]) for _ in range(n)] if variant in ('gamma_profile', 'generalized') and rng.random() < 0.5 else None,
        'mu_c': [rng.randint(-8, 2) / 8 for _ in range(n)],
        'scale': rng.choice([None, None, 0.5, 1.0, 2.0]),
        'rows': [{'x': rng.randint(-16, 16) / 8, 'z': rng.randint(0, 8) / 4} for _ in range(rng.randint(1, 2))],
        'budget': rng.choice([1.0, 2.0, 5.0, 10.0, 37.5, 100.0]),
    }
    n_draws = rng.randint(1, 2)
    prob['eps'] = [[[gumbel(rng) for _ in range(n)] for _ in range(n_draws)] for _ in prob['rows']]
    apply_regime(rng, prob, regime)
    return prob


REGIMES = ['normal', 'normal', 'normal', 'low_marginal', 'tiny_budget', 'large_budget', 'one_dominant']


def apply_regime(rng, prob, regime=None):
    """parameter regimes that move the solution to the corners of the algorithm: marginal utilities at zero
    that are all very small — for the non-monotonic variant all NEGATIVE (negative multiplier, lower bound
    of the empty set) —, a budget so small that a single good is bought, a budget so large that every good
    is (the 'full choice set' exit), one good that dominates all others"""
    regime = regime or rng.choice(REGIMES)
    n = prob['n']
    prob['regime'] = regime
    if regime == 'low_marginal':
        prob['psi_c'] = [rng.randint(-24, -8) / 8 for _ in range(n)]
        prob['psi_b'] = [rng.randint(-2, 2) / 8 for _ in range(n)]
        prob['mu_c'] = [rng.randint(-56, -32) / 8 for _ in range(n)]
    elif regime == 'tiny_budget':
        prob['budget'] = rng.choice([1 / 64, 1 / 1024, 0.05])
    elif regime == 'large_budget':
        prob['budget'] = rng.choice([1000.0, 4096.0, 25000.0])
    elif regime == 'one_dominant':
        j = rng.randrange(n)
        prob['psi_c'][j] += rng.choice([4.0, 6.0])
    return prob


def set_order(labels):
    """iteration order of the set built from the dict keys (what Mdcev.index_to_key will be)"""
    return [k for k in set(dict.fromkeys(labels))]


def labelings(rng, n, outside=None):
    """1..n, a shuffle of 1..n, and sparse labels whose set order differs from the sorted order; in a third of
    the cases the label 0 (a falsy key) is carried by the outside good (by some good when there is none)"""
    seq = list(range(1, n + 1))
    sh = list(seq)
    while n > 1 and sh == seq:
        rng.shuffle(sh)
    zero_at = (outside if outside is not None else rng.randrange(n)) if rng.random() < 0.34 else None
    for _ in range(50):
        sp = rng.sample(range(1 if zero_at is not None else 0, 41), n)
        if zero_at is not None:
            sp[zero_at] = 0
        if set_order(sp) != sorted(sp):
            break
    return {'seq': seq, 'shuffled': sh, 'sparse': sp}


def f_c18_1_shape(variant, labels, outside_label):
    """gamma profile with an outside good, and a *different* alternative whose label equals the
    position of the outside good in the set-iteration order"""
    if variant != 'gamma_profile' or outside_label is None:
        return False
    pos = set_order(labels).index(outside_label)
    return pos in labels and pos != outside_label


def order_differs(labels):
    return set_order(labels) != sorted(labels)


def early_stop(prob, labels, r, d, tol_dual, tol_budget):
    """independent replay of the bisection (real identification, real closed forms): True when the loop stops on
    the budget criterion while the midpoint of the updated bracket is another multiplier (finding F-C18-3)"""
    with core.scratch():
        model = build_model(prob, labels)
        db = row_db(prob, r)
        e = eps_vector(model, labels, prob['eps'][r][d])
        chosen, lo, hi = model.identification_chosen_alternatives(db, prob['budget'], e.copy())
        budget = prob['budget']
        if lo > hi:
            return False
        for _ in range(5000):
            mid = (lo + hi) / 2
            oc = model.optimal_consumption(chosen, mid, e, db)
            if any(v < 0 for v in oc.values()):
                return False
            tot = sum(oc.values())
            if tot < budget:
                hi = mid
            elif tot > budget:
                lo = mid
            if hi - lo <= tol_dual:
                return False
            if abs(tot - budget) <= tol_budget:
                return (lo + hi) / 2 != mid
    return False


def f_c18_3_shape(sub):
    """the case contains a (row, draw) on which the bisection stops on the budget criterion with a bracket whose
    midpoint is another multiplier (at the tolerances used by the harness, 1e-13, or by the comparison tool, 1e-10)"""
    try:
        if not isinstance(sub, dict) or 'labels' not in sub:
            return False
        prob = sub['problem']
        probs = [prob] + ([{**prob, 'rows': scenario_rows(prob)}] if sub.get('scenario') else [])
        labelss = [sub['labels']] + ([sub['other_labels']] if 'other_labels' in sub else [])
        for p in probs:
            rows = [sub['row']] if 'row' in sub and not sub.get('scenario') else range(len(p['rows']))
            for r in rows:
                draws = [sub['draw']] if 'draw' in sub else range(len(p['eps'][r]))
                for d in draws:
                    for labels in labelss:
                        if early_stop(p, labels, r, d, 1e-13, 1e-13) or early_stop(p, labels, r, d, 1e-10, 1e-10):
                            return True
    except Exception:  # noqa: BLE001
        return False
    return False


def make_where(known1, sub):
    """call-site string of a report about `sub`: a listed finding when the case has its shape (decided lazily)"""
    cache = {}

    def W(default):
        if known1:
            return F_C18_1_WHERE
        if 'early' not in cache:
            cache['early'] = f_c18_3_shape(sub)
        return F_C18_3_WHERE if cache['early'] else default

    return W


MATCHERS = {
    'budget_criterion_stops_wide_bracket': f_c18_3_shape,
    'same_row_object_before_and_after_estimation': lambda sub: isinstance(sub, dict) and bool(sub.get('estimated')) and sub.get('used_before') == 'same_row',
    'label_equals_outside_position': lambda sub: isinstance(sub, dict) and 'labels' in sub
    and f_c18_1_shape(sub['problem']['variant'], sub['labels'], sub['labels'][sub['problem']['outside']] if sub['problem']['outside'] is not None else None),
    'set_order_differs': lambda sub: isinstance(sub, dict) and 'labels' in sub and order_differs(sub['labels']),
}


# ----------------------------------------------------------------------------- adapter


def build_model(prob, labels):
    from biogeme.expressions import Beta, Numeric, Variable
    from biogeme.mdcev import GammaProfile, Translated, Generalized, NonMonotonic

    n = prob['n']
    x, z = Variable('x'), Variable('z')
    base = {labels[j]: Beta(f'c_{j}', prob['psi_c'][j], None, None, 0) + Beta(f'b_{j}', prob['psi_b'][j], None, None, 0) * x for j in range(n)}
    gam = {labels[j]: (None if prob['outside'] == j else Beta(f'g_{j}', prob['gamma'][j], 0.001, None, 0)) for j in range(n)}
    alp = {labels[j]: Beta(f'a_{j}', prob['alpha'][j], None, None, 0) for j in range(n)}
    scale = None if prob['scale'] is None else Beta('scale', prob['scale'], None, None, 0)
    v = prob['variant']
    if v == 'translated':
        return Translated('m', base, gam, alp, scale)
    if v == 'gamma_profile':
        prices = None if prob['prices'] is None else {labels[j]: Numeric(prob['prices'][j]) for j in range(n)}
        return GammaProfile('m', base, gam, alp, scale, prices)
    if v == 'generalized':
        prices = None if prob['prices'] is None else {labels[j]: Numeric(prob['prices'][j]) for j in range(n)}
        return Generalized('m', base, gam, alp, scale, prices)
    mu = {labels[j]: Beta(f'm_{j}', prob['mu_c'][j], None, None, 0) + Numeric(0.125) * z for j in range(n)}
    return NonMonotonic('m', base, gam, mu, alp, scale)


def row_db(prob, r):
    import pandas as pd
    from biogeme.database import Database

    return Database(f'row_{r}', pd.DataFrame([prob['rows'][r]]))


def eps_vector(model, labels, eps_abs):
    e = np.zeros(len(labels))
    for j, k in enumerate(labels):
        e[model.key_to_index[k]] = eps_abs[j]
    return e


def lean_alts(prob, labels, order, r, eps_abs):
    """alternatives in index order with the values of their expressions on row r"""
    row = prob['rows'][r]
    pos = {k: j for j, k in enumerate(labels)}
    out = []
    for k in order:
        j = pos[k]
        out.append({
            'label': k,
            'psi': f2b(prob['psi_c'][j] + prob['psi_b'][j] * row['x']),
            'gamma': None if prob['outside'] == j else f2b(prob['gamma'][j]),
            'alpha': f2b(prob['alpha'][j]),
            'price': f2b(1.0 if prob['prices'] is None else prob['prices'][j]),
            'mu': f2b(prob['mu_c'][j] + 0.125 * row['z']),
            'eps': f2b(eps_abs[j]),
        })
    return out


def jscale(prob):
    return None if prob['scale'] is None else f2b(prob['scale'])


# ----------------------------------------------------------------------------- oracle


def oracle_forecast(model, db, prob, labels, e, x_by_label):
    """the statement, on a real forecast.  Returns (reason or None, lambda)"""
    budget = prob['budget']
    for k, v in x_by_label.items():
        if not (v >= 0):
            return f'consumption of alternative {k} is {v} (negative or NaN)', None
    tot = sum(x_by_label.values())
    if abs(tot - budget) > TOL_BUDGET * max(1.0, budget):
        return f'budget not exhausted: sum = {tot!r}, budget = {budget!r}', None
    og = None if prob['outside'] is None else labels[prob['outside']]
    if og is not None and not x_by_label[og] > 0:
        return f'the outside good {og} is not consumed', None
    marg = {}
    for k, v in x_by_label.items():
        if v > 0:
            marg[k] = float(model.derivative_utility_one_alternative(the_id=k, the_consumption=float(v), epsilon=float(e[model.key_to_index[k]]), one_observation=db))
    lam = max(marg.values()) if marg else float('nan')
    lo = min(marg.values()) if marg else float('nan')
    if marg and abs(lam - lo) > TOL_MARG * max(1.0, abs(lam)):
        return f'marginal utilities of the consumed goods differ: {marg}', lam
    for k, v in x_by_label.items():
        if v == 0:
            m0 = float(model.derivative_utility_one_alternative(the_id=k, the_consumption=0.0, epsilon=float(e[model.key_to_index[k]]), one_observation=db))
            if m0 > lam + TOL_MARG * max(1.0, abs(lam)):
                return f'alternative {k} is not consumed although its marginal utility at zero {m0} exceeds {lam}', lam
    return None, lam


def safe(fn, *a, **k):
    try:
        return fn(*a, **k), None
    except Exception as ex:  # noqa: BLE001
        return None, f'{type(ex).__name__}: {ex}'


def validation_of(model, row, prob):
    """Mdcev.validation as (messages, error).  In the low_marginal regime the tool's test of the inverse (fixed
    multiplier 10, np.isclose) is beyond double precision - the closed form is 1 - (tiny number) there -, so its
    'Inconsistent dual variables' messages are not demanded to be absent (the inverse is checked by check_pieces at
    multipliers in the range of the problem); utilities and derivatives are"""
    val, verr = safe(model.validation, row)
    if val is not None and prob.get('regime') == 'low_marginal':
        val = [m for m in val if not str(m).startswith('Inconsistent dual variables')]
    return val, verr


class LogCatch(logging.Handler):
    def __init__(self):
        super().__init__(level=logging.INFO)
        self.msgs = []      # warnings
        self.solved = []    # the 'Analytical: ...' lines: which problems the tool solved, in order

    def emit(self, record):
        if record.levelno >= logging.WARNING:
            self.msgs.append(record.getMessage())
        elif record.getMessage().startswith('Analytical:'):
            self.solved.append(record.getMessage())


LAST_SOLVED = []  # 'Analytical:' lines of the last comparison_warnings call


def comparison_warnings(model, db, budget, e, entry='forecast_comparison_one_draw'):
    """run forecast_comparison_one_draw (or validate_forecast: `db` the whole database, `e` the list of draws per
    observation) with the library's warnings captured"""
    lg = logging.getLogger('biogeme.mdcev.mdcev')
    h = LogCatch()
    prev = logging.root.manager.disable
    logging.disable(logging.NOTSET)
    old_level = lg.level
    lg.setLevel(logging.INFO)
    lg.addHandler(h)
    err = None
    try:
        if entry == 'validate_forecast':
            model.validate_forecast(database=db, total_budget=budget, epsilons=e, tolerance_dual=1e-10, tolerance_budget=1e-10)
        else:
            model.forecast_comparison_one_draw(one_row_of_database=db, total_budget=budget, epsilon=e)
    except Exception as ex:  # noqa: BLE001
        err = f'{type(ex).__name__}: {ex}'
    finally:
        lg.removeHandler(h)
        lg.setLevel(old_level)
        logging.disable(prev)
    kinds = sorted({m.split('[')[0].split(':')[0].strip()[:40] for m in h.msgs if not m.startswith('Solution with')})
    LAST_SOLVED[:] = h.solved
    return kinds, err


def expected_comparison(model, db, budget, e):
    """what forecast_comparison_one_draw has to report, recomputed from the two real solvers (same
    deterministic calls as inside it) with every vector in position order: independent of how the
    method itself orders the consumptions, and not demanding anything of the external SLSQP solver"""
    bf, _ = safe(model.forecast_bruteforce_one_draw, db, budget, e.copy())
    an, _ = safe(model.forecast_bisection_one_draw, db, budget, e.copy())
    if bf is None and an is None:
        return ['Both algorithms failed.']
    if bf is None:
        return ['Brute force algorithm failed.']
    if an is None:
        return ['Analytical algorithm failed.']
    kinds = set()
    cs_b = {k for k, v in bf.items() if not np.isclose(v, 0)}
    cs_a = {k for k, v in an.items() if not np.isclose(v, 0)}
    if cs_a != cs_b:
        kinds.add('Different optimal choice sets')
    xb = np.array([bf[k] for k in model.index_to_key])
    xa = np.array([an[k] for k in model.index_to_key])
    ob, _ = safe(model.sum_of_utilities, consumptions=xb, epsilon=e.copy(), data_row=db)
    oa, _ = safe(model.sum_of_utilities, consumptions=xa, epsilon=e.copy(), data_row=db)
    if ob is None or oa is None:
        return None  # the objective cannot be evaluated (reported by the forecast oracle): nothing is demanded of the tool
    # borderline comparisons (within a factor 10 of np.isclose's thresholds) are not decided
    def far(a, b):
        return abs(a - b) > 10 * (1e-8 + 1e-5 * abs(b))

    def near(a, b):
        return abs(a - b) < 0.1 * (1e-8 + 1e-5 * abs(b))

    undecided = False
    if far(oa, ob):
        kinds.add('Difference between optimal utility with analytical'[:40])
    elif not near(oa, ob):
        undecided = True
    if far(float(sum(xa)), float(sum(xb))):
        kinds.add('Difference between constraint with analytical'[:40])
    elif not near(float(sum(xa)), float(sum(xb))):
        undecided = True
    return None if undecided else sorted(kinds)


# ----------------------------------------------------------------------------- checks


def check_problem(ctx, res, prob, labs, brute=True, pieces=True, comparison=False):
    """one abstract problem under several labelings"""
    results = {}  # (labeling, r, d) -> consumption by abstract alternative
    for lname, labels in labs.items():
        og_label = None if prob['outside'] is None else labels[prob['outside']]
        known1 = f_c18_1_shape(prob['variant'], labels, og_label)
        W1 = (lambda d, k=known1: F_C18_1_WHERE if k else d)
        with core.scratch():
            model, err = safe(build_model, prob, labels)
            if model is None:
                res.violate(f'the model cannot be built: {err}', {'problem': prob, 'labels': labels}, err, 'a model', where='Mdcev.__init__')
                continue
            order = list(model.index_to_key)
            pos = {k: j for j, k in enumerate(labels)}
            comp = {}  # (r, d) -> expected kinds of warnings of the comparison tool (None: borderline)
            solved = {}  # (r, d) -> the solution lines logged by forecast_comparison_one_draw
            # label <-> position maps
            res.tally('maps')
            maps_ok = (sorted(order) == sorted(labels) and len(order) == prob['n'] == model.number_of_alternatives
                       and all(order[model.key_to_index[k]] == k for k in labels)
                       and model.outside_good_key == og_label
                       and model.outside_good_index == (None if og_label is None else order.index(og_label)))
            if not maps_ok:
                res.violate('index_to_key / key_to_index / outside_good_index are not consistent with the labels',
                            {'problem': prob, 'labels': labels, 'labeling': lname},
                            {'index_to_key': order, 'key_to_index': {int(k): int(v) for k, v in model.key_to_index.items()},
                             'outside_good_key': model.outside_good_key, 'outside_good_index': model.outside_good_index},
                            'inverse maps over the labels', where='Mdcev.__init__ (label maps)')
                continue
            for r in range(len(prob['rows'])):
                db = row_db(prob, r)
                for d, eps_abs in enumerate(prob['eps'][r]):
                    sub = {'problem': prob, 'labels': labels, 'labeling': lname, 'row': r, 'draw': d}
                    W = make_where(known1, sub)
                    e = eps_vector(model, labels, eps_abs)
                    fc, err = safe(model.forecast_bisection_one_draw, db, prob['budget'], e.copy())
                    res.tally(f'{prob["variant"]}')
                    res.tally(f'labeling={lname}')
                    if og_label == 0:
                        res.tally('outside_good_has_label_0')
                    if fc is None:
                        res.count({'fc_raises': sub})
                        res.violate(f'forecast_bisection_one_draw raises on a valid model: {err}', sub, err, 'a forecast', where=W('Mdcev.forecast_bisection_one_draw'))
                        continue
                    x_by_label = {int(k): float(v) for k, v in fc.items()}
                    xs_abs = [x_by_label.get(labels[j], float('nan')) for j in range(prob['n'])]
                    results[(lname, r, d)] = xs_abs
                    n_zero = sum(1 for v in xs_abs if v == 0)
                    res.count({'forecast': sub['labels'], 'v': prob['variant'], 'x': xs_abs}, nontrivial=prob['n'] >= 3 and (n_zero > 0 or lname != 'seq'))
                    res.tally('some_good_not_consumed' if n_zero else 'all_consumed')
                    why, lam = oracle_forecast(model, db, prob, labels, e, x_by_label)
                    if why:
                        res.violate(f'forecast: {why}', sub, x_by_label, 'KKT point of the consumer problem', where=W('Mdcev.forecast_bisection_one_draw'))
                    # brute force: the forecast must be at least as good
                    bf = None
                    if brute:
                        bf, berr = safe(model.forecast_bruteforce_one_draw, db, prob['budget'], e.copy())
                        if bf is not None:
                            xb = np.array([float(bf[k]) for k in order])
                            xa = np.array([x_by_label[k] for k in order])
                            ob, oerr = safe(model.sum_of_utilities, xb, e, db)
                            oa, oerr2 = safe(model.sum_of_utilities, xa, e, db)
                            if ob is not None and oa is not None and math.isfinite(ob):
                                slack = 1e-6 * max(1.0, abs(ob)) + abs(lam or 0.0) * abs(float(xb.sum()) - prob['budget']) * 2
                                res.tally('brute_force_compared')
                                if not (oa >= ob - slack):
                                    res.violate('forecast is worse than the brute-force solution', sub, {'objective': oa, 'x': x_by_label},
                                                {'objective_brute': ob, 'x_brute': {k: float(v) for k, v in bf.items()}}, where=W('Mdcev.forecast_bisection_one_draw'))
                    # identification
                    idt, ierr = safe(model.identification_chosen_alternatives, db, prob['budget'], e.copy())
                    alts = lean_alts(prob, labels, order, r, eps_abs)
                    common = {'variant': prob['variant'], 'scale': jscale(prob)}
                    reqs = [
                        {'op': 'forecast', **common, 'alts': alts, 'budget': f2b(prob['budget']), 'tol_dual': f2b(1e-13), 'tol_budget': f2b(1e-13)},
                        {'op': 'ident', **common, 'alts': alts, 'budget': f2b(prob['budget'])},
                        {'op': 'kkt', **common, 'alts': alts, 'budget': f2b(prob['budget']), 'xs': [f2b(x_by_label[k]) for k in order],
                         'tol_budget': f2b(TOL_BUDGET * max(1.0, prob['budget'])), 'tol_marginal': f2b(TOL_MARG),
                         'brute': None if bf is None else [f2b(float(bf[k])) for k in order]},
                    ]

                    bf_gap = 0.0 if bf is None else abs(sum(float(bf[k]) for k in order) - prob['budget'])

                    def cb(ans, sub=sub, x_by_label=x_by_label, order=order, idt=idt, why=why, W=W, bf_gap=bf_gap):
                        f = ans[0]
                        if 'err' in f:
                            res.diverge('Mdcev.forecast (model) fails where the code succeeds', sub, f, x_by_label, where=W(''))
                        else:
                            mx = {k: b2f(b) for k, b in f['x']}
                            if any(not close(mx[k], x_by_label[k], 1e-7, 1e-9) for k in order):
                                res.diverge('forecast_bisection_one_draw vs Mdcev.forecast', sub, mx, x_by_label, where=W(''))
                        if idt is not None:
                            mi = ans[1]
                            got = (sorted(int(k) for k in idt[0]), float(idt[1]), float(idt[2]))
                            if sorted(mi['chosen']) != got[0] or not close(b2f(mi['lo']), got[1], 1e-9, 1e-12) or not close(b2f(mi['hi']), got[2], 1e-9, 1e-12):
                                res.diverge('identification_chosen_alternatives vs Mdcev.identifyChosen', sub,
                                            [sorted(mi['chosen']), b2f(mi['lo']), b2f(mi['hi'])], list(got), where=W(''))
                        k = ans[2]
                        if bool(k.get('kkt')) != (why is None):
                            res.diverge('Lean relation kktB on the real forecast vs the Python oracle', sub,
                                        {'kkt': k.get('kkt'), 'marginal': [b2f(b) for b in k.get('marginal', [])]}, why, where=W(''))
                        if k.get('objective_brute') is not None:
                            oa, ob = b2f(k['objective']), b2f(k['objective_brute'])
                            lam_m = b2f(k['lam']) if k.get('lam') is not None else 0.0
                            slack = 1e-6 * max(1.0, abs(ob)) + 2 * abs(lam_m if math.isfinite(lam_m) else 0.0) * bf_gap
                            if math.isfinite(ob) and not (oa >= ob - slack):
                                res.diverge('model objective: forecast worse than brute force', sub, oa, ob, where=W(''))

                    ctx.batch.add_many(reqs, cb)
                    if comparison and lname in ('seq', 'sparse', 'given'):
                        kinds, cerr = comparison_warnings(model, db, prob['budget'], e.copy())
                        solved[(r, d)] = list(LAST_SOLVED)
                        want = expected_comparison(model, db, prob['budget'], e)
                        comp[(r, d)] = want
                        res.tally('comparison_checked' if want is not None else 'comparison_borderline')
                        if want is not None and (cerr is not None or kinds != want):
                            res.violate('forecast_comparison_one_draw does not report what its two solutions imply',
                                        sub, {'warnings': kinds, 'error': cerr}, {'warnings': want, 'error': None},
                                        where=F_C18_2_WHERE if order_differs(labels) else W('Mdcev.forecast_comparison_one_draw'))
                if pieces:
                    check_pieces(ctx, res, prob, labels, lname, model, db, r, W1, sym_store=getattr(ctx, 'sym_store', None))
            if comparison and len(comp) == sum(len(x) for x in prob['eps']) and all(w is not None for w in comp.values()):
                check_validate_forecast(res, prob, labels, lname, model, comp, solved)
            if pieces:
                val, verr = validation_of(model, row_db(prob, 0), prob)
                res.tally('validation')
                if val is None or val:
                    res.violate(f'Mdcev.validation reports inconsistencies on a valid model: {val if val is not None else verr}',
                                {'problem': prob, 'labels': labels, 'labeling': lname}, val if val is not None else verr, [], where=W1('Mdcev.validation'))
            # forecast(): all rows and draws at once, columns sorted by label
            check_forecast_table(res, prob, labels, lname, model, results, W1)
    # label irrelevance: same abstract problem, same abstract draws
    keys = sorted({(r, d) for (_, r, d) in results})
    for r, d in keys:
        ref_name = next((ln for ln in labs if (ln, r, d) in results), None)
        for ln in labs:
            if ln == ref_name or (ln, r, d) not in results:
                continue
            a, b = results[(ref_name, r, d)], results[(ln, r, d)]
            res.tally('relabelling_compared')
            if any(not close(u, v, 1e-7, 1e-9) for u, v in zip(a, b)):
                og1 = None if prob['outside'] is None else labs[ln][prob['outside']]
                og0 = None if prob['outside'] is None else labs[ref_name][prob['outside']]
                known = f_c18_1_shape(prob['variant'], labs[ln], og1) or f_c18_1_shape(prob['variant'], labs[ref_name], og0)
                bad = ln if f_c18_1_shape(prob['variant'], labs[ln], og1) else ref_name
                rsub = {'problem': prob, 'labels': labs[bad if known else ln], 'labeling': ln, 'other_labels': labs[ref_name], 'row': r, 'draw': d}
                res.violate('the forecast depends on the labels of the alternatives', rsub,
                            {ln: b}, {ref_name: a}, where=F_C18_1_WHERE if known else make_where(False, rsub)('Mdcev (labels)'))


def check_validate_forecast(res, prob, labels, lname, model, comp, solved):
    """secondary entry point of the comparison tool: validate_forecast(database, budget, epsilons) splits the
    database into rows and runs forecast_comparison_one_draw on every (row, draw): it must report exactly
    what the (row, draw) pairs imply, each with ITS row and ITS draw"""
    import pandas as pd
    from biogeme.database import Database

    db = Database('all_rows', pd.DataFrame(prob['rows']))
    epsilons = [np.array([eps_vector(model, labels, ea) for ea in prob['eps'][r]]) for r in range(len(prob['rows']))]
    want = sorted({k for w in comp.values() for k in w})
    kinds, err = comparison_warnings(model, db, prob['budget'], epsilons, entry='validate_forecast')
    res.tally('validate_forecast')
    res.count({'validate_forecast': labels, 'v': prob['variant'], 'rows': prob['rows']}, nontrivial=len(prob['rows']) > 1)
    # which problems it solved: the logged solutions must be those of forecast_comparison_one_draw on each (row, draw), in order
    want_solved = [m for key in sorted(solved) for m in solved[key]]
    if err is None and LAST_SOLVED != want_solved:
        res.violate('validate_forecast does not solve the problems of its (row, draw) pairs (logged solutions differ from forecast_comparison_one_draw on each pair)',
                    {'problem': prob, 'labels': labels, 'labeling': lname, 'validate_forecast': True}, list(LAST_SOLVED), want_solved,
                    where=F_C18_2_WHERE if order_differs(labels) else 'Mdcev.validate_forecast')
    if err is not None or kinds != want:
        res.violate('validate_forecast does not report what its (row, draw) comparisons imply',
                    {'problem': prob, 'labels': labels, 'labeling': lname, 'validate_forecast': True}, {'warnings': kinds, 'error': err},
                    {'warnings': want, 'error': None}, where=F_C18_2_WHERE if order_differs(labels) else 'Mdcev.validate_forecast')


def check_forecast_table(res, prob, labels, lname, model, results, W1):
    import pandas as pd
    from biogeme.database import Database

    db = Database('all', pd.DataFrame(prob['rows']))
    epsilons = []
    for r in range(len(prob['rows'])):
        epsilons.append(np.array([eps_vector(model, labels, ea) for ea in prob['eps'][r]]))
    out, err = safe(model.forecast, db, prob['budget'], epsilons, False, 1e-13, 1e-13)
    sub = {'problem': prob, 'labels': labels, 'labeling': lname}
    res.tally('forecast_table')
    if out is None:
        if any((lname, r, 0) in results for r in range(len(prob['rows']))):
            res.violate(f'Mdcev.forecast raises: {err}', sub, err, 'one data frame per observation', where=W1('Mdcev.forecast'))
        return
    for r, df in enumerate(out):
        if list(df.columns) != sorted(labels):
            res.violate('Mdcev.forecast: columns are not the sorted labels', sub, list(df.columns), sorted(labels), where=W1('Mdcev.forecast'))
            continue
        for d in range(len(prob['eps'][r])):
            if (lname, r, d) not in results:
                continue
            want = results[(lname, r, d)]
            got = [float(df.iloc[d][labels[j]]) for j in range(prob['n'])]
            if any(not close(u, v, 1e-9, 1e-12) for u, v in zip(got, want)):
                res.violate('Mdcev.forecast differs from forecast_bisection_one_draw on the same row and draw', {**sub, 'row': r, 'draw': d}, got, want, where=W1('Mdcev.forecast'))


SYM_MAX = 450


def check_pieces(ctx, res, prob, labels, lname, model, db, r, W1, sym_store=None):
    """U, U', inverse on each alternative: numeric = symbolic (engine), derivative = derivative,
    inverse inverts; and the Float model pointwise"""
    from biogeme.expressions import Beta, Numeric

    order = list(model.index_to_key)
    eps0 = prob['eps'][r][0]
    alts = lean_alts(prob, labels, order, r, eps0)
    pos = {k: j for j, k in enumerate(labels)}
    xs = [0.5, 1.0, 2.75, 10.0]
    lams = [0.05, 0.5, 2.0]
    for a in alts:
        k = a['label']
        j = pos[k]
        eps = eps0[j]
        sub = {'problem': prob, 'labels': labels, 'labeling': lname, 'row': r, 'alt': k, 'pieces': True}
        res.count({'pieces': prob['variant'], 'alt': j, 'label': k, 'outside': prob['outside'] == j}, nontrivial=lname != 'seq' or prob['prices'] is not None)
        res.tally('pieces')
        if prob['variant'] == 'non_monotonic':
            mu_e = prob['mu_c'][j] + 0.125 * prob['rows'][r]['z'] + eps / (prob['scale'] or 1.0)
            lam_list = [mu_e + 0.05, mu_e + 0.5, mu_e + 2.0]
        else:
            lam_list = lams
        real_u, real_d, real_i, sym_u, sym_g = [], [], [], [], []
        for x in xs:
            u, _ = safe(model.utility_one_alternative, the_id=k, the_consumption=x, epsilon=eps, one_observation=db)
            dv, _ = safe(model.derivative_utility_one_alternative, the_id=k, the_consumption=x, epsilon=eps, one_observation=db)
            real_u.append(float('nan') if u is None else float(u))
            real_d.append(float('nan') if dv is None else float(dv))
            ex, eerr = safe(model.utility_expression_one_alternative, the_id=k, the_consumption=Beta('consumption', x, None, None, 0), unscaled_epsilon=Numeric(eps))
            if ex is None:
                sym_u.append(float('nan'))
                sym_g.append(float('nan'))
            else:
                fo, _ = safe(ex.get_value_and_derivatives, database=db, prepare_ids=True, gradient=True, named_results=True)
                sym_u.append(float('nan') if fo is None else float(fo.function))
                sym_g.append(float('nan') if fo is None else float(fo.gradient['consumption']))
            # finite differences of the real utility
            h = 1e-5 * max(1.0, x)
            up, _ = safe(model.utility_one_alternative, the_id=k, the_consumption=x + h, epsilon=eps, one_observation=db)
            um, _ = safe(model.utility_one_alternative, the_id=k, the_consumption=x - h, epsilon=eps, one_observation=db)
            if up is not None and um is not None and dv is not None:
                fd = (float(up) - float(um)) / (2 * h)
                if not close(fd, float(dv), 1e-5, 1e-7):
                    res.violate(f'derivative_utility_one_alternative is not the derivative of utility_one_alternative at x={x}', sub, float(dv), fd,
                                where=W1('derivative_utility_one_alternative'))
        for lam in lam_list:
            iv, _ = safe(model.optimal_consumption_one_alternative, the_id=k, dual_variable=lam, epsilon=eps, one_observation=db)
            real_i.append(float('nan') if iv is None else float(iv))
            if iv is not None and float(iv) > 0:
                back, _ = safe(model.derivative_utility_one_alternative, the_id=k, the_consumption=float(iv), epsilon=eps, one_observation=db)
                if back is None or not close(float(back), lam, 1e-8, 1e-10):
                    res.violate(f'optimal_consumption_one_alternative does not invert the derivative at lambda={lam}', sub, back, lam,
                                where=W1('optimal_consumption_one_alternative'))
        for x, a1, a2 in zip(xs, real_u, sym_u):
            if not close(a1, a2, 1e-9, 1e-12):
                res.violate(f'numeric utility differs from the symbolic utility at x={x}', sub, a1, a2, where=W1('utility_expression_one_alternative'))
        for x, a1, a2 in zip(xs, real_d, sym_g):
            if not close(a1, a2, 1e-8, 1e-11):
                res.violate(f'derivative_utility_one_alternative differs from the gradient of the symbolic utility at x={x}', sub, a1, a2,
                            where=W1('derivative_utility_one_alternative'))
        req = {'op': 'pieces', 'variant': prob['variant'], 'scale': jscale(prob), 'alt': a, 'xs': [f2b(x) for x in xs], 'lams': [f2b(l) for l in lam_list]}

        def cb(ans, sub=sub, real_u=real_u, real_d=real_d, real_i=real_i, W1=W1):
            for name, real in (('U', real_u), ('dU', real_d), ('inv', real_i)):
                m = [b2f(b) for b in ans[name]]
                if any(not close(u, v, 1e-10, 1e-12) for u, v in zip(m, real)):
                    res.diverge(f'{name}: model vs code', sub, m, real, where=W1(''))

        ctx.batch.add(req, cb)
        # the FORMULA the code built (utility_expression_one_alternative), as handed to the engine, is run by the
        # proved engine model and compared with the Lean model of that formula (`symbolicU`, theorem
        # C18.expr_eq_numeric) and with the real engine
        if sym_store is not None and len(sym_store) < SYM_MAX:
            x0 = xs[(j + r) % len(xs)]
            ex, _ = safe(model.utility_expression_one_alternative, the_id=k, the_consumption=Beta('consumption', x0, None, None, 0), unscaled_epsilon=Numeric(eps))
            if ex is not None:
                o = leanrun.observe(ex, db)
                holder = {'o': o, 'sub': {**sub, 'x': x0}, 'where': W1('utility_expression_one_alternative'), 'sym': None}
                sym_store.append(holder)
                # the baseline utility (and the mu utility) of the alternative on this row: the real formula run by the
                # engine model must give the value the abstract problem defines (exact dyadic arithmetic)
                row = prob['rows'][r]
                ob = leanrun.observe(model.baseline_utilities[k], db)
                sym_store.append({'o': ob, 'sub': {**sub, 'piece': 'baseline_utility'}, 'where': W1('calculate_baseline_utility'),
                                  'sym': prob['psi_c'][j] + prob['psi_b'][j] * row['x'], 'what': 'baseline utility'})
                if prob['variant'] == 'non_monotonic':
                    om = leanrun.observe(model.mu_utilities[k], db)
                    sym_store.append({'o': om, 'sub': {**sub, 'piece': 'mu_utility'}, 'where': W1('calculate_mu_utility'),
                                      'sym': prob['mu_c'][j] + 0.125 * row['z'], 'what': 'mu utility'})
                ctx.batch.add({'op': 'symbolic', 'variant': prob['variant'], 'scale': jscale(prob), 'alt': a, 'xs': [f2b(x0)]},
                              lambda ans, holder=holder: holder.update(sym=b2f(ans['sym'][0]), U=b2f(ans['U'][0])))


def symbolic_marginal(model, k, x, eps, db):
    """marginal utility from the *symbolic* utility on the real row (engine gradient): does not go
    through calculate_baseline_utility or any stored value"""
    from biogeme.expressions import Beta, Numeric

    ex = model.utility_expression_one_alternative(the_id=k, the_consumption=Beta('consumption', float(x), None, None, 0), unscaled_epsilon=Numeric(float(eps)))
    fo = ex.get_value_and_derivatives(database=db, prepare_ids=True, gradient=True, named_results=True)
    return float(fo.gradient['consumption'])


def oracle_symbolic(model, db, prob, labels, e, x_by_label):
    """KKT on a forecast with the marginal utilities taken from the symbolic utility"""
    budget = prob['budget']
    if any(not (v >= 0) for v in x_by_label.values()):
        return 'a consumption is negative or NaN'
    tot = sum(x_by_label.values())
    if abs(tot - budget) > TOL_BUDGET * max(1.0, budget):
        return f'budget not exhausted: sum = {tot!r}'
    og = None if prob['outside'] is None else labels[prob['outside']]
    marg = {k: symbolic_marginal(model, k, v, e[model.key_to_index[k]], db) for k, v in x_by_label.items() if v > 0 or k != og}
    pos = [marg[k] for k, v in x_by_label.items() if v > 0]
    if not pos:
        return 'nothing is consumed'
    lam = max(pos)
    if lam - min(pos) > TOL_MARG * max(1.0, abs(lam)):
        return f'symbolic marginal utilities of the consumed goods differ: { {k: marg[k] for k, v in x_by_label.items() if v > 0} }'
    for k, v in x_by_label.items():
        if v == 0 and marg[k] > lam + TOL_MARG * max(1.0, abs(lam)):
            return f'alternative {k} is not consumed although its symbolic marginal utility at zero {marg[k]} exceeds {lam}'
    return None


def scenario_rows(prob):
    """a second scenario: same number of observations, changed explanatory variables"""
    return [{'x': -r['x'] + 0.625 + 0.25 * i, 'z': r['z'] + 0.75} for i, r in enumerate(prob['rows'])]


def check_scenarios(ctx, res, prob, labels, lname):
    """the SAME model object is used on a base scenario and then on a changed scenario (another
    database whose rows carry the same names, and the same database with modified data): the second
    results must be those of a freshly built model, validation must stay silent and the forecast
    must solve the problem of the *new* observation"""
    import pandas as pd
    from biogeme.database import Database

    rows2 = scenario_rows(prob)
    prob2 = {**prob, 'rows': rows2}
    sub = {'problem': prob, 'labels': labels, 'labeling': lname, 'scenario': True}
    WS = make_where(False, sub)
    og_label = None if prob['outside'] is None else labels[prob['outside']]
    with core.scratch():
        model, err = safe(build_model, prob, labels)
        fresh, err2 = safe(build_model, prob, labels)
        if model is None or fresh is None:
            return
        eps = [np.array([eps_vector(model, labels, ea) for ea in prob['eps'][r]]) for r in range(len(prob['rows']))]
        base_db = Database('scenario', pd.DataFrame(prob['rows']))
        out1, e1 = safe(model.forecast, base_db, prob['budget'], eps, False, 1e-13, 1e-13)
        # also the one-row route on the base scenario (rows named as Mdcev.forecast names them)
        for r in range(len(prob['rows'])):
            safe(model.validation, Database(f'row_{r}', pd.DataFrame([prob['rows'][r]])))
        # (a) another database, (b) the same database object with modified data
        for mode in ('other_database', 'same_database_modified'):
            if mode == 'other_database':
                db2 = Database('policy', pd.DataFrame(rows2))
            else:
                base_db.data['x'] = [r['x'] for r in rows2]
                base_db.data['z'] = [r['z'] for r in rows2]
                db2 = base_db
            res.count({'scenario': mode, 'v': prob['variant'], 'labels': labels, 'rows2': rows2}, nontrivial=any(b != 0 for b in prob['psi_b']))
            res.tally(f'scenario:{mode}')
            out2, e2 = safe(model.forecast, db2, prob['budget'], eps, False, 1e-13, 1e-13)
            ref_db = Database('reference', pd.DataFrame(rows2))
            ref, e3 = safe(fresh.forecast, ref_db, prob['budget'], eps, False, 1e-13, 1e-13)
            if (out2 is None) != (ref is None):
                res.violate(f'second scenario on a re-used model: {e2}; freshly built model: {e3}', {**sub, 'mode': mode}, e2, e3, where=WS('Mdcev.forecast (re-used model)'))
                continue
            if out2 is None:
                continue
            for r, (df2, dfr) in enumerate(zip(out2, ref)):
                a = [[float(v) for v in df2[k]] for k in sorted(labels)]
                b = [[float(v) for v in dfr[k]] for k in sorted(labels)]
                if any(not close(u, v, 1e-9, 1e-12) for ra, rb in zip(a, b) for u, v in zip(ra, rb)):
                    res.violate('forecast of a changed scenario with a re-used model object differs from a freshly built model',
                                {**sub, 'mode': mode, 'row': r}, {k: v for k, v in zip(sorted(labels), a)}, {k: v for k, v in zip(sorted(labels), b)},
                                where=WS('Mdcev.forecast (re-used model)'))
                # KKT from the symbolic utility on the real new row (first draw)
                row2 = Database(f'row_{r}', pd.DataFrame([rows2[r]]))
                x_by_label = {k: float(df2[k].iloc[0]) for k in labels}
                why, oerr = safe(oracle_symbolic, model, row2, prob2, labels, eps[r][0], x_by_label)
                if oerr is None and why:
                    res.violate(f'forecast of the changed scenario (re-used model): {why}', {**sub, 'mode': mode, 'row': r}, x_by_label,
                                'KKT point of the new observation (symbolic marginal utilities)', where=WS('Mdcev.forecast (re-used model)'))
                # pieces on the new row with the re-used model: numeric = symbolic
                val, verr = validation_of(model, row2, prob)
                if val is None or val:
                    res.violate(f'Mdcev.validation on the changed scenario (re-used model): {val if val is not None else verr}',
                                {**sub, 'mode': mode, 'row': r}, val if val is not None else verr, [], where='Mdcev.validation (re-used model)')
                one, oerr = safe(model.forecast_bisection_one_draw, row2, prob['budget'], eps[r][0].copy(), 1e-13, 1e-13)
                if one is not None and any(not close(float(one[k]), x_by_label[k], 1e-9, 1e-12) for k in labels):
                    res.violate('forecast_bisection_one_draw on the new row differs from Mdcev.forecast of the same row (re-used model)',
                                {**sub, 'mode': mode, 'row': r}, {int(k): float(v) for k, v in one.items()}, x_by_label, where=WS('Mdcev.forecast (re-used model)'))


def finish_symbolic(res, store):
    """after the batch: engine model on the real signature text vs the Lean model of the formula vs the real engine"""
    if not store:
        return
    leans = leanrun.lean_values([h['o'] for h in store])
    for h, lv in zip(store, leans):
        o = h['o']
        res.tally('symbolic_formula_observed')
        what = h.get('what', 'utility_expression_one_alternative')
        leanrun.compare(res, o, lv, what, h['sub'], rel=1e-9, abs_=1e-12, where=h['where'])
        if lv is None or isinstance(lv, tuple) or h.get('sym') is None:
            continue
        v = lv[0]
        if isinstance(v, tuple):
            continue
        if 'what' in h:
            res.tally('baseline_formula_vs_problem')
            if not close(v, h['sym'], 1e-12, 1e-13):
                res.diverge(f'{what} of the model object (formula run by the engine model) vs the value the abstract problem defines', h['sub'], h['sym'], v, where=h['where'])
            continue
        res.tally('symbolic_formula_vs_model')
        if not close(v, h['sym'], 1e-9, 1e-12):
            res.diverge('the formula built by utility_expression_one_alternative (run by the engine model) vs Mdcev.symbolicU', h['sub'], h['sym'], v, where=h['where'])


# ----------------------------------------------------------------------------- parameters after estimation


def param_slots(expr):
    """the parameter slots (name, value) of a real expression, sorted by name"""
    from biogeme.expressions import TypeOfElementaryExpression

    d = expr.dict_of_elementary_expression(TypeOfElementaryExpression.BETA)
    return sorted((str(n), float(b.initValue)) for n, b in d.items())


def build_estimated(prob, labels, start):
    """the model of `prob` whose parameters START at other values (`start`: name -> value); prices are parameters
    here (so that the variant's own expressions carry estimated values too)"""
    from biogeme.expressions import Beta, Numeric, Variable
    from biogeme.mdcev import GammaProfile, Translated, Generalized, NonMonotonic

    n = prob['n']
    x, z = Variable('x'), Variable('z')
    B = lambda name, lb=None, ub=None: Beta(name, start[name], lb, ub, 0)
    base = {labels[j]: B(f'c_{j}') + B(f'b_{j}') * x for j in range(n)}
    gam = {labels[j]: (None if prob['outside'] == j else B(f'g_{j}', 0.001)) for j in range(n)}
    alp = {labels[j]: B(f'a_{j}', 0.05, 0.95) for j in range(n)}
    scale = None if prob['scale'] is None else B('scale', 0.1)
    v = prob['variant']
    prices = None if prob['prices'] is None else {labels[j]: B(f'p_{j}', 0.1) for j in range(n)}
    if v == 'translated':
        return Translated('m', base, gam, alp, scale)
    if v == 'gamma_profile':
        return GammaProfile('m', base, gam, alp, scale, prices)
    if v == 'generalized':
        return Generalized('m', base, gam, alp, scale, prices)
    mu = {labels[j]: B(f'm_{j}') + Numeric(0.125) * z for j in range(n)}
    return NonMonotonic('m', base, gam, mu, alp, scale)


def true_betas(prob):
    n = prob['n']
    t = {}
    for j in range(n):
        t[f'c_{j}'] = prob['psi_c'][j]
        t[f'b_{j}'] = prob['psi_b'][j]
        if prob['outside'] != j:
            t[f'g_{j}'] = prob['gamma'][j]
        t[f'a_{j}'] = prob['alpha'][j]
        if prob['prices'] is not None:
            t[f'p_{j}'] = prob['prices'][j]
        if prob['variant'] == 'non_monotonic':
            t[f'm_{j}'] = prob['mu_c'][j]
    if prob['scale'] is not None:
        t['scale'] = prob['scale']
    return t


BEFORE_MODES = [False, 'pieces', 'validation', 'table', 'same_row', 'all']
PARAM_GROUPS = {'psi': ('c_', 'b_'), 'gamma': ('g_',), 'alpha': ('a_',), 'mu': ('m_',), 'scale': ('scale',), 'prices': ('p_',)}


def group_of(name):
    return next(g for g, pre in PARAM_GROUPS.items() if name.startswith(pre))


def other_value(name, val):
    """a starting value that differs substantially from the value to come"""
    if name.startswith('a_'):
        return 0.5 if abs(val - 0.5) > 0.1 else 0.2
    if name.startswith(('g_', 'p_')) or name == 'scale':
        return 1.0 if abs(val - 1.0) > 0.4 else 3.0
    return 0.0 if abs(val) > 0.3 else 0.75


def numeric_pieces(model, labels, row, eps_row, xs, lam_of):
    """utility, derivative and closed-form consumption of every alternative, through the numeric entry points"""
    out = {}
    for k in labels:
        e = float(eps_row[model.key_to_index[k]])
        u = [safe(model.utility_one_alternative, the_id=k, the_consumption=x, epsilon=e, one_observation=row)[0] for x in xs]
        d = [safe(model.derivative_utility_one_alternative, the_id=k, the_consumption=x, epsilon=e, one_observation=row)[0] for x in xs]
        i = [safe(model.optimal_consumption_one_alternative, the_id=k, dual_variable=l, epsilon=e, one_observation=row)[0] for l in lam_of[k]]
        out[k] = [[float('nan') if v is None else float(v) for v in vec] for vec in (u, d, i)]
    return out


def check_estimated(ctx, res, prob, labels, lname, used_before, groups=None, route='setter'):
    """HISTORY on one model object: (1) it is used at its starting values (`used_before`: numeric pieces /
    validation / forecast of the table / one-draw forecast and validation on row objects that are used again / all
    of them), (2) the parameter values change (`groups`: which groups of parameters start elsewhere, None = all;
    `route`: the setter of estimation_results, or estimate_parameters), (3) it is used again.  After the change the
    numeric pieces must be the closed forms at the NEW values (Lean model; a model built with the values), the
    forecasts those of a model built with the values and KKT points for marginal utilities computed from a model
    built with the values, validation silent, and every expression a forecast reads carries the new values."""
    import pandas as pd
    from biogeme.database import Database
    from biogeme.results import bioResults

    class Estimated(bioResults):
        def __init__(self, betas):
            self._betas = dict(betas)

        def get_beta_values(self, my_betas=None):
            return dict(self._betas) if my_betas is None else {b: self._betas[b] for b in my_betas}

    truth = true_betas(prob)
    start = {name: (other_value(name, val) if groups is None or group_of(name) in groups else val) for name, val in truth.items()}
    sub = {'problem': prob, 'labels': labels, 'labeling': lname, 'estimated': True, 'used_before': used_before, 'groups': groups, 'route': route}
    WE = make_where(False, {'problem': prob, 'labels': labels})
    res.count({'estimated': prob['variant'], 'labels': labels, 'used_before': used_before, 'groups': groups, 'truth': truth}, nontrivial=True)
    res.tally(f'estimated:used_before={used_before}')
    res.tally(f'estimated:{prob["variant"]}:before={used_before}')
    res.tally('estimated:groups=' + ('all' if groups is None else '+'.join(groups)))
    xs = [0.5, 2.75]
    with core.scratch():
        model, err = safe(build_estimated, prob, labels, start)
        fresh, err2 = safe(build_estimated, prob, labels, truth)
        if model is None or fresh is None:
            res.violate(f'the model cannot be built: {err or err2}', sub, err or err2, 'a model', where='Mdcev.__init__')
            return
        db = Database('estimation', pd.DataFrame(prob['rows']))
        eps = [np.array([eps_vector(model, labels, ea) for ea in prob['eps'][r]]) for r in range(len(prob['rows']))]
        row_objs = [Database(f'row_{r}', pd.DataFrame([prob['rows'][r]])) for r in range(len(prob['rows']))]
        # multipliers in the domain of every closed form at the NEW values
        lam_of = {}
        for j, k in enumerate(labels):
            if prob['variant'] == 'non_monotonic':
                m0 = prob['mu_c'][j] + 0.125 * prob['rows'][0]['z'] + prob['eps'][0][0][j] / (prob['scale'] or 1.0)
                lam_of[k] = [m0 + 0.05, m0 + 1.0]
            else:
                lam_of[k] = [0.05, 1.0]
        # (1) uses at the starting values
        if used_before in ('pieces', 'all'):
            numeric_pieces(model, labels, row_objs[0], eps[0][0], xs, lam_of)
        if used_before in ('validation', 'all'):
            safe(model.validation, row_objs[0])
        if used_before in ('table', 'same_row', 'all'):
            safe(model.forecast, db, prob['budget'], eps, False, 1e-13, 1e-13)
        if used_before in ('same_row', 'all'):
            for r, ro in enumerate(row_objs):
                safe(model.forecast_bisection_one_draw, ro, prob['budget'], eps[r][0].copy())
            safe(model.validation, row_objs[0])
        # (2) the change
        before = lean_params(prob, model)
        _, serr = safe(setattr, model, 'estimation_results', Estimated(truth))
        if serr is not None:
            res.violate(f'setting estimation_results raises: {serr}', sub, serr, 'parameters updated', where='Mdcev.estimation_results')
            return
        after = lean_params(prob, model)
        req = {'op': 'update', 'variant': prob['variant'], 'scale': None, 'betas': [[k, f2b(v)] for k, v in truth.items()], **before}

        def cb(ans, sub=sub, after=after):
            got = [[(n, b2f(b)) for n, b in e] for e in ans['exprs']]
            want = forecast_exprs_of(after)
            if got != want:
                res.diverge('_update_parameters_in_expressions vs Mdcev.updateModel (expressions read by a forecast)', sub, got, want, where='')

        ctx.batch.add(req, cb)
        # (3) oracle 1: every parameter of every expression a forecast reads carries the estimated value
        for e in forecast_exprs_of(after):
            for name, val in e:
                if name in truth and val != truth[name]:
                    res.violate(f'after estimation the parameter {name} of an expression of the model still has the value {val}', sub, val, truth[name],
                                where='Mdcev._update_parameters_in_expressions')
        # oracle 2: the numeric pieces are the closed forms at the NEW values - against a model built with the values
        # (old row object and a new one) and against the Lean model evaluated on the new values
        new_row = Database('row_0', pd.DataFrame([prob['rows'][0]]))
        want_p = numeric_pieces(fresh, labels, Database('row_0', pd.DataFrame([prob['rows'][0]])), eps[0][0], xs, lam_of)
        order = list(model.index_to_key)
        alts = {a['label']: a for a in lean_alts(prob, labels, order, 0, prob['eps'][0][0])}
        for which, row in (('a row object used before the change', row_objs[0]), ('a new row object', new_row)):
            got_p = numeric_pieces(model, labels, row, eps[0][0], xs, lam_of)
            for k in labels:
                for name, g, w in zip(('utility_one_alternative', 'derivative_utility_one_alternative', 'optimal_consumption_one_alternative'), got_p[k], want_p[k]):
                    if any(not close(u, v, 1e-10, 1e-12) for u, v in zip(g, w)):
                        res.violate(f'after the change of the parameters {name} ({which}) is not the function of the new values',
                                    {**sub, 'alt': k}, g, w, where=f'Mdcev.{name} (after estimation)')
            if which.startswith('a new') and prob.get('regime') != 'low_marginal':
                for k in labels:
                    rq = {'op': 'pieces', 'variant': prob['variant'], 'scale': jscale(prob), 'alt': alts[k], 'xs': [f2b(x) for x in xs], 'lams': [f2b(l) for l in lam_of[k]]}

                    def cbp(ans, k=k, real=got_p[k]):
                        for name, rv in zip(('U', 'dU', 'inv'), real):
                            m = [b2f(b) for b in ans[name]]
                            if any(not close(u, v, 1e-9, 1e-11) for u, v in zip(m, rv)):
                                res.diverge(f'{name} after the change of the parameters: Lean model at the new values vs code', {**sub, 'alt': k}, m, rv, where='')

                    ctx.batch.add(rq, cbp)
        # oracle 3: forecasts = forecasts of a model built with the estimated values
        out, e1 = safe(model.forecast, db, prob['budget'], eps, False, 1e-13, 1e-13)
        ref, e2 = safe(fresh.forecast, Database('reference', pd.DataFrame(prob['rows'])), prob['budget'], eps, False, 1e-13, 1e-13)
        if (out is None) != (ref is None):
            res.violate(f'forecast after estimation: {e1}; model built with the estimated values: {e2}', sub, e1, e2, where=WE('Mdcev.forecast (after estimation)'))
            return
        if out is None:
            return
        for r, (df, dfr) in enumerate(zip(out, ref)):
            a = {k: [float(v) for v in df[k]] for k in sorted(labels)}
            b = {k: [float(v) for v in dfr[k]] for k in sorted(labels)}
            if any(not close(u, v, 1e-9, 1e-12) for k in a for u, v in zip(a[k], b[k])):
                res.violate('forecast after estimation differs from the forecast of a model built with the estimated values', {**sub, 'row': r}, a, b,
                            where=WE('Mdcev.forecast (after estimation)'))
            # oracle 4: KKT with the marginal utilities of the symbolic utility of a model built with the values
            row = Database(f'row_{r}', pd.DataFrame([prob['rows'][r]]))
            x_by_label = {k: float(df[k].iloc[0]) for k in labels}
            why, oerr = safe(oracle_symbolic, fresh, row, prob, labels, eps[r][0], x_by_label)
            if oerr is None and why:
                res.violate(f'forecast after estimation: {why}', {**sub, 'row': r}, x_by_label, 'KKT point (symbolic marginal utilities)', where=WE('Mdcev.forecast (after estimation)'))
        val, verr = validation_of(model, Database('row_0', pd.DataFrame([prob['rows'][0]])), prob)
        if val is None or val:
            res.violate(f'Mdcev.validation after estimation: {val if val is not None else verr}', sub, val if val is not None else verr, [],
                        where='Mdcev.validation (after estimation)')
        if used_before in ('same_row', 'all', 'validation', 'pieces'):
            # the row objects seen BEFORE the change: same forecasts as a model built with the estimated values
            for r, ro in enumerate(row_objs):
                one, oerr = safe(model.forecast_bisection_one_draw, ro, prob['budget'], eps[r][0].copy())
                want, werr = safe(fresh.forecast_bisection_one_draw, Database(f'row_{r}', pd.DataFrame([prob['rows'][r]])), prob['budget'], eps[r][0].copy())
                if (one is None) != (want is None) or (one is not None and any(not close(float(one[k]), float(want[k]), 1e-9, 1e-12) for k in labels)):
                    res.violate('forecast of a row object already used before the estimation differs from the forecast of a model built with the estimated values',
                                {**sub, 'row': r}, oerr if one is None else {int(k): float(v) for k, v in one.items()},
                                werr if want is None else {int(k): float(v) for k, v in want.items()}, where=F_C18_4_WHERE)
            val, verr = validation_of(model, row_objs[0], prob)
            if val is None or val:
                res.violate(f'Mdcev.validation on a row object already used before the estimation: {(val if val is not None else verr)!s:.300}', sub,
                            val if val is not None else verr, [], where=F_C18_4_WHERE)


def estimate_history(payload):
    """(fresh interpreter) the same history with the parameters changed by estimate_parameters on the object: use at
    the starting values, estimate on a small synthetic sample, use again; returns the numeric pieces / forecast of
    the object after the estimation and those of a model BUILT with the estimated values"""
    import random

    import pandas as pd
    from biogeme.database import Database
    from biogeme.expressions import Variable

    prob, labels = payload['problem'], payload['labels']
    truth = true_betas(prob)
    start = {k: other_value(k, v) for k, v in truth.items()}
    rng = random.Random(payload['seed'])
    n = prob['n']
    xs = [0.5, 2.75]
    lam_of = {k: [3.0, 6.0] for k in labels}
    with core.scratch():
        model = build_estimated(prob, labels, start)
        rows = []
        for _ in range(40):
            q = [rng.choice([0.0, 0.25 + rng.random() * 5]) for _ in range(n)]
            q[prob['outside'] if prob['outside'] is not None else 0] = 0.5 + rng.random() * 5
            rows.append({'x': rng.randint(-8, 8) / 8, 'z': rng.randint(0, 8) / 4, **{f'q{j}': q[j] for j in range(n)}, 'nch': float(sum(1 for v in q if v > 0))})
        row = Database('row_0', pd.DataFrame([prob['rows'][0]]))
        e = eps_vector(model, labels, prob['eps'][0][0])
        numeric_pieces(model, labels, row, e, xs, lam_of)
        safe(model.validation, row)
        safe(model.forecast_bisection_one_draw, row, prob['budget'], e.copy())
        r, err = safe(model.estimate_parameters, Database('sample', pd.DataFrame(rows)), Variable('nch'), {labels[j]: Variable(f'q{j}') for j in range(n)})
        if r is None:
            return {'skipped': f'estimation failed: {err}'[:300]}
        est = {k: float(v) for k, v in r.get_beta_values().items()}
        if not all(math.isfinite(v) for v in est.values()):
            return {'skipped': 'estimates are not finite'}
        moved = max(abs(est[k] - start[k]) for k in est)
        fresh = build_estimated(prob, labels, {**start, **est})
        out = {'estimates': est, 'moved': moved}
        for name, m, ro in (('object', model, row), ('built', fresh, Database('row_0', pd.DataFrame([prob['rows'][0]])))):
            fc, ferr = safe(m.forecast_bisection_one_draw, ro, prob['budget'], e.copy())
            out[name] = {'pieces': {str(k): v for k, v in numeric_pieces(m, labels, ro, e, xs, lam_of).items()},
                         'forecast': ferr if fc is None else {str(k): float(v) for k, v in fc.items()},
                         'validation': [str(x) for x in (safe(m.validation, ro)[0] or [])]}
        return out


def check_estimate_route(res, prob, labels, seed):
    sub = {'problem': prob, 'labels': labels, 'estimate_route': True, 'seed': seed}
    out = core.run_isolated('props.c18', 'estimate_history', {'problem': prob, 'labels': labels, 'seed': seed}, timeout=300)
    res.count({'estimate_parameters': prob['variant'], 'labels': labels}, nontrivial=True)
    if '__error__' in out or 'skipped' in out:
        res.tally('estimate_route:skipped')
        res.notes.append(f'estimate_parameters route ({prob["variant"]}) not usable: {str(out)[:200]}')
        return
    res.tally(f'estimate_route:{prob["variant"]}')
    a, b = out['object'], out['built']
    bad = [k for k in a['pieces'] for u, v in zip(sum(a['pieces'][k], []), sum(b['pieces'][k], [])) if not close(u, v, 1e-9, 1e-11)]
    if bad:
        res.violate('after estimate_parameters the numeric pieces of the object are not those of a model built with the estimated values',
                    sub, {k: a['pieces'][k] for k in sorted(set(bad))}, {k: b['pieces'][k] for k in sorted(set(bad))}, where='Mdcev.estimate_parameters (numeric pieces after)')
    fa, fb = a['forecast'], b['forecast']
    if isinstance(fa, dict) != isinstance(fb, dict) or (isinstance(fa, dict) and any(not close(fa[k], fb[k], 1e-8, 1e-10) for k in fa)):
        res.violate('after estimate_parameters the forecast of the object differs from the forecast of a model built with the estimated values', sub, fa, fb,
                    where='Mdcev.estimate_parameters (forecast after)')
    va = [m for m in a['validation'] if not m.startswith('Inconsistent dual variables')]
    vb = [m for m in b['validation'] if not m.startswith('Inconsistent dual variables')]
    if va and not vb:
        res.violate(f'after estimate_parameters Mdcev.validation reports: {va[:3]}', sub, va, [], where='Mdcev.estimate_parameters (validation after)')


def lean_params(prob, model):
    """the expressions of a real model object as parameter slots (request fields of the driver op `update`)"""
    J = lambda e: [[n, f2b(v)] for n, v in param_slots(e)]
    order = list(model.index_to_key)
    out = {
        'baseline': [[k, J(model.baseline_utilities[k])] for k in order],
        'gamma': [[k, None if model.gamma_parameters[k] is None else J(model.gamma_parameters[k])] for k in order],
        'alpha': None if not model.alpha_parameters else [[k, J(model.alpha_parameters[k])] for k in order],
        'scale_expr': None if model.scale_parameter is None else J(model.scale_parameter),
        'weights': None if model.weights is None else J(model.weights),
        'mu': [[k, J(model.mu_utilities[k])] for k in order] if hasattr(model, 'mu_utilities') else [],
        'prices': None if getattr(model, 'prices', None) is None else [[k, J(model.prices[k])] for k in order],
    }
    return out


def forecast_exprs_of(params):
    """the same list as Mdcev.forecastExprs, read from the real object's slots"""
    D = lambda e: [(n, b2f(b)) for n, b in e]
    out = [D(e) for _, e in params['baseline']]
    out += [D(e) for _, e in params['gamma'] if e is not None]
    out += [] if params['alpha'] is None else [D(e) for _, e in params['alpha']]
    out += [] if params['scale_expr'] is None else [D(params['scale_expr'])]
    out += [D(e) for _, e in params['mu']]
    out += [] if params['prices'] is None else [D(e) for _, e in params['prices']]
    return out


# ----------------------------------------------------------------------------- corpus / check / search / replay

# input of known finding F-C18-1 (kept identical to known_findings.d/C18.json)
KNOWN_F_C18_1 = {
    'variant': 'gamma_profile', 'n': 3, 'outside': 1, 'psi_c': [-3.0, 0.5, 0.2], 'psi_b': [0.25, 0.25, 0.25], 'gamma': [1.0, 1.5, 2.0],
    'alpha': [0.5, 0.5, 0.5], 'prices': None, 'mu_c': [0.0, 0.0, 0.0], 'scale': None, 'rows': [{'x': 1.0, 'z': 0.0}], 'budget': 2.0,
    'eps': [[[0.3, -0.2, 0.1]]],
}
KNOWN_F_C18_1_LABELS = {'seq': [1, 2, 3], 'other': [11, 12, 13]}

KNOWN_F_C18_2 = {
    'variant': 'gamma_profile', 'n': 2, 'outside': None, 'psi_c': [0.5, -0.25], 'psi_b': [0.25, 0.0], 'gamma': [1.0, 2.0], 'alpha': [0.5, 0.5],
    'prices': None, 'mu_c': [0.0, 0.0], 'scale': None, 'rows': [{'x': 1.0, 'z': 0.0}], 'budget': 10.0, 'eps': [[[0.3, 1.2]]],
}
KNOWN_F_C18_2_LABELS = {'seq': [1, 2], 'sparse': [4, 18]}

# input of known finding F-C18-3: the solution is the first midpoint (all quantities dyadic), the total there is 9e-15
# from the budget: the loop stops on the budget criterion after it has moved the upper bound
KNOWN_F_C18_3 = {
    'variant': 'non_monotonic', 'n': 3, 'outside': None, 'psi_c': [-1.0, -2.0, -1.5], 'psi_b': [0.0, 0.125, -0.125], 'gamma': [1.0, 2.0, 0.5],
    'alpha': [0.5, 0.3, 0.6], 'prices': None, 'mu_c': [-4.0, -5.0, -4.5], 'scale': 2.0, 'rows': [{'x': 0.5, 'z': 1.0}], 'budget': 3.0,
    'eps': [[[0.25, 1.5, -0.5]]], 'regime': 'low_marginal',
}
KNOWN_F_C18_3_LABELS = {'seq': [1, 2, 3], 'sparse': [16, 0, 9]}

CORPUS = [
    # translated, outside good, sparse labels {7, 3, 12}
    ({'variant': 'translated', 'n': 3, 'outside': 0, 'psi_c': [0.5, -0.25, 0.125], 'psi_b': [0.25, 0.0, -0.125], 'gamma': [1.0, 2.0, 0.5], 'alpha': [0.5, 0.25, 0.75],
      'prices': None, 'mu_c': [0.0, 0.0, 0.0], 'scale': 2.0, 'rows': [{'x': 1.0, 'z': 0.5}], 'budget': 10.0, 'eps': [[[0.3, -0.2, 1.1]]]},
     {'seq': [1, 2, 3], 'sparse': [7, 3, 12]}),
    # non monotonic without outside good, small budget
    ({'variant': 'non_monotonic', 'n': 4, 'outside': None, 'psi_c': [0.5, -0.5, 0.0, 1.0], 'psi_b': [0.0, 0.25, -0.25, 0.125], 'gamma': [1.0, 2.0, 0.5, 4.0],
      'alpha': [0.5, 0.3, 0.6, 0.25], 'prices': None, 'mu_c': [-0.5, -0.25, 0.0, -1.0], 'scale': None, 'rows': [{'x': -0.5, 'z': 1.0}], 'budget': 1.0,
      'eps': [[[0.1, 2.0, -0.7, 0.4]]]},
     {'seq': [1, 2, 3, 4], 'sparse': [9, 33, 2, 16]}),
    # non monotonic without outside good, the marginal utility at zero of EVERY good is negative (negative
    # multiplier): the budget still has to be spent
    ({'variant': 'non_monotonic', 'n': 3, 'outside': None, 'psi_c': [-1.0, -2.0, -1.5], 'psi_b': [0.0, 0.125, -0.125], 'gamma': [1.0, 2.0, 0.5],
      'alpha': [0.45, 0.3, 0.6], 'prices': None, 'mu_c': [-4.0, -5.0, -4.5], 'scale': 2.0, 'rows': [{'x': 0.5, 'z': 1.0}], 'budget': 2.7,
      'eps': [[[0.25, 1.5, -0.5]]], 'regime': 'low_marginal'},
     {'seq': [1, 2, 3], 'sparse': [16, 0, 9]}),
    # generalized with prices, large budget: the full choice set is chosen
    ({'variant': 'generalized', 'n': 3, 'outside': 1, 'psi_c': [0.5, 0.0, -0.5], 'psi_b': [0.125, 0.0, 0.25], 'gamma': [1.0, 1.0, 2.0],
      'alpha': [0.5, 0.25, 0.75], 'prices': [1.25, 2.0, 0.5], 'mu_c': [0.0, 0.0, 0.0], 'scale': None, 'rows': [{'x': 1.0, 'z': 0.0}], 'budget': 4096.0,
      'eps': [[[0.5, -0.25, 1.0]]], 'regime': 'large_budget'},
     {'seq': [1, 2, 3], 'sparse': [24, 8, 3]}),
]


def check_constructor(res, rng, fault=None, labels=None, batch=None):
    """the constructor refuses inconsistent dictionaries (labels of gamma / alpha differ from the
    baseline utilities, several outside goods)"""
    from biogeme.expressions import Beta
    from biogeme.mdcev import GammaProfile, Translated

    if labels is None:
        labels = rng.sample(range(0, 30), rng.randint(2, 5))
        fault = rng.choice(['none', 'gamma_missing', 'gamma_extra', 'alpha_missing', 'two_outside', 'one_outside', 'one_outside'])
        if fault == 'one_outside' and 0 not in labels and rng.random() < 0.5:
            labels[-1] = 0  # the outside good carries the label 0 (a falsy key)
    base = {k: Beta(f'c{k}', 0.0, None, None, 0) for k in labels}
    gam = {k: Beta(f'g{k}', 1.0, None, None, 0) for k in labels}
    alp = {k: Beta(f'a{k}', 0.5, None, None, 0) for k in labels}
    if fault == 'gamma_missing':
        del gam[labels[0]]
    elif fault == 'gamma_extra':
        gam[99] = Beta('g99', 1.0, None, None, 0)
    elif fault == 'alpha_missing':
        del alp[labels[-1]]
    elif fault == 'two_outside':
        gam[labels[0]] = None
        gam[labels[1]] = None
    elif fault == 'one_outside':
        gam[labels[-1]] = None
    got, err = safe(Translated, 'm', base, gam, alp)
    outcome = 'ok' if got is not None else err.split(':')[0]
    res.count({'constructor': fault, 'labels': labels}, nontrivial=fault not in ('none', 'one_outside'))
    res.tally(f'constructor:{fault}')
    want = 'ok' if fault in ('none', 'one_outside') else 'BiogemeError'
    if outcome != want:
        res.violate(f'Mdcev constructor: inconsistent dictionaries ({fault}) are not handled as documented',
                    {'constructor': fault, 'labels': labels}, outcome, want, where='Mdcev.__init__')
    if got is not None:
        # the report on the outside good must say what the dictionaries say
        rep, rerr = safe(got.info_gamma_parameters)
        n_none = sum(1 for v in gam.values() if v is None)
        want_rep = {0: 'No outside good', 1: 'One outside good'}.get(n_none, 'Several outside goods')
        res.tally('info_gamma_parameters')
        if rep is None or not str(rep).startswith(want_rep) or (got.outside_good_key is None) != (n_none == 0):
            res.violate('info_gamma_parameters / outside_good_key do not report the outside good of the dictionaries',
                        {'constructor': fault, 'labels': labels}, {'report': rep if rep is not None else rerr, 'outside_good_key': got.outside_good_key},
                        {'report': want_rep, 'outside good': n_none}, where='Mdcev.info_gamma_parameters')
        if batch is not None:
            batch.add({'op': 'gamma_report', 'variant': 'translated', 'scale': None, 'gammas': [None if v is None else f2b(1.0) for v in gam.values()]},
                      lambda ans, rep=rep, n_none=n_none: None if ans['report'] == min(n_none, 2) and str(rep).startswith(
                          {0: 'No outside good', 1: 'One outside good', 2: 'Several outside goods'}[ans['report']])
                      else res.diverge('info_gamma_parameters vs Mdcev.gammaReport', {'constructor': fault, 'labels': labels}, ans['report'], str(rep), where=''))


def main_labelings(rng, prob):
    """labelings of the main stream: the shape of F-C18-1 is excluded by construction"""
    labs = labelings(rng, prob['n'], prob['outside'])
    out = {}
    for name, labels in labs.items():
        og = None if prob['outside'] is None else labels[prob['outside']]
        if f_c18_1_shape(prob['variant'], labels, og):
            continue
        out[name] = labels
    return out


def check(ctx) -> Result:
    res = Result(rule=RULE, tolerance='budget 1e-8 (relative to max(1,B)); marginal utilities 1e-6 relative; objective vs brute force 1e-6 relative + multiplier x '
                 'brute-force budget violation; model vs code: pieces 1e-10, forecasts 1e-7, bounds 1e-9; relabelling 1e-7')
    rng = ctx.rng
    ctx.sym_store = []
    for prob, labs in CORPUS:
        check_problem(ctx, res, prob, labs)
        check_scenarios(ctx, res, prob, labs['sparse'], 'sparse')
        check_estimated(ctx, res, prob, labs['sparse'], 'sparse', used_before=False)
        res.tally('corpus')
    check_estimated(ctx, res, CORPUS[0][0], CORPUS[0][1]['sparse'], 'sparse', used_before='same_row')
    for v_i, v in enumerate(VARIANTS):
        # one history per variant and per way of using the object before the change, on a fixed problem
        hp = {**CORPUS[3][0], 'variant': v, 'budget': 10.0, 'regime': 'normal', 'prices': CORPUS[3][0]['prices'] if v in ('gamma_profile', 'generalized') else None,
              'mu_c': [-0.5, -0.25, 0.0], 'scale': 2.0}
        for mode in ('pieces', 'validation', 'table'):
            check_estimated(ctx, res, hp, CORPUS[3][1]['sparse'], 'sparse', used_before=mode, groups=['gamma'] if mode == 'pieces' else None)
    # the listed known findings: their own inputs first
    check_problem(ctx, res, KNOWN_F_C18_1, KNOWN_F_C18_1_LABELS, pieces=False)
    check_problem(ctx, res, KNOWN_F_C18_2, KNOWN_F_C18_2_LABELS, pieces=False, comparison=True)
    check_problem(ctx, res, KNOWN_F_C18_3, KNOWN_F_C18_3_LABELS, pieces=False)
    for _ in range(ctx.n(4, 40)):
        prob = gen_problem(rng, variant='gamma_profile')
        if prob['outside'] is None:
            prob['outside'] = rng.randrange(prob['n'])
        labs = labelings(rng, prob['n'], prob['outside'])
        check_problem(ctx, res, prob, labs, brute=False, pieces=False)
        res.tally('known_shape_stream')
    n_cmp = ctx.n(12, 100)
    est_count = {}
    for i in range(ctx.n(105, 1100)):
        prob = gen_problem(rng, variant=VARIANTS[i % 4])
        labs = main_labelings(rng, prob)
        res.tally(f'regime={prob["regime"]}')
        check_problem(ctx, res, prob, labs, brute=(i % 2 == 0), pieces=(i % 3 == 0), comparison=(i < n_cmp))
        if i % (5 if ctx.quick else 3) == 1 and labs:
            ln = sorted(labs)[i % len(labs)]
            check_scenarios(ctx, res, prob, labs[ln], ln)
        if i % (5 if ctx.quick else 3) == 2 and labs:
            # (5 and 3 are coprime to the 4 variants: every variant meets every way of using the object before)
            n_est = est_count.get(prob['variant'], 0)
            est_count[prob['variant']] = n_est + 1
            ln = sorted(labs)[(i // 2) % len(labs)]
            present = sorted({group_of(nm) for nm in true_betas(prob)})
            groups = None if n_est % 2 == 0 else [present[(i // 5) % len(present)]]
            check_estimated(ctx, res, prob, labs[ln], ln, used_before=BEFORE_MODES[1:][n_est % (len(BEFORE_MODES) - 1)], groups=groups)
        if sum(1 for v in res.violations if v.get('where') not in (F_C18_1_WHERE, F_C18_2_WHERE, F_C18_3_WHERE, F_C18_4_WHERE)) > 5:
            break
    for v_i, v in enumerate(VARIANTS):
        hp = {**CORPUS[3][0], 'variant': v, 'budget': 10.0, 'regime': 'normal', 'prices': CORPUS[3][0]['prices'] if v in ('gamma_profile', 'generalized') else None,
              'mu_c': [-0.5, -0.25, 0.0], 'scale': None}
        check_estimate_route(res, hp, CORPUS[3][1]['sparse'], ctx.seed * 4 + v_i)
    for _ in range(ctx.n(30, 300)):
        check_constructor(res, rng, batch=ctx.batch)
    ctx.batch.flush()
    finish_symbolic(res, ctx.sym_store)
    return res


class _NoBatch:
    def add(self, *a, **k):
        pass

    def add_many(self, *a, **k):
        pass


class _Shim:
    def __init__(self, rng):
        self.rng = rng
        self.batch = _NoBatch()


def search(ctx, res, broken):
    """something broke without a concrete failing input: the property oracle alone, widened stream"""
    rng = core.rng_for('C18-search', ctx.seed)
    shim = _Shim(rng)
    for i in range(200):
        r2 = Result()
        prob = gen_problem(rng, variant=VARIANTS[i % 4])
        try:
            labs = main_labelings(rng, prob)
            check_problem(shim, r2, prob, labs, brute=True, pieces=True)
            if labs:
                ln = sorted(labs)[0]
                check_scenarios(shim, r2, prob, labs[ln], ln)
                check_estimated(shim, r2, prob, labs[ln], ln, used_before=BEFORE_MODES[i % len(BEFORE_MODES)])
        except Exception as e:  # noqa: BLE001
            res.notes.append(f'search: {type(e).__name__}: {e}')
            continue
        if r2.violations:
            res.violations.extend(r2.violations[:1])
            return


def replay(ctx, obj):
    sub = obj.get('case') or {}
    out = {'replayed': obj.get('what')}
    if 'constructor' in sub:
        r = Result()
        check_constructor(r, None, sub['constructor'], sub['labels'])
        out.update({'property_fails': bool(r.violations), 'violations': [{'what': v['what'], 'observed': v['observed'], 'expected': v['expected']} for v in r.violations[:3]]})
        return out
    if 'problem' not in sub:
        out.update({'property_fails': False, 'note': 'nothing to replay (no concrete input in this file)'})
        return out
    prob = sub['problem']
    labs = {sub.get('labeling', 'given'): sub['labels']}
    if 'other_labels' in sub:
        labs = {'other': sub['other_labels'], **labs}
    r = Result()
    shim = _Shim(core.rng_for('C18-replay', 0))
    if sub.get('estimate_route'):
        check_estimate_route(r, prob, sub['labels'], sub.get('seed', 0))
        out.update({'property_fails': bool(r.violations), 'violations': [{'what': v['what'], 'observed': v['observed'], 'expected': v['expected']} for v in r.violations[:3]]})
        return out
    if sub.get('estimated'):
        check_estimated(shim, r, prob, sub['labels'], sub.get('labeling', 'given'), used_before=sub.get('used_before'), groups=sub.get('groups'))
        out.update({'property_fails': bool(r.violations), 'violations': [{'what': v['what'], 'observed': v['observed'], 'expected': v['expected']} for v in r.violations[:3]]})
        return out
    if sub.get('validate_forecast'):
        check_problem(shim, r, prob, labs, brute=False, pieces=False, comparison=True)
        out.update({'property_fails': bool(r.violations), 'violations': [{'what': v['what'], 'observed': v['observed'], 'expected': v['expected']} for v in r.violations[:3]]})
        return out
    if sub.get('scenario'):
        check_scenarios(shim, r, prob, sub['labels'], sub.get('labeling', 'given'))
        out.update({'property_fails': bool(r.violations), 'violations': [{'what': v['what'], 'observed': v['observed'], 'expected': v['expected']} for v in r.violations[:3]]})
        return out
    check_problem(shim, r, prob, labs, brute=True, pieces=bool(sub.get('pieces')), comparison='forecast_comparison_one_draw' in str(obj.get('what')))
    out.update({'property_fails': bool(r.violations), 'violations': [{'what': v['what'], 'observed': v['observed'], 'expected': v['expected']} for v in r.violations[:3]]})
    return out
