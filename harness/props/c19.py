"""C19 — sampled choice sets follow the protocol; full sampling equals the full model.

Tie: correspondence + relations on real runs.  Abstract cases (table of alternatives with
arbitrary ids, partition, sample sizes, optional second partition, individuals, combined
variables, utility) are turned into real `Partition` / `SamplingContext` /
`SamplingOfAlternatives` / `ChoiceSetsGeneration` / `GenerateModel` objects.  Randomness stays
with pandas (numpy's global generator seeded from the run's PRNG).  On every real sample

* the property oracle (written from the statement) is applied: chosen first, no duplicate, exact
  count per stratum, membership, ln(k/n), weights n/k, own attributes, combined variables;
* the Lean driver evaluates the relation of the theorems (`protocolB`) on the real rows, checks
  the contract assumed of `DataFrame.sample` (`picksOK`) and recomputes the deterministic part
  (`sampleAlternatives`, `flattenRow`, `defineVars`, `sampledLL`, `fullLL`), which must agree;
* with complete sampling the likelihood of `GenerateModel.get_logit()` (real engine) must equal
  the likelihood of `models.loglogit` on the full choice set built by the harness (real engine);
  the same for `get_nested_logit` vs `models.lognested` (several nest configurations per merged
  database: labels distinct / absent / repeated / equal to an automatic one, shared or numeric
  nest parameters, old tuple syntax; the Lean model `nestedSampledLL` is compared with the engine
  on complete and partial samples) and for `get_cross_nested_logit` vs `models.logcnl`;
* round 3: both input frames carry row labels that are not row positions (permuted, gapped, repeated, strings,
  floats); the database comes from the first call, a second call on the same object or the recycled file; the whole
  merged table is recomputed by the Lean model of the labelled frames (`sampleAndMerge`); the cross-nested model has a
  Lean model (`cnlSampledLL`, `fullCnlLL`); the real signature texts of the three likelihoods are run by the proved engine
  model (lib/leanrun); `generate_segment_size` is modelled;
* `Partition` is compared with the model and the oracle (non-empty, pairwise disjoint, union =
  full set) on random lists of 1-6 segments with the fault at any position and on every list of
  at most 3 (thorough: 4) segments over three ids.
"""

from __future__ import annotations

import math
import os

os.environ.setdefault('TQDM_DISABLE', '1')

import numpy as np

from lib import core, leanrun
from lib.core import Result, f2b, b2f, close

READY = True
EXTRA_MODULES = list(leanrun.MODULES)
MANIFEST = dict(
    text='Proof (Lean 4): for every partition, choice and outcome of the random draws (contract: n distinct rows of the frame sampled) '
    'sample_alternatives lists the chosen alternative first, has no duplicate, exactly k rows per stratum, each row in its stratum with the term '
    'log k - log n = ln(k/n) (C19.protocol_facts, correction_is_log_ratio), second sample with weights n/k (mev_facts); check_partition and Partition '
    'accept exactly the valid inputs (context_validation, partition_validity: every pair of segments, neighbours or not); generate_segment_size returns one size per segment, '
    'summing to the requested total, equal up to one (segment_sizes_cover, segment_sizes_refusals); generated column names never collide and combined variable / utility i read '
    'the attributes of sampled alternative i (column_names_injective, combined_own_attributes, utility_reads_index_i); '
    'ROW LABELS are a parameter of the model of the frames: the drawn rows are rows of the table of alternatives found by id whatever its index (sampled_rows_own_attributes), the returned sample frame is '
    'labelled by position (sample_frame_labels_are_positions; kept_labels_collide shows why), and for every index of the individuals (permuted, gapped, repeated, non-integer) row p of the merged table is '
    'individual p followed by the samples drawn by call p, with the chosen alternative in <id>_0 (merged_table_by_position, merged_row_own_sample, merge_ignores_labels, merged_row_lists_choice_first); '
    'with complete sampling every protocol-conforming result is a permutation of the choice set, all corrections are 0 and the sampled logit log likelihood equals the full one over R '
    '(full_sample_perm, full_sample_corrections_zero, full_sample_equiv, full_sample_equiv_code); in the generated nested logit every nest reads its own MEV sum from the dictionary keyed by its '
    'alternatives, whatever the labels (nest_sum_lookup), and with complete sampling of both samples its log likelihood equals the nested logit on the full choice set over R '
    '(nested_full_sample_equiv, nested_full_sample_equiv_code); the generated CROSS-NESTED logit is now modelled (alphas as columns named after the nest, MEV sums in a dictionary keyed by the name, logzero / conditional sums): '
    'with distinct names every nest reads its own sum (cnl_sum_lookup; cnl_same_name_reads_other_sum is the witness of known finding F-C19-3) and with complete sampling of both samples its log likelihood equals '
    'models.logcnl on the full choice set over R (cnl_full_sample_equiv, cnl_full_sample_equiv_code). '
    'Tie: the relation and the deterministic model are evaluated by the Lean driver on every real sample (many seeds); the whole merged table of every case is recomputed by Sampling.sampleAndMerge from the labelled individuals and '
    'the frames really returned by the samplings and compared by position; input frames carry 11 kinds of index (individuals and alternatives), the database is taken from the first call, a second call on the same object, or read back with recycle=True; '
    'Partition against the model on random lists of 1-6 segments with faults at any position and bounded-exhaustively (all lists of <= 3/4 segments over 3 ids); generate_segment_size against model and oracle; '
    'real-engine likelihood of get_logit / get_nested_logit / get_cross_nested_logit vs loglogit / lognested / logcnl on the full choice set (complete sampling) and vs the Lean models sampledLL / nestedSampledLL / cnlSampledLL on complete and partial samples '
    '(nest labels distinct, absent, repeated, equal to an automatic one; shared or numeric nest parameters; old tuple syntax); the REAL signature text of these likelihoods is run by the proved engine model (lib/leanrun, C01.engine_reads_text / engine_correct) '
    'and must agree with the semantic Lean model and with the real engine; every one of these comparisons also at parameter values different from the initial ones (tallied).',
    design='DESIGN.md §5 C19',
    technique='Lean 4 theorems over an executable model of the sampling protocol and of the labelled frames + relation evaluated on real samples + differential correspondence through the real engine and through the proved engine model',
    note='Partial: pandas DataFrame.sample is treated relationally (its contract is monitored on every real sample); DataFrame.apply(axis=1) / stack / concat(ignore_index) are modelled, not proved about pandas (tied on every case, labels included); '
    'the labels of the rows of the RETURNED database are not part of the property and are not compared; SamplingContext.reporting (a text summary) is outside the property; '
    'IEEE rounding of log/exp/pow is not modelled (tolerances stated); a nest of a sampled alternative without any row in a partial second sample (log 0 / 0 ** x) is skipped. No known finding is left: F-C19-1 (a shared Variable object renamed twice when '
    'columns X and X_<i> exist) is fixed in /repo by 883442d (C19.shared_object_renamed_twice documents the old shape only; shared objects with such names are ordinary inputs of the stream) and F-C19-3 (cross-nested nests carrying the same name) by 65e2af6 (the context refuses them, as modelled). '
    'All likelihoods are evaluated at the initial values of the parameters AND away from them (betas= of get_value_c: utility coefficients, nest parameters, e.g. initial 1 evaluated at 1.7); alphas of the cross-nested nests travel as data, so free alpha Betas must be refused by the context (checked), fixed alpha Betas are compared at their value.',
)
TRUSTED = [
    'pandas: DataFrame.sample(n, replace=False) returns n distinct rows of the frame (monitored: picksOK on every real sample); apply(axis=1) / stack / concat / boolean-mask primitives behave as modelled (compared on every case, with non-default indexes)',
    'the C++ engine evaluates the generated expressions (compared with the Lean Float models at 1e-9, and with the proved engine model run on the real signature text)',
    'numpy log vs Lean Float.log agree to 1e-12 relative; pandas read_csv float parser within 1e-12 (recycle=True)',
]
ASSUMPTIONS = [
    'segments are Python sets (duplicate free); sample sizes are non-negative integers (a negative size passes check_partition and fails later inside pandas)',
    'column names of the individuals do not shadow generated names <attribute>_<i> (hypothesis htail of combined_own_attributes); the id column is not called _MEV_...',
    'cross-nested nests: distinct names (enforced by the proposed repair F-C19-3), non-zero alphas in dict_of_alpha, non-zero nest parameters (ValidCnl)',
]
RULE = (
    'one evaluation = one real sample (sample_alternatives / sample_mev_alternatives / one merged row / one likelihood row of a nest configuration) or one validation call '
    '(context, Partition, generate_segment_size); non-trivial = sample of >= 3 rows from >= 2 strata or with a partially sampled stratum, a refused input, or a size request with a remainder'
)

LOG_PROBA = '_log_proba'
MEV_WEIGHT = '_mev_weight'
MEV_PREFIX = '_MEV_'

ATTR_POOL = ['cost', 'dist', 'a', 'a_0', 'b10', 'b2', 'x_1', 'time', 'Z', 'q_12', 'cost_1']
IND_POOL = ['age', 'inc', 'hh', 'w_3', 'Age', 'k']
COMB_POOL = ['cd', 'mix', 'c_1', 'zz']
ID_NAMES = ['alt_id', 'ID', 'id_1']
CHOICE_NAMES = ['choice', 'CHOSEN', 'ch_0x']


F_C19_1_WHERE = ('Expression.rename_elementary (define_new_variables / generate_utility): a Variable object shared inside a formula '
                 'while the table of alternatives has columns X and X_<i>')


def clash_pairs(cols):
    """pairs (X, X_<digits>) among the attribute names: the second renaming of a shared object hits"""
    out = []
    for c in cols:
        for d in cols:
            if d != c and d.startswith(c + '_') and d[len(c) + 1:].isdigit():
                out.append((c, d))
    return out


def shared_clash(case):
    """shape of known finding F-C19-1"""
    return bool(case.get('share')) and bool(clash_pairs([case['id_col']] + list(case['cols']) + [n for n, _ in case['combined']]))


MATCHERS = {'shared_clash': lambda sub: isinstance(sub, dict) and isinstance(sub.get('case'), dict) and shared_clash(sub['case'])}


# ----------------------------------------------------------------------------- generators


def dy(rng, lo=-32, hi=32, den=8):
    return rng.randint(lo, hi) / den


def gen_formula(rng, leaves, depth, allow_exp=True):
    """random formula over the given variable names (dyadic constants, exact operators mostly)"""
    if depth <= 0 or rng.random() < 0.3:
        if leaves and rng.random() < 0.8:
            return ['v', rng.choice(leaves)]
        return ['c', dy(rng, -8, 8, 4)]
    op = rng.choice(['+', '-', '*', '*', '+', 'neg', 'exp', '/'])
    if op == 'neg':
        return ['neg', gen_formula(rng, leaves, depth - 1, allow_exp)]
    if op == 'exp':
        if not allow_exp:
            return gen_formula(rng, leaves, depth - 1, allow_exp)
        # bounded argument: exp(x / 16)
        return ['exp', ['/', gen_formula(rng, leaves, depth - 1, False), ['c', 16.0]]]
    if op == '/':
        return ['/', gen_formula(rng, leaves, depth - 1, allow_exp), ['c', rng.choice([2.0, 4.0, -8.0, 0.5])]]
    return [op, gen_formula(rng, leaves, depth - 1, allow_exp), gen_formula(rng, leaves, depth - 1, allow_exp)]


def formula_vars(f):
    if f[0] == 'v':
        return [f[1]]
    if f[0] in ('c', 'b'):
        return []
    out = []
    for x in f[1:]:
        out += formula_vars(x)
    return out


INDEX_KINDS = ['perm', 'perm', 'rev', 'gap', 'dup', 'dup_all', 'str', 'neg', 'shift', 'float', 'big_perm']


def gen_index(rng, n, kind):
    """row labels of a frame of n rows that are not the row positions: what ordinary pandas
    manipulations leave behind (sort_values / sample(frac=1): permutation; filter: gaps; concat:
    repeats; set_index: strings, floats)"""
    if kind == 'default' or n == 0:
        return None
    if kind == 'perm':
        lab = list(range(n))
        rng.shuffle(lab)
        if lab == list(range(n)) and n > 1:
            lab = lab[1:] + lab[:1]
        return lab
    if kind == 'rev':
        return list(range(n - 1, -1, -1))
    if kind == 'gap':
        return sorted(rng.sample(range(0, 3 * n + 5), n))
    if kind == 'dup':
        return [rng.randrange(max(1, n - 1)) for _ in range(n)]
    if kind == 'dup_all':
        return [rng.choice([0, 1, 7])] * n
    if kind == 'str':
        lab = [f'r{j}' for j in range(n)]
        rng.shuffle(lab)
        return lab
    if kind == 'neg':
        return [-(j + 1) for j in range(n)]
    if kind == 'shift':
        return list(range(1, n + 1))
    if kind == 'float':
        return [j + 0.5 for j in range(n)]
    if kind == 'big_perm':
        lab = [1000 + 10 * j for j in range(n)]
        rng.shuffle(lab)
        return lab
    raise ValueError(kind)


def index_kind(case, key):
    return (case.get('index_kinds') or {}).get(key, 'default') if case.get(key) is not None else 'default'


def gen_case(rng, complete=None, with_mev=None, size=None):
    n = size or rng.choice([4, 5, 6, 7, 9, 12, 17, 30, rng.randint(4, 30)])
    ids = rng.sample(range(0, 400), n)
    n_attr = rng.randint(1, 3)
    cols = rng.sample(ATTR_POOL, n_attr)
    int_valued = rng.random() < 0.25
    values = [[float(rng.randint(-9, 9)) if int_valued else dy(rng) for _ in cols] for _ in ids]
    id_col = rng.choice(ID_NAMES)
    # partition
    n_strata = min(rng.randint(1, 4), n)
    order = list(ids)
    rng.shuffle(order)
    cuts = sorted(rng.sample(range(1, n), n_strata - 1)) if n_strata > 1 else []
    segments = [sorted(order[a:b]) for a, b in zip([0] + cuts, cuts + [n])]
    if complete is None:
        complete = rng.random() < 0.3
    sizes = [len(s) if complete else rng.randint(1, len(s)) for s in segments]
    mev = None
    if with_mev is None:
        with_mev = rng.random() < 0.3
    if with_mev:
        order2 = list(ids)
        rng.shuffle(order2)
        keep = order2 if rng.random() < 0.6 else order2[: max(2, n - rng.randint(1, 2))]
        m = min(rng.randint(1, 3), len(keep))
        cuts2 = sorted(rng.sample(range(1, len(keep)), m - 1)) if m > 1 else []
        seg2 = [sorted(keep[a:b]) for a, b in zip([0] + cuts2, cuts2 + [len(keep)])]
        sizes2 = [len(s) if complete else rng.randint(1, len(s)) for s in seg2]
        mev = {'segments': seg2, 'sizes': sizes2}
    # individuals
    n_ind = rng.randint(1, 6)
    icols = rng.sample(IND_POOL, rng.randint(1, 2))
    irows = [[dy(rng) for _ in icols] for _ in range(n_ind)]
    choices = [rng.choice(ids) for _ in range(n_ind)]
    choice_col = rng.choice(CHOICE_NAMES)
    # combined variables: own attributes x individual attributes
    combined = []
    names = rng.sample(COMB_POOL, rng.randint(0, 2))
    for nm in names:
        combined.append([nm, gen_formula(rng, cols + icols + cols, 2)])
    # utility: sum of beta * something
    leaves = cols + [c[0] for c in combined] + icols
    terms = []
    for t in range(rng.randint(1, 3)):
        terms.append(['*', ['b', f'B{t}_{rng.choice(["x", "10", "2"])}', dy(rng, -8, 8, 8)], gen_formula(rng, leaves, 1, allow_exp=False)])
    util = terms[0]
    for t in terms[1:]:
        util = ['+', util, t]
    util = ['/', util, ['c', 4.0]]
    # the point at which the likelihoods are evaluated: the initial values, or other values for some / all parameters
    eval_betas = {}
    if rng.random() < 0.65:
        for nm in dict.fromkeys(beta_names(util)):
            if rng.random() < 0.8:
                eval_betas[nm] = rng.choice([dy(rng, -8, 8, 8), 0.0, 1.0, -1.5])
    # keep |V| <= 50 on every (individual, alternative): the Float model computes the unshifted
    # log-sum-exp, which must not overflow (the engine shifts by the maximum)
    vmax = 0.0
    for r, irow in enumerate(irows):
        for vals in values:
            env = {c: irow[j] for j, c in enumerate(icols)}
            env[choice_col] = float(choices[r])
            env.update({c: vals[j] for j, c in enumerate(cols)})
            for nm, f in combined:
                env[nm] = eval_formula(f, env)
            vmax = max(vmax, abs(eval_formula(util, env)), abs(eval_formula(at_betas(util, eval_betas), env)))
    if vmax > 50.0:
        util = ['/', util, ['c', float(2 ** math.ceil(math.log2(vmax / 50.0)))]]
    share = rng.random() < 0.5
    # row labels of the two input frames (None = the default RangeIndex) and the way the merged
    # database is obtained (first call / second call on the same object / read back with recycle=True)
    ik = rng.choice(INDEX_KINDS) if rng.random() < 0.55 else 'default'
    ak = rng.choice(INDEX_KINDS) if rng.random() < 0.4 else 'default'
    call = rng.choice(['first', 'first', 'first', 'second', 'recycle'])
    return {
        'ind_index': gen_index(rng, n_ind, ik), 'alt_index': gen_index(rng, n, ak), 'index_kinds': {'ind_index': ik, 'alt_index': ak},
        'call': call, 'eval_betas': eval_betas,
        'share': share,
        'id_col': id_col, 'ids': ids, 'cols': cols, 'values': values, 'int_valued': int_valued,
        'segments': segments, 'sizes': sizes, 'mev': mev,
        'choice_col': choice_col, 'icols': icols, 'irows': irows, 'choices': choices,
        'combined': combined, 'utility': util, 'np_seed': rng.randrange(2**31),
    }


# ----------------------------------------------------------------------------- adapter (real code)


def build_expr(f, share=None):
    """real biogeme expression from the abstract formula (fresh objects for every occurrence
    unless `share` is a dict used to reuse Variable objects)"""
    from biogeme.expressions import Variable, Beta, Numeric, exp, log

    t = f[0]
    if t == 'c':
        return Numeric(float(f[1]))
    if t == 'b':
        return Beta(f[1], float(f[2]), None, None, 0)
    if t == 'v':
        if share is not None:
            if f[1] not in share:
                share[f[1]] = Variable(f[1])
            return share[f[1]]
        return Variable(f[1])
    if t == 'neg':
        return -build_expr(f[1], share)
    if t == 'exp':
        return exp(build_expr(f[1], share))
    if t == 'log':
        return log(build_expr(f[1], share))
    a, b = build_expr(f[1], share), build_expr(f[2], share)
    return {'+': lambda: a + b, '-': lambda: a - b, '*': lambda: a * b, '/': lambda: a / b}[t]()


def frames(case):
    import pandas as pd

    alt = {case['id_col']: list(case['ids'])}
    for j, c in enumerate(case['cols']):
        col = [r[j] for r in case['values']]
        alt[c] = [int(v) for v in col] if case.get('int_valued') else col
    alternatives = pd.DataFrame(alt)
    if case.get('alt_index') is not None:
        alternatives.index = list(case['alt_index'])
    ind = {case['choice_col']: list(case['choices'])}
    for j, c in enumerate(case['icols']):
        ind[c] = [r[j] for r in case['irows']]
    individuals = pd.DataFrame(ind)
    if case.get('ind_index') is not None:
        individuals.index = list(case['ind_index'])
    return alternatives, individuals


def build_context(case, raw_partition=False, share=None, cnl_nests=None):
    from biogeme.partition import Partition
    from biogeme.sampling_of_alternatives import SamplingContext, CrossVariableTuple

    alternatives, individuals = frames(case)
    segs = [set(s) for s in case['segments']]
    part = segs if raw_partition else Partition(segs, full_set=set().union(*segs) if segs else None)
    kw = {}
    if case.get('mev'):
        seg2 = [set(s) for s in case['mev']['segments']]
        kw['mev_partition'] = Partition(seg2, full_set=set().union(*seg2))
        kw['mev_sample_sizes'] = list(case['mev']['sizes'])
    if cnl_nests is not None:
        kw['cnl_nests'] = cnl_nests
    if share is None:
        share = bool(case.get('share'))
    sh = {} if share else None
    return SamplingContext(
        the_partition=part,
        sample_sizes=list(case['sizes']),
        individuals=individuals,
        choice_column=case['choice_col'],
        alternatives=alternatives,
        id_column=case['id_col'],
        biogeme_file_name='merged.csv',
        utility_function=build_expr(case['utility'], sh),
        combined_variables=[CrossVariableTuple(name=n, formula=build_expr(f, {} if share else None)) for n, f in case['combined']],
        **kw,
    )


def strata_of(case, which='main'):
    src = case if which == 'main' else case['mev']
    return list(zip([list(s) for s in src['segments']], list(src['sizes'])))


# ----------------------------------------------------------------------------- property oracle


def oracle_sample(strata, chosen, ids, logps):
    """from the statement: chosen first, nothing twice, exactly k per stratum, all in their
    stratum, correction ln(k/n).  Returns None or the reason."""
    if not ids or ids[0] != chosen:
        return f'the chosen alternative {chosen} is not listed first (first: {ids[:1]})'
    if len(set(ids)) != len(ids):
        return 'an alternative appears twice'
    for seg, k in strata:
        cnt = sum(1 for a in ids if a in seg)
        if cnt != k:
            return f'{cnt} alternatives from the stratum {seg} instead of the requested {k}'
    for a, lp in zip(ids, logps):
        home = [(seg, k) for seg, k in strata if a in seg]
        if not home:
            return f'alternative {a} belongs to no stratum'
        seg, k = home[0]
        want = math.log(k / len(seg))
        if lp is None or not close(lp, want, 1e-12, 1e-12):
            return f'correction of alternative {a} is {lp}, ln({k}/{len(seg)}) = {want}'
    return None


def oracle_mev(strata, ids, ws):
    if len(set(ids)) != len(ids):
        return 'an alternative appears twice in the second sample'
    for seg, k in strata:
        cnt = sum(1 for a in ids if a in seg)
        if cnt != k:
            return f'second sample: {cnt} alternatives from the stratum {seg} instead of {k}'
    for a, w in zip(ids, ws):
        home = [(seg, k) for seg, k in strata if a in seg]
        if not home:
            return f'second sample: alternative {a} belongs to no stratum'
        seg, k = home[0]
        if not close(w, len(seg) / k, 1e-12, 1e-12):
            return f'weight of alternative {a} is {w}, n/k = {len(seg) / k}'
    return None


def eval_formula(f, env):
    """plain Python evaluation (oracle side), env: name -> float"""
    t = f[0]
    if t == 'c':
        return float(f[1])
    if t == 'b':
        return float(f[2])
    if t == 'v':
        return env[f[1]]
    if t == 'neg':
        return -eval_formula(f[1], env)
    if t == 'exp':
        return math.exp(eval_formula(f[1], env))
    if t == 'log':
        return math.log(eval_formula(f[1], env))
    a, b = eval_formula(f[1], env), eval_formula(f[2], env)
    return {'+': a + b, '-': a - b, '*': a * b, '/': a / b if t == '/' else 0.0}[t]


def split_picks(strata, chosen, ids):
    """undo `pd.concat(results)`: the rows after the first, cut by the number of rows requested
    per stratum"""
    rest = list(ids[1:])
    picks = []
    for seg, k in strata:
        need = k - (1 if chosen in seg else 0)
        picks.append(rest[: max(need, 0)])
        rest = rest[max(need, 0):]
    if rest:
        picks[-1] = picks[-1] + rest
    return picks


def split_mev(strata, ids):
    rest = list(ids)
    picks = []
    for seg, k in strata:
        picks.append(rest[:k])
        rest = rest[k:]
    if rest:
        picks[-1] = picks[-1] + rest
    return picks


def beta_names(f):
    if f[0] == 'b':
        return [f[1]]
    if f[0] in ('c', 'v'):
        return []
    out = []
    for x in f[1:]:
        out += beta_names(x)
    return out


def at_betas(f, vals):
    """the formula with its parameters at the values at which it is evaluated (`betas=` of the real call)"""
    if not vals:
        return f
    if f[0] == 'b':
        return ['b', f[1], vals.get(f[1], f[2])]
    if f[0] in ('c', 'v'):
        return f
    return [f[0]] + [at_betas(x, vals) for x in f[1:]]


def _beta_leaves(f):
    if f[0] == 'b':
        return [f]
    if f[0] in ('c', 'v'):
        return []
    out = []
    for x in f[1:]:
        out += _beta_leaves(x)
    return out


def utility_evaluated(case):
    """utility at the evaluation point (initial values unless `eval_betas` moves them)"""
    return at_betas(case['utility'], case.get('eval_betas'))


def mu_evaluated(n):
    return float(n.get('mu_eval', n['mu']))


def lean_formula(f):
    if f[0] == 'c':
        return ['c', f2b(f[1])]
    if f[0] == 'b':
        return ['c', f2b(f[2])]
    if f[0] == 'v':
        return ['v', f[1]]
    return [f[0]] + [lean_formula(x) for x in f[1:]]


def fnum(x):
    try:
        return float(x)
    except Exception:  # noqa: BLE001
        return float('nan')


# ----------------------------------------------------------------------------- checks on one case


def check_sampling(ctx, res, case, n_seeds):
    """sample_alternatives / sample_mev_alternatives on many seeds"""
    from biogeme.sampling_of_alternatives import SamplingOfAlternatives

    context = build_context(case)
    soa = SamplingOfAlternatives(context)
    strata = strata_of(case)
    idc = case['id_col']
    rng = ctx.rng
    chosen_list = list(dict.fromkeys(case['choices']))[:3]
    for chosen in chosen_list:
        for _ in range(n_seeds):
            seed = rng.randrange(2**31)
            np.random.seed(seed)
            sub = {'kind': 'sample', 'case': slim(case), 'chosen': chosen, 'seed': seed}
            try:
                df = soa.sample_alternatives(chosen=chosen)
            except Exception as e:  # noqa: BLE001
                res.count({'sample_raises': case['segments'], 'sizes': case['sizes'], 'chosen': chosen})
                res.violate(f'sample_alternatives raises on a valid context: {type(e).__name__}: {e}', sub, core.exc_kind(e),
                            'a choice set following the protocol', where='SamplingOfAlternatives.sample_alternatives')
                continue
            ids = [int(v) for v in df[idc]]
            lps = [fnum(v) for v in df[LOG_PROBA]]
            partial = any(k < len(s) for s, k in strata)
            res.count({'sample': sub['case']['segments'], 'sizes': case['sizes'], 'chosen': chosen, 'ids': ids},
                      nontrivial=len(ids) >= 3 and (len(strata) >= 2 or partial))
            res.tally(f'strata={len(strata)}')
            res.tally('complete' if not partial else 'partial')
            res.tally(f'sample: alternatives index:{index_kind(case, "alt_index")}')
            why = oracle_sample(strata, chosen, ids, lps)
            if why:
                res.violate(f'sample_alternatives: {why}', sub, {'ids': ids, 'log_proba': lps},
                            'chosen first, no duplicate, k per stratum, ln(k/n)', where='SamplingOfAlternatives.sample_alternatives')
            # own attributes of every sampled row
            tab = {i: v for i, v in zip(case['ids'], case['values'])}
            for j, c in enumerate(case['cols']):
                got = [fnum(v) for v in df[c]]
                want = [tab[i][j] if i in tab else float('nan') for i in ids]
                if [f2b(x) for x in got] != [f2b(x) for x in want]:
                    res.violate(f'sample_alternatives: column {c} does not hold the sampled alternatives\' own values',
                                sub, got, want, where='SamplingOfAlternatives.sample_alternatives')
            picks = split_picks(strata, chosen, ids)
            req = {'op': 'sample', 'alts': case['ids'], 'segments': case['segments'], 'sizes': case['sizes'],
                   'chosen': chosen, 'picks': picks, 'rows': [[i, f2b(l)] for i, l in zip(ids, lps)]}

            def cb(ans, ids=ids, lps=lps, sub=sub, why=why):
                model = ans.get('model')
                if not ans.get('picks_ok'):
                    res.diverge('contract assumed of DataFrame.sample (picksOK) fails on the real sample', sub, 'picksOK', {'ids': ids})
                if bool(ans.get('protocol')) != (why is None):
                    res.diverge('Lean relation protocolB vs the Python oracle on the real sample', sub, ans.get('protocol'), why)
                if not isinstance(model, list):
                    res.diverge('sampleAlternatives (model) refuses what the code produced', sub, model, {'ids': ids})
                    return
                mids = [r[0] for r in model]
                mlp = [b2f(r[1]) if r[1] is not None else float('nan') for r in model]
                if mids != ids or not all(close(a, b, 1e-12, 1e-12) for a, b in zip(mlp, lps)):
                    res.diverge('rows of sample_alternatives vs Sampling.sampleAlternatives', sub, {'ids': mids, 'lp': mlp}, {'ids': ids, 'lp': lps})

            ctx.batch.add(req, cb)
            # the rows handed over are rows of the table of alternatives found by id, whatever its labels
            alt_labels = case.get('alt_index') if case.get('alt_index') is not None else list(range(len(case['ids'])))
            tcols = [idc] + list(case['cols'])
            req2 = {'op': 'altrows', 'ids': ids,
                    'alts': [[str(alt_labels[p]), int(i), [f2b(float(i))] + [f2b(v) for v in vals]] for p, (i, vals) in enumerate(zip(case['ids'], case['values']))]}
            got_rows = [[f2b(fnum(df.iloc[k][c])) for c in tcols] for k in range(len(df))]
            got_labels = [x for x in df.index]

            def cb_rows(ans, got_rows=got_rows, got_labels=got_labels, sub=sub):
                want = [[int(b) for b in r[1]] for r in ans.get('rows', [])]
                if want != got_rows:
                    res.diverge('rows of sample_alternatives vs Sampling.rowsOfIds (own attributes, table looked up by id)', sub, want, got_rows)
                # (the labels of the returned frame are observed, not demanded: the property speaks of the merged rows)
                res.tally('sample frame labels: 0..J-1' if got_labels == list(range(len(got_rows))) else 'sample frame labels: other')

            ctx.batch.add(req2, cb_rows)
    if case.get('mev'):
        strata2 = strata_of(case, 'mev')
        for _ in range(n_seeds):
            seed = rng.randrange(2**31)
            np.random.seed(seed)
            sub = {'kind': 'mev', 'case': slim(case), 'seed': seed}
            try:
                df = soa.sample_mev_alternatives()
            except Exception as e:  # noqa: BLE001
                res.count({'mev_raises': case['mev']})
                res.violate(f'sample_mev_alternatives raises on a valid context: {type(e).__name__}: {e}', sub, core.exc_kind(e),
                            'a second sample following the protocol', where='SamplingOfAlternatives.sample_mev_alternatives')
                continue
            ids = [int(v) for v in df[idc]]
            ws = [fnum(v) for v in df[MEV_WEIGHT]]
            res.count({'mev': case['mev'], 'ids': ids}, nontrivial=len(ids) >= 2)
            res.tally('mev')
            why = oracle_mev(strata2, ids, ws)
            if why:
                res.violate(f'sample_mev_alternatives: {why}', sub, {'ids': ids, 'weights': ws}, 'no duplicate, k per stratum, n/k',
                            where='SamplingOfAlternatives.sample_mev_alternatives')
            req = {'op': 'mev', 'segments': case['mev']['segments'], 'sizes': case['mev']['sizes'],
                   'picks': split_mev(strata2, ids), 'rows': [[i, f2b(w)] for i, w in zip(ids, ws)]}

            def cb2(ans, ids=ids, ws=ws, sub=sub, why=why):
                if not ans.get('picks_ok'):
                    res.diverge('contract assumed of DataFrame.sample (mevPicksOK) fails on the real sample', sub, 'mevPicksOK', {'ids': ids})
                if bool(ans.get('protocol')) != (why is None):
                    res.diverge('Lean relation mevProtocolB vs the Python oracle', sub, ans.get('protocol'), why)
                model = ans.get('model', [])
                mids = [r[0] for r in model]
                mw = [b2f(r[1]) for r in model]
                if mids != ids or not all(close(a, b, 1e-12, 1e-12) for a, b in zip(mw, ws)):
                    res.diverge('rows of sample_mev_alternatives vs Sampling.sampleMev', sub, {'ids': mids, 'w': mw}, {'ids': ids, 'w': ws})

            ctx.batch.add(req, cb2)


def slim(case):
    return {k: case[k] for k in case}


def merged_run(case):
    """real sample_and_merge with the samples recorded at the public entry points"""
    from biogeme.sampling_of_alternatives import ChoiceSetsGeneration, GenerateModel

    with core.scratch():
        context = build_context(case)
        gen = ChoiceSetsGeneration(context)
        soa = gen.sampling_of_alternatives
        rec1, rec2 = [], []
        orig1, orig2 = soa.sample_alternatives, soa.sample_mev_alternatives

        def spy1(chosen):
            df = orig1(chosen=chosen)
            rec1.append(df.copy())
            return df

        def spy2():
            df = orig2()
            rec2.append(df.copy())
            return df

        soa.sample_alternatives = spy1
        soa.sample_mev_alternatives = spy2
        call = case.get('call', 'first')
        if call == 'second':
            # an earlier call on the same object (other draws) must leave nothing behind
            np.random.seed((case['np_seed'] + 1) % 2**31)
            gen.sample_and_merge(recycle=False)
        np.random.seed(case['np_seed'])
        db = gen.sample_and_merge(recycle=False)
        # the samplings that produced the returned table: the last one per individual
        n_ind = len(case['choices'])
        rec1[:] = rec1[-n_ind:]
        rec2[:] = rec2[-n_ind:]
        if call == 'recycle':
            # the database read back from the file written by the first call
            n1, n2 = len(rec1), len(rec2)
            db = gen.sample_and_merge(recycle=True)
            del rec1[n1:], rec2[n2:]
        data = db.data.copy()
        model = GenerateModel(context)
        ll = model.get_logit()
        obs = leanrun.observe(ll, db, betas=case.get('eval_betas'))
        if 'values' not in obs:
            raise RuntimeError(obs.get('error'))
        attributes = sorted(context.attributes)
        J = context.total_sample_size
        J2 = context.second_sample_size
    return data, rec1, rec2, obs, attributes, J, J2


def full_model_ll(case):
    """the logit on the full choice set, built by the harness (reference), through the real engine"""
    import pandas as pd
    import biogeme.database as bdb
    from biogeme.expressions import Variable
    from biogeme import models

    cols = case['cols']
    comb = dict((n, f) for n, f in case['combined'])
    data = {case['choice_col']: [float(c) for c in case['choices']]}
    for j, c in enumerate(case['icols']):
        data[c] = [r[j] for r in case['irows']]
    for p, (i, vals) in enumerate(zip(case['ids'], case['values'])):
        for j, c in enumerate(cols):
            data[f'F{p}__{c}'] = [vals[j]] * len(case['choices'])

    def subst(f, p, depth=0):
        if f[0] == 'v':
            if f[1] in cols:
                return ['v', f'F{p}__{f[1]}']
            if f[1] in comb and depth < 5:
                return subst(comb[f[1]], p, depth + 1)
            return f
        if f[0] in ('c', 'b'):
            return f
        return [f[0]] + [subst(x, p, depth) for x in f[1:]]

    with core.scratch():
        db = bdb.Database('full', pd.DataFrame(data))
        V = {int(i): build_expr(subst(case['utility'], p)) for p, i in enumerate(case['ids'])}
        ll = models.loglogit(V, None, Variable(case['choice_col']))
        values = ll.get_value_c(database=db, betas=dict(case.get('eval_betas') or {}), prepare_ids=True)
    return [float(v) for v in np.atleast_1d(values)]


def same_cell(case, a, b):
    """cells of the merged table: bit for bit, except for a database read back from the CSV file
    (recycle=True): pandas' default float parser is not exactly round-trip (1 ulp), tolerance 1e-12"""
    if case.get('call') == 'recycle':
        return close(a, b, 1e-12, 1e-12)
    return f2b(a) == f2b(b)


def check_merge(ctx, res, case):
    """sample_and_merge, define_new_variables, get_logit on one seed"""
    try:
        data, rec1, rec2, obs, attributes, J, J2 = merged_run(case)
        ll_values = obs['values']
    except Exception as e:  # noqa: BLE001
        res.count({'merge_raises': case['segments'], 'sizes': case['sizes'], 'seed': case['np_seed']})
        res.violate(f'sample_and_merge / get_logit raises on a valid context: {type(e).__name__}: {e}', {'kind': 'merge', 'case': slim(case), 'row': 0},
                    core.exc_kind(e), 'a merged database and its likelihood', where='ChoiceSetsGeneration.sample_and_merge')
        return
    strata = strata_of(case)
    idc, cols = case['id_col'], case['cols']
    known_shape = shared_clash(case)

    def W(default):
        # only the renaming-dependent comparisons of a case of the listed shape are attributed to the finding
        return F_C19_1_WHERE if known_shape else default

    tab = {i: v for i, v in zip(case['ids'], case['values'])}
    complete = all(k == len(s) for s, k in strata)
    full_ll = full_model_ll(case) if complete else None
    n_rows = len(case['choices'])
    if len(data) != n_rows or len(rec1) != n_rows:
        res.violate('sample_and_merge: one merged row per individual expected', slim(case), [len(data), len(rec1)], n_rows,
                    where='ChoiceSetsGeneration.sample_and_merge')
        return
    holder = {'o': obs, 'sub': {'kind': 'merge', 'case': slim(case), 'row': 0}, 'what': 'get_logit', 'sem': [None] * n_rows,
              'where': F_C19_1_WHERE if known_shape else ''}
    keep_observation(ctx, holder)
    names = list(data.columns)
    res.tally(f'individuals index:{index_kind(case, "ind_index")}')
    res.tally(f'alternatives index:{index_kind(case, "alt_index")}')
    res.tally(f'sample_and_merge call:{case.get("call", "first")}')
    eb = case.get('eval_betas') or {}
    init = {b[1]: b[2] for b in _beta_leaves(case['utility'])}
    moved = [k for k, v in eb.items() if k in init and v != init[k]]
    res.tally('get_logit evaluated: ' + ('at the initial values' if not moved else 'away from the initial values (all parameters)' if len(moved) == len(init)
                                         else 'away from the initial values (some parameters)'))
    add_table_request(ctx, res, case, data, rec1, rec2, names, J, J2)
    for r in range(n_rows):
        row = {c: fnum(data.iloc[r][c]) for c in names}
        chosen = case['choices'][r]
        sub = {'kind': 'merge', 'case': slim(case), 'row': r}
        res.count({'merge': case['segments'], 'sizes': case['sizes'], 'row': r, 'seed': case['np_seed']},
                  nontrivial=J >= 3 and (len(strata) >= 2 or not complete))
        res.tally('merged_rows')
        # ----- oracle on the merged row: protocol, own attributes, combined variables
        try:
            ids = [int(row[f'{idc}_{i}']) for i in range(J)]
            lps = [row[f'{LOG_PROBA}_{i}'] for i in range(J)]
        except (KeyError, ValueError) as e:
            res.violate(f'merged row lacks a sample column: {e}', sub, sorted(names), 'columns <col>_<i> for i < J',
                        where='ChoiceSetsGeneration.process_row')
            continue
        why = oracle_sample(strata, chosen, ids, lps)
        if why:
            res.violate(f'merged row: {why}', sub, {'ids': ids, 'log_proba': lps}, 'protocol', where='ChoiceSetsGeneration.process_row')
        ind_env = {c: case['irows'][r][j] for j, c in enumerate(case['icols'])}
        ind_env[case['choice_col']] = float(chosen)
        for c in ind_env:
            if c not in row:
                res.violate(f'merged row: the column {c} of the individual is missing from the returned database', sub, sorted(names), c,
                            where='ChoiceSetsGeneration.sample_and_merge')
            elif not same_cell(case, row[c], ind_env[c]):
                res.violate(f'merged row: individual column {c} changed', sub, row[c], ind_env[c], where='ChoiceSetsGeneration.process_row')
        for i, a in enumerate(ids):
            if a not in tab:
                continue
            env = dict(ind_env)
            for j, c in enumerate(cols):
                env[c] = tab[a][j]
                got = row.get(f'{c}_{i}')
                if got is None or not same_cell(case, got, tab[a][j]):
                    res.violate(f'merged row: {c}_{i} is not attribute {c} of sampled alternative {a}', sub, got, tab[a][j],
                                where='ChoiceSetsGeneration.process_row')
            for nm, f in case['combined']:
                want = eval_formula(f, env)
                env[nm] = want
                got = row.get(f'{nm}_{i}')
                if got is None or not close(got, want, 1e-12, 1e-12):
                    res.violate(f'combined variable {nm}_{i} is not computed from the own attributes of sampled alternative {a} and the individual',
                                sub, got, want, where=W('ChoiceSetsGeneration.define_new_variables'))
        # ----- oracle on the second sample carried by the merged row: protocol, weights n/k, own attributes, combined variables
        if case.get('mev'):
            try:
                mids = [int(row[f'{MEV_PREFIX}{idc}_{j}']) for j in range(J2)]
                mws = [row[f'{MEV_PREFIX}{MEV_WEIGHT}_{j}'] for j in range(J2)]
            except (KeyError, ValueError) as e:
                res.violate(f'merged row lacks a column of the second sample: {e}', sub, sorted(names), 'columns _MEV_<col>_<j> for j < J2',
                            where='ChoiceSetsGeneration.process_row')
                mids = None
            if mids is not None:
                why2 = oracle_mev(strata_of(case, 'mev'), mids, mws)
                if why2:
                    res.violate(f'merged row: {why2}', sub, {'ids': mids, 'weights': mws}, 'second sample protocol', where='ChoiceSetsGeneration.process_row')
                for j, a in enumerate(mids):
                    if a not in tab:
                        continue
                    env = dict(ind_env)
                    for jj, c in enumerate(cols):
                        env[c] = tab[a][jj]
                        got = row.get(f'{MEV_PREFIX}{c}_{j}')
                        if got is None or not same_cell(case, got, tab[a][jj]):
                            res.violate(f'merged row: {MEV_PREFIX}{c}_{j} is not attribute {c} of the alternative {a} of the second sample', sub, got, tab[a][jj],
                                        where='ChoiceSetsGeneration.process_row')
                    for nm, f in case['combined']:
                        want = eval_formula(f, env)
                        env[nm] = want
                        got = row.get(f'{MEV_PREFIX}{nm}_{j}')
                        if got is None or not close(got, want, 1e-12, 1e-12):
                            res.violate(f'combined variable {MEV_PREFIX}{nm}_{j} is not computed from the own attributes of alternative {a} of the second sample and the individual',
                                        sub, got, want, where=W('ChoiceSetsGeneration.define_new_variables'))
                res.tally('merged_rows: second sample oracle')
        # ----- oracle: full-sample equivalence through the real engine
        if complete and full_ll is not None:
            if not close(ll_values[r], full_ll[r], 1e-9, 1e-9):
                res.violate('complete sampling: log likelihood of get_logit() differs from the logit on the full choice set',
                            sub, ll_values[r], full_ll[r], where=W('GenerateModel.get_logit'))
            res.tally('full_sample_equiv_checked')
        # ----- model: flatten, define, likelihood
        s1 = rec1[r]
        s_cols = [str(c) for c in s1.columns]
        s_rows = [[f2b(fnum(v)) for v in s1.iloc[k]] for k in range(len(s1))]
        if rec2:
            s2 = rec2[r]
            m_cols = [str(c) for c in s2.columns]
            m_rows = [[f2b(fnum(v)) for v in s2.iloc[k]] for k in range(len(s2))]
        else:
            m_cols, m_rows = [], []
        ind_named = [[case['choice_col'], f2b(float(chosen))]] + [[c, f2b(case['irows'][r][j])] for j, c in enumerate(case['icols'])]
        reqs = [{'op': 'flatten', 'ind': ind_named, 'cols': s_cols, 'rows': s_rows, 'mev_cols': m_cols, 'mev_rows': m_rows}]
        n_defined = len(case['combined']) * (J + (J2 or 0))
        base_names = names[: len(names) - n_defined]
        base_row = [[c, f2b(row[c])] for c in base_names]
        reqs.append({'op': 'define', 'row': base_row, 'alt_cols': [idc] + cols, 'J': J, 'J2': J2,
                     'combined': [[n, lean_formula(f)] for n, f in case['combined']]})
        full_row = [[c, f2b(row[c])] for c in names]
        reqs.append({'op': 'loglik', 'row': full_row, 'attributes': attributes, 'utility': lean_formula(utility_evaluated(case)), 'J': J})
        if complete:
            reqs.append({'op': 'fullll', 'ind': ind_named, 'alt_cols': cols, 'ids': case['ids'],
                         'alt_rows': [[f2b(v) for v in vals] for vals in case['values']],
                         'combined': [[n, lean_formula(f)] for n, f in case['combined']],
                         'utility': lean_formula(utility_evaluated(case)), 'chosen': chosen})

        def cb(ans, sub=sub, row=row, base_names=base_names, names=names, r=r, complete=complete, W=W, holder=holder):
            flat = ans[0].get('row') or []
            d = {}
            order = []
            for k, b in flat:
                if k not in d:
                    order.append(k)
                d[k] = b2f(b)
            if order != base_names or any(not same_cell(case, d[k], row[k]) for k in order):
                res.diverge('merged row (process_row) vs Sampling.flattenRow', sub,
                            {k: d[k] for k in order}, {k: row[k] for k in base_names})
            defined = ans[1].get('row')
            if defined is None:
                res.diverge('Sampling.defineVars fails on the real row', sub, None, names)
            else:
                dn = [k for k, _ in defined]
                dv = {k: b2f(b) for k, b in defined}
                if dn != names or any(not close(dv[k], row[k], 1e-12, 1e-12) for k in names):
                    res.diverge('columns after define_new_variables vs Sampling.defineVars', sub,
                                {k: dv[k] for k in dn if k not in base_names}, {k: row[k] for k in names if k not in base_names}, where=W(''))
            ll = ans[2].get('ll')
            if ll is None or not close(b2f(ll), ll_values[r], 1e-9, 1e-9):
                res.diverge('likelihood of get_logit() (real engine) vs Sampling.sampledLL', sub, None if ll is None else b2f(ll), ll_values[r], where=W(''))
            else:
                holder['sem'][r] = b2f(ll)
            if complete:
                fl = ans[3].get('ll')
                if fl is None or not close(b2f(fl), full_ll[r], 1e-9, 1e-9):
                    res.diverge('loglogit on the full choice set (real engine) vs Sampling.fullLL', sub, None if fl is None else b2f(fl), full_ll[r])
                if fl is not None and ll is not None and not close(b2f(fl), b2f(ll), 1e-9, 1e-9):
                    res.diverge('model: sampledLL vs fullLL under complete sampling (theorem full_sample_equiv on Float)', sub, b2f(ll), b2f(fl))

        ctx.batch.add_many(reqs, cb)


def add_table_request(ctx, res, case, data, rec1, rec2, names, J, J2):
    """the whole merged table against `Sampling.sampleAndMerge`: the individuals with their row
    LABELS, the frames returned by the successive samplings with the labels they really carry;
    compared with the real database position by position (cells; the labels of the result are
    not part of the property)"""
    sub = {'kind': 'merge', 'case': slim(case), 'row': 0}
    n_rows = len(case['choices'])
    labels = case.get('ind_index') if case.get('ind_index') is not None else list(range(n_rows))

    def lframe(df):
        return [[int(lab), [f2b(fnum(v)) for v in df.iloc[k]]] for k, lab in enumerate(df.index)]

    try:
        drawn = []
        for r in range(n_rows):
            s1 = rec1[r]
            s2 = rec2[r] if rec2 else None
            if list(s1.index) != list(range(len(s1))) or (s2 is not None and list(s2.index) != list(range(len(s2)))):
                raise ValueError('label')
            drawn.append({'cols': [str(c) for c in s1.columns], 'main': lframe(s1),
                          'mev_cols': [str(c) for c in s2.columns] if s2 is not None else [], 'mev': lframe(s2) if s2 is not None else []})
    except (ValueError, TypeError):
        res.tally('mergetable_skipped: the sample frames are not labelled 0..J-1 (oracles only)')
        return
    inds = [[str(labels[r]), [[case['choice_col'], f2b(float(case['choices'][r]))]] + [[c, f2b(case['irows'][r][j])] for j, c in enumerate(case['icols'])]]
            for r in range(n_rows)]
    req = {'op': 'mergetable', 'inds': inds, 'drawn': drawn, 'alt_cols': [case['id_col']] + case['cols'], 'J': J, 'J2': J2,
           'combined': [[n, lean_formula(f)] for n, f in case['combined']]}
    real = [[fnum(data.iloc[r][c]) for c in names] for r in range(n_rows)]
    where = F_C19_1_WHERE if shared_clash(case) else ''

    def cb(ans):
        rows = ans.get('rows')
        if rows is None or len(rows) != n_rows:
            res.diverge('Sampling.sampleAndMerge fails or has another number of rows than the real merged table', sub,
                        None if rows is None else len(rows), n_rows, where=where)
            return
        for r, (lab, cells) in enumerate(rows):
            d, order = {}, []
            for k, b in cells:
                if k not in d:
                    order.append(k)
                d[k] = b2f(b)
            if order != names or any(not close(d[k], v, 1e-12, 1e-12) for k, v in zip(names, real[r])):
                res.diverge('merged table (sample_and_merge) vs Sampling.sampleAndMerge, row by position', {**sub, 'row': r},
                            {k: d[k] for k in order}, dict(zip(names, real[r])), where=where)
                return
        res.tally('mergetable_checked')

    ctx.batch.add(req, cb)


NEST_LABELS = ['zone', 'N', '', 'nest_1', 'nest_2', 'nest_3', 'n0', 'b10', 'b2']
MU_VALUES = [1.0, 1.25, 1.5, 2.0, 3.0]


def gen_nests(rng, pool_ids):
    """nests of a nested logit over (part of) the given alternatives: 1-3 disjoint nests of 1..n
    members listed in arbitrary order; labels are free text (distinct, absent, all the same, equal to
    an automatically given 'nest_k', drawn with repetition); nest parameters are distinct Betas, one
    Beta shared by all nests, or plain numbers; object syntax or the old tuple syntax"""
    pool = list(pool_ids)
    rng.shuffle(pool)
    n_nests = rng.choice([1, 2, 2, 2, 3, 3])
    groups = []
    for j in range(n_nests):
        if not pool:
            break
        lo = 1 if rng.random() < 0.2 else 2
        size = min(len(pool), rng.randint(lo, max(lo, len(pool) // 2)))
        groups.append(pool[:size])
        pool = pool[size:]
    groups = [g for g in groups if g]
    mu_mode = rng.choice(['beta', 'beta', 'shared', 'float'])
    shared_mu = rng.choice(MU_VALUES)
    name_mode = rng.choice(['distinct', 'none', 'same', 'same', 'auto_clash', 'pool'])
    label = rng.choice(NEST_LABELS)
    nests = []
    for j, g in enumerate(groups):
        if name_mode == 'distinct':
            name = f'n{j}'
        elif name_mode == 'none':
            name = None
        elif name_mode == 'same':
            name = label
        elif name_mode == 'auto_clash':
            # a nest without label receives 'nest_<position>'; another nest carries that very label
            name = None if j == 0 else 'nest_1'
        else:
            name = rng.choice(NEST_LABELS + [None])
        nests.append({'mu': shared_mu if mu_mode == 'shared' else rng.choice(MU_VALUES), 'alts': [int(a) for a in g], 'name': name})
    if name_mode == 'auto_clash' and len(nests) >= 2 and rng.random() < 0.5:
        nests[0]['name'], nests[-1]['name'] = f'nest_{len(nests)}', None
    # nest parameters that are Betas: evaluated at their initial value or elsewhere (initial 1 -> 1.7 among others)
    if mu_mode != 'float' and rng.random() < 0.65:
        how = rng.choice(['from_one', 'other', 'mixed'])
        shared_eval = rng.choice([1.7, 1.25, 2.5])
        for n in nests:
            if how == 'from_one':
                n['mu'] = 1.0
            if how == 'mixed' and rng.random() < 0.5:
                continue
            n['mu_eval'] = shared_eval if mu_mode == 'shared' else rng.choice([v for v in [1.7, 1.25, 2.5, 3.0, 1.0] if v != n['mu']])
        if mu_mode == 'shared':
            for n in nests:
                n['mu'] = nests[0]['mu']
                n['mu_eval'] = shared_eval
    syntax = 'tuples' if all(n['name'] is None for n in nests) and rng.random() < 0.5 else 'objects'
    return {'syntax': syntax, 'mu_mode': mu_mode, 'nests': nests}


def norm_nests(nd):
    """accepts the older replay form [(mu, members), ...]"""
    if isinstance(nd, dict):
        return {'syntax': nd.get('syntax', 'objects'), 'mu_mode': nd.get('mu_mode', 'beta'),
                'nests': [{'mu': float(n['mu']), 'alts': [int(a) for a in n['alts']], 'name': n.get('name'),
                           **({'mu_eval': float(n['mu_eval'])} if 'mu_eval' in n else {})} for n in nd['nests']]}
    return {'syntax': 'objects', 'mu_mode': 'beta',
            'nests': [{'mu': float(mu), 'alts': [int(a) for a in m], 'name': f'n{j}'} for j, (mu, m) in enumerate(nd)]}


def build_nested_nests(case, nd):
    """real NestsForNestedLogit from the abstract description (fresh objects at every call)"""
    from biogeme.expressions import Beta
    from biogeme.nests import OneNestForNestedLogit, NestsForNestedLogit

    betas = {}

    def mu_of(j, n):
        if nd['mu_mode'] == 'float':
            return float(n['mu'])
        nm = 'MU' if nd['mu_mode'] == 'shared' else f'MU{j}'
        if nm not in betas:
            betas[nm] = Beta(nm, float(n['mu']), 1.0, None, 0)
        return betas[nm]

    if nd['syntax'] == 'tuples':
        return NestsForNestedLogit(choice_set=list(case['ids']), tuple_of_nests=tuple((mu_of(j, n), list(n['alts'])) for j, n in enumerate(nd['nests'])))
    return NestsForNestedLogit(choice_set=list(case['ids']), tuple_of_nests=tuple(
        OneNestForNestedLogit(nest_param=mu_of(j, n), list_of_alternatives=list(n['alts']), name=n['name']) for j, n in enumerate(nd['nests'])))


def nested_betas(case, nd):
    """`betas=` of the evaluation: utility coefficients and nest parameters at the evaluation point"""
    out = dict(case.get('eval_betas') or {})
    if nd['mu_mode'] != 'float':
        for j, n in enumerate(nd['nests']):
            if 'mu_eval' in n:
                out['MU' if nd['mu_mode'] == 'shared' else f'MU{j}'] = float(n['mu_eval'])
    return out


def both_complete(case):
    return all(k == len(s) for s, k in strata_of(case)) and all(k == len(s) for s, k in strata_of(case, 'mev'))


def check_nested(ctx, res, case, rng, configs=None, n_configs=3):
    """nested logit generated on the sample (`GenerateModel.get_nested_logit`), several nest
    configurations on one merged database:

    * oracle (property statement): with complete sampling of both samples its log likelihood equals
      `models.lognested` on the full choice set (real engine on both sides);
    * model: `Sampling.nestedSampledLL` evaluated by the Lean driver on the real merged row must
      agree with the engine (complete or partial sampling)."""
    from biogeme.expressions import Variable
    from biogeme import models
    from biogeme.sampling_of_alternatives import ChoiceSetsGeneration, GenerateModel

    if configs is None:
        mev_ids = sorted(set().union(*[set(s) for s in case['mev']['segments']]))
        configs = [gen_nests(rng, mev_ids) for _ in range(n_configs)]
    configs = [norm_nests(c) for c in configs]
    configs = [c for c in configs if c['nests']]
    if not configs:
        return
    complete = both_complete(case)
    base = {'kind': 'nested', 'case': slim(case)}
    sampled, refs, observed = {}, {}, {}
    try:
        with core.scratch():
            context = build_context(case)
            gen = ChoiceSetsGeneration(context)
            np.random.seed(case['np_seed'])
            db = gen.sample_and_merge(recycle=False)
            data = db.data.copy()
            attributes = sorted(context.attributes)
            J, J2 = context.total_sample_size, context.second_sample_size
            model = GenerateModel(context)
            for c, nd in enumerate(configs):
                try:
                    ll = model.get_nested_logit(build_nested_nests(case, nd))
                    observed[c] = leanrun.observe(ll, db, betas=nested_betas(case, nd))
                    if 'values' not in observed[c]:
                        raise RuntimeError(observed[c].get('error'))
                    sampled[c] = observed[c]['values']
                except Exception as e:  # noqa: BLE001
                    sampled[c] = e
        if complete:
            for c, nd in enumerate(configs):
                if isinstance(sampled[c], Exception):
                    continue
                refs[c] = full_reference(case, lambda V, choice, nd=nd: models.lognested(V, None, build_nested_nests(case, nd), choice), betas=nested_betas(case, nd))
    except Exception as e:  # noqa: BLE001
        res.count({'nested_raises': configs, 'seed': case['np_seed']})
        res.violate(f'sample_and_merge / lognested raises on a valid context: {type(e).__name__}: {e}'[:300], {**base, 'nests': configs[0]}, core.exc_kind(e),
                    'log likelihoods', where='GenerateModel.get_nested_logit')
        return
    names = list(data.columns)
    for c, nd in enumerate(configs):
        sub = {**base, 'nests': nd}
        labels = [n['name'] for n in nd['nests']]
        res.tally(f'nested:nests={len(nd["nests"])}')
        res.tally('nested:labels ' + ('absent' if all(x is None for x in labels) else 'repeated' if len(set(labels)) < len(labels) else 'distinct'))
        res.tally(f'nested:mu {nd["mu_mode"]}')
        moved_mu = nd['mu_mode'] != 'float' and [n for n in nd['nests'] if 'mu_eval' in n and n['mu_eval'] != n['mu']]
        res.tally('nested evaluated: nest parameters ' + ('away from the initial values' if moved_mu else 'at the initial values')
                  + (', utility coefficients away' if any(True for _ in (case.get('eval_betas') or {})) else ''))
        if moved_mu and any(n['mu'] == 1.0 for n in moved_mu):
            res.tally('nested evaluated: a nest parameter initial 1 evaluated elsewhere')
        if isinstance(sampled[c], Exception):
            e = sampled[c]
            res.count({'nested_raises': nd, 'seed': case['np_seed']})
            res.violate(f'get_nested_logit raises on a valid context: {type(e).__name__}: {e}'[:300], sub, core.exc_kind(e), 'a log likelihood',
                        where='GenerateModel.get_nested_logit')
            continue
        holder = {'o': observed[c], 'sub': sub, 'what': 'get_nested_logit', 'sem': [None] * len(sampled[c]), 'where': ''}
        keep_observation(ctx, holder)
        for r, a in enumerate(sampled[c]):
            res.count({'nested': nd, 'segments': case['segments'], 'mev': case['mev'], 'row': r, 'seed': case['np_seed']}, nontrivial=True)
            if complete:
                res.tally('nested_full_sample_equiv_checked')
                b = refs[c][r]
                if not close(a, b, 1e-8, 1e-8):
                    res.violate('complete sampling: log likelihood of get_nested_logit() differs from the nested logit on the full choice set',
                                {**sub, 'row': r}, a, b, where='GenerateModel.get_nested_logit')
                    break
            else:
                res.tally('nested_partial_sample_model_checked')
            if not complete:
                # a nest of a sampled alternative without any row in the second sample: log(0) in the code
                main_ids = [int(fnum(data.iloc[r][f'{case["id_col"]}_{i}'])) for i in range(J)]
                mev_ids = [int(fnum(data.iloc[r][f'{MEV_PREFIX}{case["id_col"]}_{i}'])) for i in range(J2)]
                if any(set(n['alts']) & set(main_ids) and not set(n['alts']) & set(mev_ids) for n in nd['nests']) or not math.isfinite(a):
                    res.tally('nested_partial_sample_empty_nest_skipped')
                    continue
            full_row = [[k, f2b(fnum(data.iloc[r][k]))] for k in names]
            lean_nests = [[f2b(mu_evaluated(n) if nd['mu_mode'] != 'float' else float(n['mu'])), [int(x) for x in n['alts']]] for n in nd['nests']]
            reqs = [{'op': 'nestedll', 'row': full_row, 'attributes': attributes, 'utility': lean_formula(utility_evaluated(case)), 'J': J, 'J2': J2,
                     'id_col': case['id_col'], 'nests': lean_nests}]
            if complete:
                ind_named = [[case['choice_col'], f2b(float(case['choices'][r]))]] + [[k, f2b(case['irows'][r][j])] for j, k in enumerate(case['icols'])]
                reqs.append({'op': 'fullnestedll', 'ind': ind_named, 'alt_cols': case['cols'], 'ids': case['ids'],
                             'alt_rows': [[f2b(v) for v in vals] for vals in case['values']],
                             'combined': [[n, lean_formula(f)] for n, f in case['combined']],
                             'utility': lean_formula(utility_evaluated(case)), 'chosen': case['choices'][r], 'nests': lean_nests})

            def cb(ans, a=a, sub=sub, r=r, ref=refs[c][r] if complete else None, holder=holder):
                ll = ans[0].get('ll')
                if ll is None or not close(b2f(ll), a, 1e-9, 1e-9):
                    res.diverge('likelihood of get_nested_logit() (real engine) vs Sampling.nestedSampledLL', {**sub, 'row': r},
                                None if ll is None else b2f(ll), a)
                else:
                    holder['sem'][r] = b2f(ll)
                if ref is not None:
                    fl = ans[1].get('ll')
                    if fl is None or not close(b2f(fl), ref, 1e-9, 1e-9):
                        res.diverge('lognested on the full choice set (real engine) vs Sampling.fullNestedLL', {**sub, 'row': r},
                                    None if fl is None else b2f(fl), ref)
                    if fl is not None and ll is not None and not close(b2f(fl), b2f(ll), 1e-9, 1e-9):
                        res.diverge('model: nestedSampledLL vs fullNestedLL under complete sampling (theorem nested_full_sample_equiv on Float)',
                                    {**sub, 'row': r}, b2f(ll), b2f(fl))

            ctx.batch.add_many(reqs, cb)


def check_nested_full(ctx, res, case, rng, nests_def=None):
    """one nest configuration (replays)"""
    check_nested(ctx, res, case, rng, configs=None if nests_def is None else [nests_def], n_configs=1)


def full_reference(case, make_model, betas=None):
    """the model on the full choice set: one column per (alternative, attribute), utilities written out"""
    import pandas as pd
    import biogeme.database as bdb
    from biogeme.expressions import Variable

    cols = case['cols']
    comb = dict((n, f) for n, f in case['combined'])
    data = {case['choice_col']: [float(c) for c in case['choices']]}
    for j, c in enumerate(case['icols']):
        data[c] = [r[j] for r in case['irows']]
    for p, vals in enumerate(case['values']):
        for j, c in enumerate(cols):
            data[f'F{p}__{c}'] = [vals[j]] * len(case['choices'])

    def subst(f, p, depth=0):
        if f[0] == 'v':
            if f[1] in cols:
                return ['v', f'F{p}__{f[1]}']
            if f[1] in comb and depth < 5:
                return subst(comb[f[1]], p, depth + 1)
            return f
        if f[0] in ('c', 'b'):
            return f
        return [f[0]] + [subst(x, p, depth) for x in f[1:]]

    with core.scratch():
        fdb = bdb.Database('full', pd.DataFrame(data))
        V = {int(i): build_expr(subst(case['utility'], p)) for p, i in enumerate(case['ids'])}
        full = make_model(V, Variable(case['choice_col']))
        return [float(v) for v in np.atleast_1d(full.get_value_c(database=fdb, betas=dict(betas or {}), prepare_ids=True))]


F_C19_3_WHERE = 'SamplingContext.__post_init__ / GenerateModel.get_cross_nested_logit: nests of the cross-nested logit carrying the same name'


def cnl_names(nests_def):
    return [n[2] if len(n) > 2 else f'n{j}' for j, n in enumerate(nests_def)]


def cnl_dup_names(sub):
    """shape of known finding F-C19-3"""
    if not (isinstance(sub, dict) and sub.get('kind') == 'cnl'):
        return False
    names = cnl_names(sub.get('nests') or [])
    return len(set(names)) < len(names)


MATCHERS['cnl_dup_names'] = cnl_dup_names


def gen_cnl_nests(rng, ids):
    pool = list(ids)
    rng.shuffle(pool)
    n_shared = rng.randint(0, min(2, max(0, len(pool) - 2)))
    shared, rest = pool[:n_shared], pool[n_shared:]
    alone = rest[:rng.randint(0, 1)] if len(rest) > 2 else []
    rest = rest[len(alone):]
    h = rng.randint(1, max(1, len(rest) - 1))
    groups = [rest[:h], rest[h:]]
    nests_def = []
    name_mode = rng.choice(['auto', 'auto', 'auto', 'pool', 'same'])
    for j, g in enumerate(groups):
        al = [[int(a), 1.0] for a in g]
        for s_ in shared:
            w = rng.choice([0.25, 0.5, 0.75])
            al.append([int(s_), w if j == 0 else 1.0 - w])
        if al:
            name = f'n{j}' if name_mode == 'auto' else 'zone' if name_mode == 'same' else ['b10', 'b2', 'N', 'nest_1'][j]
            nests_def.append([rng.choice([1.0, 1.25, 1.5, 2.0, 3.0]), sorted(al) if rng.random() < 0.5 else al, name])
    # evaluation point of the nest parameters (Betas): initial value, or elsewhere (initial 1 -> 1.7 among others)
    if rng.random() < 0.65:
        from_one = rng.random() < 0.5
        for n in nests_def:
            if from_one:
                n[0] = 1.0
            n.append(rng.choice([v for v in [1.7, 1.25, 2.5, 3.0] if v != n[0]]))
    return nests_def


def check_cnl_full(ctx, res, case, rng, nests_def=None, alpha_mode=None):
    """the cross-nested logit generated on the sample (`GenerateModel.get_cross_nested_logit`):

    * oracle (property statement): with complete sampling of both samples its log likelihood equals
      `models.logcnl` on the full choice set (real engine on both sides);
    * model: `Sampling.cnlSampledLL` evaluated by the Lean driver on the real merged row must agree with
      the engine (complete or partial sampling), `Sampling.fullCnlLL` with `models.logcnl`;
    * the formula the code built (its real signature text) is run by the proved engine model (leanrun).

    Nests carrying the same name: refused by the context (F-C19-3, fixed by 65e2af6); accepted outcomes are a
    BiogemeError or the right likelihood.  Nest parameters are evaluated at their initial value or elsewhere
    (`betas=`); alphas are floats, fixed Betas, or free Betas (which the context must refuse)."""
    from biogeme.expressions import Beta
    from biogeme import models
    from biogeme.nests import OneNestForCrossNestedLogit, NestsForCrossNestedLogit
    from biogeme.sampling_of_alternatives import ChoiceSetsGeneration, GenerateModel

    if nests_def is None:
        nests_def = gen_cnl_nests(rng, case['ids'])
    names = cnl_names(nests_def)
    nests_def = [[float(n[0]), [[int(a), float(w)] for a, w in n[1]], names[j]] + ([float(n[3])] if len(n) > 3 else []) for j, n in enumerate(nests_def)]
    if not nests_def:
        return
    if alpha_mode is None:
        alpha_mode = rng.choice(['float', 'float', 'fixed_beta', 'free_beta']) if rng is not None else 'float'
    mu_at = [n[3] if len(n) > 3 else n[0] for n in nests_def]
    betas = dict(case.get('eval_betas') or {})
    betas.update({f'MU{j}': n[3] for j, n in enumerate(nests_def) if len(n) > 3})
    dup = len(set(names)) < len(names)
    sub = {'kind': 'cnl', 'case': slim(case), 'nests': nests_def, 'alpha_mode': alpha_mode}
    where = F_C19_3_WHERE if dup else 'GenerateModel.get_cross_nested_logit'
    complete = both_complete(case)
    res.tally('cnl:names ' + ('repeated' if dup else 'distinct'))

    res.tally(f'cnl:alphas {alpha_mode}')
    res.tally('cnl evaluated: nest parameters ' + ('away from the initial values' if any(len(n) > 3 for n in nests_def) else 'at the initial values'))
    if any(len(n) > 3 and n[0] == 1.0 for n in nests_def):
        res.tally('cnl evaluated: a nest parameter initial 1 evaluated elsewhere')

    def mk_nests(free_alpha_init=None):
        def alpha(j, a, w):
            if alpha_mode == 'fixed_beta':
                return Beta(f'A{j}_{a}', w, None, None, 1)
            if alpha_mode == 'free_beta':
                # a FREE alpha parameter: initial value 0 (or w), meant to be evaluated / estimated elsewhere
                return Beta(f'A{j}_{a}', w if free_alpha_init is None else free_alpha_init, None, None, 0)
            return w
        return NestsForCrossNestedLogit(choice_set=list(case['ids']), tuple_of_nests=tuple(
            OneNestForCrossNestedLogit(nest_param=Beta(f'MU{j}', n[0], 1.0, None, 0), dict_of_alpha={a: alpha(j, a, w) for a, w in n[1]}, name=n[2])
            for j, n in enumerate(nests_def)))

    if alpha_mode == 'free_beta':
        # the sampled model carries the alphas as DATA (their value when the context is built): free alphas must be
        # refused; if they are accepted, the sampled model evaluated where alpha = its real value must still equal the
        # full model there (alpha initial 0 -> evaluated at its value)
        abetas = {**betas, **{f'A{j}_{a}': w for j, n in enumerate(nests_def) for a, w in n[1]}}
        try:
            with core.scratch():
                context = build_context(case, cnl_nests=mk_nests(free_alpha_init=0.0))
                gen = ChoiceSetsGeneration(context)
                np.random.seed(case['np_seed'])
                db = gen.sample_and_merge(recycle=False)
                ll = GenerateModel(context).get_cross_nested_logit()
                sampled = [float(v) for v in np.atleast_1d(ll.get_value_c(database=db, betas=dict(abetas), prepare_ids=True))]
            ref = full_reference(case, lambda V, choice: models.logcnl(V, None, mk_nests(free_alpha_init=0.0), choice), betas=abetas) if complete else None
        except Exception as e:  # noqa: BLE001
            res.count({'cnl_free_alpha': core.exc_kind(e), 'nests': nests_def}, nontrivial=True)
            if core.exc_kind(e) == 'BiogemeError':
                res.tally('cnl:free alphas refused')
            else:
                res.violate(f'free alpha parameters: {type(e).__name__}: {e}'[:300], sub, core.exc_kind(e), 'BiogemeError or the right likelihood', where=where)
            return
        res.count({'cnl_free_alpha': 'accepted', 'nests': nests_def}, nontrivial=True)
        res.tally('cnl:free alphas accepted')
        if complete:
            for r, (a, b) in enumerate(zip(sampled, ref)):
                if not close(a, b, 1e-8, 1e-8):
                    res.violate('complete sampling, free alpha parameters (initial 0) evaluated at their values: log likelihood of get_cross_nested_logit() '
                                'differs from the cross-nested logit on the full choice set', {**sub, 'row': r}, a, b, where=where)
                    return
        return

    try:
        with core.scratch():
            try:
                context = build_context(case, cnl_nests=mk_nests())
            except Exception as e:  # noqa: BLE001
                if dup and core.exc_kind(e) == 'BiogemeError':
                    res.count({'cnl_refused': nests_def}, nontrivial=True)
                    res.tally('cnl:repeated names refused')
                    return
                raise
            gen = ChoiceSetsGeneration(context)
            np.random.seed(case['np_seed'])
            db = gen.sample_and_merge(recycle=False)
            data = db.data.copy()
            attributes = sorted(context.attributes)
            J, J2 = context.total_sample_size, context.second_sample_size
            ll = GenerateModel(context).get_cross_nested_logit()
            obs = leanrun.observe(ll, db, betas=betas)
            if 'values' not in obs:
                raise RuntimeError(obs.get('error'))
            sampled = obs['values']
        ref = full_reference(case, lambda V, choice: models.logcnl(V, None, mk_nests(), choice), betas=betas) if complete else None
    except Exception as e:  # noqa: BLE001
        res.count({'cnl_raises': sub['nests'], 'seed': case['np_seed']})
        res.violate(f'get_cross_nested_logit / logcnl raises on a valid context: {type(e).__name__}: {e}'[:300], sub, core.exc_kind(e), 'log likelihoods',
                    where=where)
        return
    holder = {'o': obs, 'sub': sub, 'what': 'get_cross_nested_logit', 'sem': [None] * len(sampled), 'where': where if dup else ''}
    if not dup:
        keep_observation(ctx, holder)
    names_cols = list(data.columns)
    lean_nests = [[f2b(mu_at[j]), n[2], [[a, f2b(w)] for a, w in n[1]]] for j, n in enumerate(nests_def)]
    for r, a in enumerate(sampled):
        res.count({'cnl': nests_def, 'segments': case['segments'], 'mev': case['mev']['segments'], 'sizes': [case['sizes'], case['mev']['sizes']],
                   'row': r, 'seed': case['np_seed']}, nontrivial=True)
        if complete:
            res.tally('cnl_full_sample_equiv_checked')
            if not close(a, ref[r], 1e-8, 1e-8):
                res.violate('complete sampling: log likelihood of get_cross_nested_logit() differs from the cross-nested logit on the full choice set',
                            {**sub, 'row': r}, a, ref[r], where=where)
                return
        else:
            res.tally('cnl_partial_sample_model_checked')
        if dup:
            continue
        if not complete:
            # a nest of a sampled alternative without any row in the second sample: 0 ** (1/mu - 1) in the code
            main_ids = [int(fnum(data.iloc[r][f'{case["id_col"]}_{i}'])) for i in range(J)]
            mev_ids = [int(fnum(data.iloc[r][f'{MEV_PREFIX}{case["id_col"]}_{i}'])) for i in range(J2)]
            if any({x for x, _ in n[1]} & set(main_ids) and not {x for x, _ in n[1]} & set(mev_ids) for n in nests_def) or not math.isfinite(a):
                res.tally('cnl_partial_sample_empty_nest_skipped')
                continue
        full_row = [[k, f2b(fnum(data.iloc[r][k]))] for k in names_cols]
        reqs = [{'op': 'cnlll', 'row': full_row, 'attributes': attributes, 'utility': lean_formula(utility_evaluated(case)), 'J': J, 'J2': J2, 'nests': lean_nests}]
        if complete:
            ind_named = [[case['choice_col'], f2b(float(case['choices'][r]))]] + [[k, f2b(case['irows'][r][j])] for j, k in enumerate(case['icols'])]
            reqs.append({'op': 'fullcnlll', 'ind': ind_named, 'alt_cols': case['cols'], 'ids': case['ids'],
                         'alt_rows': [[f2b(v) for v in vals] for vals in case['values']],
                         'combined': [[n, lean_formula(f)] for n, f in case['combined']],
                         'utility': lean_formula(utility_evaluated(case)), 'chosen': case['choices'][r], 'nests': lean_nests})

        def cb(ans, a=a, r=r, ref=ref[r] if complete else None, holder=holder):
            ll_ = ans[0].get('ll')
            if ll_ is None or not close(b2f(ll_), a, 1e-9, 1e-9):
                res.diverge('likelihood of get_cross_nested_logit() (real engine) vs Sampling.cnlSampledLL', {**sub, 'row': r},
                            None if ll_ is None else b2f(ll_), a)
            else:
                holder['sem'][r] = b2f(ll_)
            if ref is not None:
                fl = ans[1].get('ll')
                if fl is None or not close(b2f(fl), ref, 1e-9, 1e-9):
                    res.diverge('logcnl on the full choice set (real engine) vs Sampling.fullCnlLL', {**sub, 'row': r}, None if fl is None else b2f(fl), ref)
                if fl is not None and ll_ is not None and not close(b2f(fl), b2f(ll_), 1e-9, 1e-9):
                    res.diverge('model: cnlSampledLL vs fullCnlLL under complete sampling (theorem cnl_full_sample_equiv on Float)', {**sub, 'row': r},
                                b2f(ll_), b2f(fl))

        ctx.batch.add_many(reqs, cb)


LEANRUN = []
LEANRUN_CAP = {'get_logit': 30, 'get_nested_logit': 20, 'get_cross_nested_logit': 15}


def keep_observation(ctx, holder):
    """a bounded number of observed likelihoods per kind goes to the engine model (the texts are long)"""
    cap = LEANRUN_CAP[holder["what"]] * (1 if getattr(ctx, "quick", True) else 3)
    if sum(1 for h in LEANRUN if h['what'] == holder['what']) < cap:
        LEANRUN.append(holder)


def finish_leanrun(res):
    """after the batch: the REAL signature text of the observed likelihoods (get_logit, get_nested_logit,
    get_cross_nested_logit) is run by the proved model of the engine (C01.engine_reads_text / engine_correct);
    on every row where the semantic Lean model of the generated likelihood is defined and agrees with the real
    engine, the denotation of the formula the code built must agree with both"""
    store = list(LEANRUN)
    del LEANRUN[:]
    if not store:
        return
    leans = leanrun.lean_values([h['o'] for h in store])
    for h, lv in zip(store, leans):
        res.tally(f'leanrun:{h["what"]} observed')
        if lv is None:
            continue
        if isinstance(lv, tuple):
            # operators outside the engine model: observed, not an alarm
            res.tally(f'leanrun:{h["what"]} text not readable by the engine model ({lv[1]})')
            continue
        for r, (v, sem, real) in enumerate(zip(lv, h['sem'], h['o']['values'])):
            if sem is None or not math.isfinite(real):
                res.tally('leanrun: row outside the regular domain or model/engine already reported (skipped)')
                continue
            res.tally(f'leanrun:{h["what"]} formula vs semantic model')
            if isinstance(v, tuple) or not close(v, sem, 1e-9, 1e-9) or not close(v, real, 1e-9, 1e-9):
                res.diverge(f'{h["what"]}: the formula the code built (its signature text run by the engine model) vs the Lean model of the '
                            f'generated likelihood vs the real engine', {**h['sub'], 'row': r}, {'semantic model': sem, 'engine model': v if not isinstance(v, tuple) else list(v)},
                            real, where=h['where'])
                break


# ----------------------------------------------------------------------------- validation streams


def gen_context_case(rng):
    case = gen_case(rng, with_mev=False, size=rng.randint(4, 9))
    case['combined'] = []
    case['utility'] = ['v', case['cols'][0]]
    kind = rng.choice(['valid', 'valid', 'empty_stratum', 'k_gt_n', 'k_zero', 'unknown_alt', 'neg_k', 'short_sizes', 'long_sizes'])
    j = rng.randrange(len(case['segments']))
    raw = False
    if kind == 'empty_stratum':
        case['segments'].insert(j, [])
        case['sizes'].insert(j, rng.choice([0, 1]))
        raw = True
    elif kind == 'k_gt_n':
        case['sizes'][j] = len(case['segments'][j]) + rng.randint(1, 3)
    elif kind == 'k_zero':
        case['sizes'][j] = 0
    elif kind == 'unknown_alt':
        case['segments'][j] = sorted(case['segments'][j] + [rng.choice([401, 999, -3])])
    elif kind == 'neg_k':
        case['sizes'][j] = -rng.randint(1, 3)
    elif kind == 'short_sizes':
        case['sizes'] = case['sizes'][:-1]
        if not case['sizes']:
            kind = 'valid'
            case['sizes'] = [1]
    elif kind == 'long_sizes':
        case['sizes'] = case['sizes'] + [1]
    return case, kind, raw


def check_context(ctx, res, case, kind, raw):
    try:
        build_context(case, raw_partition=raw)
        got = 'ok'
    except Exception as e:  # noqa: BLE001
        got = core.exc_kind(e)
    sub = {'kind': 'context', 'fault': kind, 'raw': raw, 'case': slim(case)}
    res.count({'context': kind, 'segments': case['segments'], 'sizes': case['sizes']}, nontrivial=kind != 'valid')
    res.tally(f'context:{kind}')
    must_refuse = kind in ('empty_stratum', 'k_gt_n', 'k_zero', 'unknown_alt')
    if must_refuse and got != 'BiogemeError':
        res.violate(f'SamplingContext accepts an invalid partition ({kind}) or fails outside the library', sub, got, 'BiogemeError',
                    where='SamplingContext.check_partition')
    if kind == 'valid' and got != 'ok':
        res.violate('SamplingContext refuses a valid partition', sub, got, 'ok', where='SamplingContext.check_partition')

    def cb(ans, got=got, sub=sub):
        m = 'ok' if ans.get('ok') else 'BiogemeError'
        if m != got:
            res.diverge('SamplingContext(...) vs Sampling.checkPartition', sub, ans, got)

    ctx.batch.add({'op': 'context', 'alts': case['ids'], 'segments': case['segments'], 'sizes': case['sizes']}, cb)


PARTITION_KINDS = ['valid', 'valid_nofull', 'overlap', 'overlap_far', 'overlap_chain', 'duplicate_segment', 'overlap_many',
                   'missing', 'extra', 'empty_segment', 'empty_full']


def gen_partition_case(rng):
    """lists of 1-6 segments; the faults are placed at random positions of the list (any pair of
    segments, adjacent or not, first/last, several pairs), with or without a given full set"""
    n = rng.randint(2, 12)
    ids = rng.sample(range(-20, 60), n)
    m = min(rng.choice([1, 2, 3, 3, 4, 4, 5, 6]), n)
    cuts = sorted(rng.sample(range(1, n), m - 1)) if m > 1 else []
    segs = [sorted(ids[a:b]) for a, b in zip([0] + cuts, cuts + [n])]
    rng.shuffle(segs)
    kind = rng.choice(PARTITION_KINDS)
    full = sorted(ids)

    def share(i, j, how_many=1):
        """put `how_many` elements of segment i into segment j as well"""
        for x in rng.sample(segs[i], min(how_many, len(segs[i]))):
            segs[j] = sorted(set(segs[j]) | {x})

    def grow(to):
        # more segments (split off fresh ids) so that distant positions exist
        while len(segs) < to:
            fresh = rng.choice([v for v in range(60, 90) if v not in full])
            full.append(fresh)
            segs.insert(rng.randrange(len(segs) + 1), [fresh])

    if kind == 'valid_nofull':
        full = None
    elif kind == 'overlap':
        grow(2)
        i, j = rng.sample(range(len(segs)), 2)
        share(i, j, rng.choice([1, 1, 2, len(segs[i])]))
    elif kind == 'overlap_far':
        # the two overlapping segments are not neighbours in the list
        grow(rng.choice([3, 3, 4, 5]))
        i = rng.randrange(len(segs))
        far = [j for j in range(len(segs)) if abs(i - j) >= 2]
        if not far:
            i, far = 0, [len(segs) - 1]
        share(i, rng.choice(far), rng.choice([1, 1, 2]))
    elif kind == 'overlap_chain':
        # one element in three segments
        grow(3)
        i, j, k = rng.sample(range(len(segs)), 3)
        x = rng.choice(segs[i])
        segs[j] = sorted(set(segs[j]) | {x})
        segs[k] = sorted(set(segs[k]) | {x})
    elif kind == 'duplicate_segment':
        i = rng.randrange(len(segs))
        segs.insert(rng.randrange(len(segs) + 1), list(segs[i]))
    elif kind == 'overlap_many':
        grow(3)
        for _ in range(rng.randint(2, 3)):
            i, j = rng.sample(range(len(segs)), 2)
            share(i, j)
    elif kind == 'missing':
        full = sorted(full + [97])
    elif kind == 'extra':
        j = rng.randrange(len(segs))
        segs[j] = sorted(segs[j] + [98])
    elif kind == 'empty_segment':
        segs.insert(rng.randrange(len(segs) + 1), [])
    elif kind == 'empty_full':
        full = []
    if full and kind.startswith(('overlap', 'duplicate')) and rng.random() < 0.35:
        full = None  # the union test cannot help: only the intersection test guards
    return {'segments': segs, 'full': None if full is None else sorted(full)}, kind


def small_partition_cases(universe, max_len):
    """bounded-exhaustive: every list of at most `max_len` segments, each any subset of the universe
    (the empty one included), with no full set / the union / the universe as full set"""
    import itertools

    subsets = [[x for b, x in enumerate(universe) if mask >> b & 1] for mask in range(2 ** len(universe))]
    for length in range(max_len + 1):
        for combo in itertools.product(subsets, repeat=length):
            segs = [list(s) for s in combo]
            union = sorted(set().union(*[set(s) for s in segs])) if segs else []
            fulls = [None, sorted(universe)]
            if union and union != sorted(universe):
                fulls.append(union)
            for full in fulls:
                yield {'segments': segs, 'full': full}


def run_partition(pc):
    from biogeme.partition import Partition

    try:
        Partition([set(s) for s in pc['segments']], full_set=None if pc['full'] is None else set(pc['full']))
        return 'ok'
    except Exception as e:  # noqa: BLE001
        return core.exc_kind(e)


def check_partition_case(ctx, res, pc, kind):
    got = run_partition(pc)
    sub = {'kind': 'partition', 'fault': kind, 'case': pc}
    res.count(sub, nontrivial=kind not in ('valid', 'valid_nofull'))
    res.tally(f'partition:{kind}')
    # oracle: a partition = non-empty, pairwise disjoint segments whose union is the full set
    segs = [set(s) for s in pc['segments']]
    full = set(pc['full']) if pc['full'] else set().union(*segs)
    is_partition = all(segs) and sum(len(s) for s in segs) == len(set().union(*segs)) and set().union(*segs) == full
    if is_partition and got != 'ok':
        res.violate('Partition refuses a valid partition', sub, got, 'ok', where='Partition.__init__')
    if not is_partition and got != 'ValueError':
        res.violate(f'Partition accepts what is not a partition ({kind})', sub, got, 'ValueError', where='Partition.__init__')

    def cb(ans, got=got, sub=sub):
        m = 'ok' if ans.get('ok') else 'ValueError'
        if m != got:
            res.diverge('Partition(...) vs Sampling.partitionCheck', sub, ans, got)

    ctx.batch.add({'op': 'partition', 'segments': pc['segments'], 'full': pc['full']}, cb)


def check_segsize(ctx, res, n, m):
    """`generate_segment_size(n, m)` (helper producing the sample sizes of a partition) against the
    model and the oracle: one size per segment, summing to the requested total, as equal as possible"""
    from biogeme.sampling_of_alternatives.sampling_of_alternatives import generate_segment_size

    try:
        got = [int(x) for x in generate_segment_size(n, m)]
    except Exception as e:  # noqa: BLE001
        got = core.exc_kind(e)
    sub = {'kind': 'segsize', 'n': n, 'm': m}
    res.count(sub, nontrivial=not isinstance(got, list) or (m >= 2 and n % m != 0))
    res.tally('segsize:' + ('refused' if not isinstance(got, list) else 'even' if n % m == 0 else 'remainder'))
    if n >= 0 and m > 0:
        if not isinstance(got, list):
            res.violate('generate_segment_size raises on a valid request', sub, got, 'sizes', where='generate_segment_size')
        elif len(got) != m or sum(got) != n or max(got) - min(got) > 1 or min(got) < 0:
            res.violate('generate_segment_size: the sizes do not cover the requested total evenly', sub, got,
                        f'{m} sizes summing to {n}, differing by at most 1', where='generate_segment_size')

    def cb(ans, got=got, sub=sub):
        model = ans.get('ok') if 'ok' in ans else 'ValueError'
        if model != got:
            res.diverge('generate_segment_size vs Sampling.generateSegmentSize', sub, model, got)

    ctx.batch.add({'op': 'segsize', 'n': n, 'm': m}, cb)


# ----------------------------------------------------------------------------- corpus / check / search / replay

CORPUS = [
    # strata of different sizes, sparse ids, chosen in a stratum sampled with k = 1
    {'id_col': 'alt_id', 'ids': [30, 4, 17, 9, 2, 11], 'cols': ['cost', 'a_0'], 'values': [[1.0, 2.0], [2.5, -1.0], [3.0, 0.5], [4.0, 4.0], [0.5, 1.5], [-2.0, 3.0]],
     'int_valued': False, 'segments': [[2, 4, 17], [9, 11, 30]], 'sizes': [1, 3], 'mev': {'segments': [[2, 9], [4, 11, 17, 30]], 'sizes': [1, 2]},
     'choice_col': 'choice', 'icols': ['age'], 'irows': [[2.5], [3.0], [1.25]], 'choices': [17, 30, 2],
     'combined': [['cd', ['*', ['v', 'cost'], ['v', 'age']]], ['c_1', ['+', ['v', 'a_0'], ['*', ['v', 'age'], ['v', 'cost']]]]],
     'utility': ['+', ['*', ['b', 'B1', 0.5], ['v', 'cost']], ['*', ['b', 'B10', -0.25], ['v', 'c_1']]], 'np_seed': 12345},
    # complete sampling, one stratum
    {'id_col': 'ID', 'ids': [7, 3, 12, 0], 'cols': ['x_1'], 'values': [[1.0], [2.0], [-3.0], [0.5]], 'int_valued': False,
     'segments': [[0, 3, 7, 12]], 'sizes': [4], 'mev': None, 'choice_col': 'CHOSEN', 'icols': ['inc'], 'irows': [[1.0], [2.0]], 'choices': [12, 0],
     'combined': [], 'utility': ['*', ['b', 'B', 0.75], ['*', ['v', 'x_1'], ['v', 'inc']]], 'np_seed': 7},
    # shared Variable objects (the usual way of writing a specification), no clashing names
    {'id_col': 'alt_id', 'ids': [30, 4, 17, 9], 'cols': ['a', 'b2'], 'values': [[10.0, 1.0], [20.0, 2.0], [30.0, 3.0], [40.0, 4.0]], 'int_valued': False,
     'segments': [[4, 17], [9, 30]], 'sizes': [2, 1], 'mev': None, 'choice_col': 'choice', 'icols': ['age'], 'irows': [[2.5], [3.0]], 'choices': [17, 4],
     'combined': [['sq', ['+', ['*', ['v', 'a'], ['v', 'a']], ['v', 'b2']]]],
     'utility': ['/', ['+', ['*', ['b', 'b1', 0.5], ['v', 'a']], ['*', ['v', 'a'], ['v', 'age']]], ['c', 64.0]], 'share': True, 'np_seed': 3},
]

# row labels that are not row positions (individuals sorted / shuffled / concatenated / filtered; table of
# alternatives indexed by a name), database taken from the first call, a second call, the recycled file
_LABEL_BASE = {
    'id_col': 'alt_id', 'ids': [12, 3, 21, 7, 2, 15, 10], 'cols': ['cost', 'time'],
    'values': [[2.5, 30.0], [2.0, 20.0], [4.0, 12.0], [0.5, 15.0], [1.5, 10.0], [1.0, 25.0], [3.0, 5.0]], 'int_valued': False,
    'segments': [[2, 3, 7], [10, 12, 15, 21]], 'sizes': [2, 3], 'mev': None, 'choice_col': 'choice', 'icols': ['age'],
    'irows': [[20.0], [30.0], [40.0], [50.0], [60.0]], 'choices': [3, 2, 10, 21, 7],
    'combined': [['at', ['*', ['v', 'age'], ['v', 'time']]]],
    'utility': ['+', ['*', ['b', 'B_cost', -0.75], ['v', 'cost']], ['*', ['b', 'B_at', -0.001953125], ['v', 'at']]], 'np_seed': 11, 'share': False,
}
CORPUS += [
    {**_LABEL_BASE, 'ind_index': [3, 0, 4, 1, 2], 'alt_index': None, 'call': 'first', 'eval_betas': {'B_cost': -0.25, 'B_at': 0.00390625}},
    {**_LABEL_BASE, 'ind_index': [1, 2, 3, 4, 5], 'alt_index': [4, 0, 6, 2, 1, 5, 3], 'call': 'second', 'sizes': [3, 4]},
    {**_LABEL_BASE, 'ind_index': [0, 0, 1, 1, 0], 'alt_index': ['e', 'a', 'g', 'c', 'b', 'f', 'd'], 'call': 'recycle',
     'mev': {'segments': [[2, 3, 7, 10], [12, 15, 21]], 'sizes': [2, 2]}},
    {**_LABEL_BASE, 'ind_index': [10, 12, 15, 11, 40], 'alt_index': [0, 0, 0, 1, 1, 1, 1], 'call': 'first', 'sizes': [3, 4]},
]

# Partition: overlaps between segments that are not neighbours in the list, with / without full set
PARTITION_CORPUS = [
    {'segments': [[21, 4], [9, 30, 17], [11], [4, 2]], 'full': [2, 4, 9, 11, 17, 21, 30]},
    {'segments': [[40, 7], [12], [9, 3], [7]], 'full': None},
    {'segments': [[2], [5, 8], [11], [14], [2, 17]], 'full': [2, 5, 8, 11, 14, 17]},
    {'segments': [[1, 2], [3], [4], [3]], 'full': [1, 2, 3, 4]},
    {'segments': [[1, 2], [3, 4], [5, 6]], 'full': [1, 2, 3, 4, 5, 6]},
]

# nested logit on the sample: one merged database, nest labels distinct / repeated / absent / equal to an
# automatic one, shared nest parameter, plain numbers, old tuple syntax, a singleton nest
_NESTED_CASE = {
    'share': False, 'id_col': 'ID', 'ids': [11, 12, 13, 14, 15, 16, 17], 'cols': ['cost', 'x_1'],
    'values': [[1.5, 0.25], [2.0, 3.5], [4.25, 1.0], [3.0, -2.0], [0.5, 2.75], [2.5, 0.0], [1.0, 1.5]], 'int_valued': False,
    'segments': [[11, 12], [13, 14, 15], [16, 17]], 'sizes': [2, 3, 2], 'mev': {'segments': [[11, 12, 13, 14], [15, 16, 17]], 'sizes': [4, 3]},
    'choice_col': 'choice', 'icols': ['inc'], 'irows': [[1.0], [2.5], [1.75]], 'choices': [13, 16, 11],
    'combined': [['cd', ['*', ['v', 'x_1'], ['v', 'inc']]]],
    'utility': ['/', ['+', ['*', ['b', 'B_cost', -0.75], ['v', 'cost']], ['*', ['b', 'B_d', -0.25], ['v', 'cd']]], ['c', 2.0]], 'np_seed': 2024,
}
NESTED_CORPUS = [
    (_NESTED_CASE, [
        {'syntax': 'objects', 'mu_mode': 'beta', 'nests': [{'mu': 1.75, 'alts': [11, 13, 15], 'name': 'north'}, {'mu': 1.25, 'alts': [12, 16, 17], 'name': 'south'}]},
        {'syntax': 'objects', 'mu_mode': 'beta', 'nests': [{'mu': 1.75, 'alts': [11, 13, 15], 'name': 'zone'}, {'mu': 1.25, 'alts': [12, 16, 17], 'name': 'zone'}]},
        {'syntax': 'objects', 'mu_mode': 'beta', 'nests': [{'mu': 2.0, 'alts': [15, 11], 'name': None}, {'mu': 1.5, 'alts': [17, 12, 14], 'name': 'nest_1'}, {'mu': 3.0, 'alts': [16], 'name': None}]},
        {'syntax': 'objects', 'mu_mode': 'shared', 'nests': [{'mu': 1.5, 'alts': [11, 12], 'name': 'a'}, {'mu': 1.5, 'alts': [13, 17, 16], 'name': 'b'}]},
        {'syntax': 'tuples', 'mu_mode': 'float', 'nests': [{'mu': 1.25, 'alts': [14, 13], 'name': None}, {'mu': 2.0, 'alts': [15, 16, 11], 'name': None}]},
        # nest parameters evaluated away from their initial value 1
        {'syntax': 'objects', 'mu_mode': 'beta', 'nests': [{'mu': 1.0, 'alts': [11, 13, 15], 'name': 'north', 'mu_eval': 1.7}, {'mu': 1.0, 'alts': [12, 16, 17], 'name': 'south', 'mu_eval': 2.5}]},
    ]),
]

# cross-nested logit on the sample, table of alternatives whose labels are a permutation / repeated / strings
CNL_CORPUS = [
    ({**_NESTED_CASE, 'alt_index': ai, 'ind_index': [2, 0, 1]},
     [[1.0, [[11, 1.0], [12, 0.25], [13, 1.0], [14, 0.5]], 'n0', 1.7], [2.0, [[12, 0.75], [14, 0.5], [15, 1.0], [16, 1.0], [17, 1.0]], 'n1']])
    for ai in ([3, 0, 6, 1, 5, 2, 4], [0, 0, 1, 1, 2, 2, 3], ['g', 'a', 'f', 'b', 'e', 'c', 'd'])
]

# input of finding F-C19-1 (fixed in /repo by 883442d; kept as a regression case)
KNOWN_F_C19_1 = {
    'id_col': 'alt_id', 'ids': [30, 4, 17, 9], 'cols': ['a', 'a_0'], 'values': [[10.0, 1.0], [20.0, 2.0], [30.0, 3.0], [40.0, 4.0]], 'int_valued': False,
    'segments': [[4, 17], [9, 30]], 'sizes': [2, 2], 'mev': None, 'choice_col': 'choice', 'icols': ['age'], 'irows': [[2.5], [3.0]], 'choices': [17, 4],
    'combined': [['sq', ['+', ['*', ['v', 'a'], ['v', 'a']], ['v', 'a_0']]]],
    'utility': ['/', ['+', ['*', ['b', 'b1', 0.5], ['v', 'a']], ['*', ['v', 'a'], ['v', 'age']]], ['c', 64.0]], 'share': True, 'np_seed': 3,
}


def gen_known_shape(rng):
    """cases of the listed shape: shared Variable objects + attribute names X and X_<i>"""
    case = gen_case(rng, complete=rng.random() < 0.5, with_mev=False, size=rng.randint(4, 8))
    x = rng.choice(['a', 'cost', 'q'])
    i = rng.choice([0, 0, 1])
    case['cols'] = [x, f'{x}_{i}']
    case['values'] = [[dy(rng), dy(rng)] for _ in case['ids']]
    case['int_valued'] = False
    case['combined'] = [['mix', ['+', ['*', ['v', x], ['v', x]], ['v', f'{x}_{i}']]]] if rng.random() < 0.7 else []
    case['utility'] = ['/', ['+', ['*', ['b', 'B1', 0.5], ['v', x]], ['*', ['v', x], ['v', case['icols'][0]]]], ['c', 64.0]]
    case['share'] = True
    return case


def run_case(ctx, res, case, n_seeds):
    try:
        build_context(case)
    except Exception as e:  # noqa: BLE001
        res.count({'context_raises': case['segments'], 'sizes': case['sizes']})
        res.violate(f'SamplingContext refuses a valid context: {type(e).__name__}: {e}', {'kind': 'context', 'fault': 'valid', 'raw': False, 'case': slim(case)},
                    core.exc_kind(e), 'ok', where='SamplingContext.check_partition')
        return
    check_sampling(ctx, res, case, n_seeds)
    check_merge(ctx, res, case)


def check(ctx) -> Result:
    res = Result(rule=RULE, tolerance='ids, counts, attribute values exact; ln(k/n), n/k, combined variables 1e-12; likelihoods 1e-9 (relative)')
    rng = ctx.rng
    for c in CORPUS:
        run_case(ctx, res, c, 2)
        res.tally('corpus')
    # the listed known finding: its own input first, then the shape (reported only through the finding)
    run_case(ctx, res, KNOWN_F_C19_1, 1)
    for _ in range(ctx.n(3, 30)):
        run_case(ctx, res, gen_known_shape(rng), 1)
        res.tally('known_shape_F-C19-1')
    for _ in range(ctx.n(100, 1000)):
        case = gen_case(rng)
        run_case(ctx, res, case, ctx.n(3, 6))
        if sum(1 for v in res.violations if v.get('where') != F_C19_1_WHERE) > 5:
            break
    # complete sampling on purpose (the equivalence clause)
    for _ in range(ctx.n(40, 400)):
        case = gen_case(rng, complete=True)
        run_case(ctx, res, case, 1)
    # nested / cross-nested logit generated on the sample: complete sampling of both samples (the
    # equivalence clause, real engine on both sides) and partial sampling (Lean model vs engine)
    for case, configs in NESTED_CORPUS:
        check_nested(ctx, res, case, rng, configs=configs)
        res.tally('corpus')
    for k, (case, nests_def) in enumerate(CNL_CORPUS):
        check_cnl_full(ctx, res, case, rng, nests_def=nests_def, alpha_mode=['float', 'fixed_beta', 'free_beta'][k % 3])
        res.tally('corpus')
    done = 0
    for _ in range(ctx.n(60, 900)):
        if done >= ctx.n(12, 150):
            break
        case = gen_case(rng, complete=True, with_mev=True, size=rng.randint(4, 10))
        case['share'] = False
        if case.get('alt_index') is None and rng.random() < 0.5:
            # the memberships / alphas of the nests are columns added to the table of alternatives: labels matter there
            ak = rng.choice(INDEX_KINDS)
            case['alt_index'], case['index_kinds']['alt_index'] = gen_index(rng, len(case['ids']), ak), ak
        res.tally(f'nested/cnl: alternatives index:{index_kind(case, "alt_index")}')
        check_nested(ctx, res, case, rng, n_configs=3)
        if sorted(set().union(*[set(x) for x in case['mev']['segments']])) == sorted(case['ids']):
            check_cnl_full(ctx, res, case, rng)
        done += 1
    for _ in range(ctx.n(6, 60)):
        case = gen_case(rng, complete=False, with_mev=True, size=rng.randint(4, 10))
        case['share'] = False
        check_nested(ctx, res, case, rng, n_configs=2)
        if sorted(set().union(*[set(x) for x in case['mev']['segments']])) == sorted(case['ids']):
            check_cnl_full(ctx, res, case, rng)
    for _ in range(ctx.n(150, 2000)):
        case, kind, raw = gen_context_case(rng)
        check_context(ctx, res, case, kind, raw)
    for n, m in [(10, 3), (2, 5), (0, 3), (7, 7), (7, 1), (-1, 2), (3, 0), (3, -2), (0, 0)]:
        check_segsize(ctx, res, n, m)
    for _ in range(ctx.n(60, 600)):
        check_segsize(ctx, res, rng.choice([rng.randint(-2, 40), rng.randint(0, 400)]), rng.choice([rng.randint(-1, 9), rng.randint(1, 30)]))
    for pc in PARTITION_CORPUS:
        check_partition_case(ctx, res, pc, 'corpus')
    for _ in range(ctx.n(300, 4000)):
        pc, kind = gen_partition_case(rng)
        check_partition_case(ctx, res, pc, kind)
    # bounded-exhaustive: all lists of <= 3 (thorough: 4) segments over a universe of 3 ids, <= 4 over 2 ids
    for universe, max_len in [[(7, -2, 30), ctx.n(3, 4)], [(5, 11), 4]] + ctx.n([], [[(0, 9, 4, 1), 3]]):
        for pc in small_partition_cases(list(universe), max_len):
            check_partition_case(ctx, res, pc, 'small')
    ctx.batch.flush()
    finish_leanrun(res)
    return res


def search(ctx, res, broken):
    """something broke without a concrete failing input: property oracle only, widened stream"""
    rng = core.rng_for('C19-search', ctx.seed)

    class NoBatch:
        def add(self, *a, **k):
            pass

        def add_many(self, *a, **k):
            pass

    class Shim:
        pass

    shim = Shim()
    shim.rng = rng
    shim.batch = NoBatch()
    for _ in range(150):
        r2 = Result()
        case = gen_case(rng, complete=rng.random() < 0.5)
        try:
            run_case(shim, r2, case, 4)
        except Exception as e:  # noqa: BLE001
            res.notes.append(f'search: {type(e).__name__}: {e}')
            continue
        found = list(r2.violations)
        if found:
            res.violations.extend(found[:1])
            return
    for _ in range(40):
        r2 = Result()
        case = gen_case(rng, complete=True, with_mev=True, size=rng.randint(4, 10))
        case['share'] = False
        try:
            check_nested(shim, r2, case, rng, n_configs=3)
            if sorted(set().union(*[set(x) for x in case['mev']['segments']])) == sorted(case['ids']):
                check_cnl_full(shim, r2, case, rng)
        except Exception as e:  # noqa: BLE001
            res.notes.append(f'search: {type(e).__name__}: {e}')
            continue
        found = list(r2.violations)
        if found:
            res.violations.extend(found[:1])
            return
    for _ in range(400):
        r2 = Result()
        case, kind, raw = gen_context_case(rng)
        check_context(shim, r2, case, kind, raw)
        pc, k2 = gen_partition_case(rng)
        check_partition_case(shim, r2, pc, k2)
        check_segsize(shim, r2, rng.randint(0, 60), rng.randint(1, 12))
        found = list(r2.violations)
        if found:
            res.violations.extend(found[:1])
            return


def _replay_nested(shim, res, sub):
    if sub.get('kind') == 'cnl':
        check_cnl_full(shim, res, sub['case'], None, nests_def=sub['nests'], alpha_mode=sub.get('alpha_mode') or 'float')
    else:
        check_nested_full(shim, res, sub['case'], None, nests_def=sub['nests'])


def replay(ctx, obj):
    sub = obj.get('case') or {}
    out = {'replayed': obj.get('what')}
    kind = sub.get('kind')

    class NoBatch:
        def add(self, *a, **k):
            pass

        def add_many(self, *a, **k):
            pass

    class Shim:
        pass

    shim = Shim()
    shim.batch = NoBatch()
    shim.rng = core.rng_for('C19-replay', 0)
    r = Result()
    if kind == 'sample':
        from biogeme.sampling_of_alternatives import SamplingOfAlternatives

        case = sub['case']
        soa = SamplingOfAlternatives(build_context(case))
        np.random.seed(sub['seed'])
        try:
            df = soa.sample_alternatives(chosen=sub['chosen'])
        except Exception as e:  # noqa: BLE001
            out.update({'observed': f'{type(e).__name__}: {e}', 'property_fails': True, 'why': 'raises on a valid context'})
            return out
        ids = [int(v) for v in df[case['id_col']]]
        lps = [fnum(v) for v in df[LOG_PROBA]]
        why = oracle_sample(strata_of(case), sub['chosen'], ids, lps)
        out.update({'observed': {'ids': ids, 'log_proba': lps}, 'property_fails': bool(why), 'why': why})
    elif kind == 'mev':
        from biogeme.sampling_of_alternatives import SamplingOfAlternatives

        case = sub['case']
        soa = SamplingOfAlternatives(build_context(case))
        np.random.seed(sub['seed'])
        try:
            df = soa.sample_mev_alternatives()
        except Exception as e:  # noqa: BLE001
            out.update({'observed': f'{type(e).__name__}: {e}', 'property_fails': True, 'why': 'raises on a valid context'})
            return out
        ids = [int(v) for v in df[case['id_col']]]
        ws = [fnum(v) for v in df[MEV_WEIGHT]]
        why = oracle_mev(strata_of(case, 'mev'), ids, ws)
        out.update({'observed': {'ids': ids, 'weights': ws}, 'property_fails': bool(why), 'why': why})
    elif kind == 'merge':
        check_merge(shim, r, sub['case'])
        out.update({'property_fails': bool(r.violations), 'violations': r.violations[:2]})
    elif kind in ('nested', 'cnl'):
        r2 = Result()
        _replay_nested(shim, r2, sub)
        out.update({'property_fails': bool(r2.violations), 'violations': r2.violations[:2]})
    elif kind == 'context':
        check_context(shim, r, sub['case'], sub['fault'], sub['raw'])
        out.update({'property_fails': bool(r.violations), 'violations': r.violations[:2]})
    elif kind == 'partition':
        check_partition_case(shim, r, sub['case'], sub['fault'])
        out.update({'property_fails': bool(r.violations), 'violations': r.violations[:2]})
    elif kind == 'segsize':
        check_segsize(shim, r, sub['n'], sub['m'])
        out.update({'property_fails': bool(r.violations), 'violations': r.violations[:2]})
    else:
        out.update({'property_fails': False, 'note': 'nothing to replay (no concrete input in this file)'})
    return out
