"""C20 — every deprecated name behaves exactly like the function it points users to.

Tie: translator (T) + correspondence (C), exhaustive over the alias table.

* `translate(ctx)` reads the live `biogeme` package (every module and class with
  `inspect.getattr_static` / `vars`, the `__deprecated__` / `__newname__` marks, the closure cells of
  the wrappers, and - as an independent reading - the `ast` of every source file) and rewrites
  `lean/Generated/Aliases.lean`: the class hierarchy with mro and relevant `__dict__` entries, the 120
  alias definitions, the 19 keyword maps, and `decide +kernel` obligations over the whole table.
* `check(ctx)`:
  (C2) the model of the wrapper (`Model/Dispatch.lean`) against the real `deprecated` /
       `deprecated_parameters` decorators on generated class hierarchies (multiple inheritance,
       overrides, rebinding after the capture, static methods, keyword collisions);
  (C3) the wrapper as a transformer of the process state (`Model/DeprecWorld.lean`) against the real decorators inside generated
       user warning configurations (actions, categories, message patterns, repeated calls from one place, RAISE_EXCEPTION);
  (C4) old names kept by hand (properties of BIOGEME, undecorated functions) found by their spelling on live receivers;
  (C1) for **every** alias slot of **every** class that exposes it (656 slots), on equivalent
       receivers and with arguments from per-signature generators: `old(*args)` against the function
       the *spelling* of the old name designates (never the function the wrapper happens to call):
       result, exception, receiver state afterwards, and exactly one added DeprecationWarning naming
       that function; every obsolete keyword against its replacement.  Around every call the observable state of the
       process is read before and after (warning filters and registries, logging, random generators, module globals and
       class attributes of the package, environment, files of the working directory, log records, printed text): the old
       name must leave exactly what the new name leaves.  The calls run in worker processes that are retired as soon as
       the C++ engine has raised.
"""

from __future__ import annotations

import ast
import importlib
import inspect
import pkgutil
import types
import warnings

# reviewed list of aliases whose old name is not a respelling of the target (old, new)
EXCEPTIONS = [
    ('cnl_avail', 'cnl'),  # "Same as cnl. Maintained for backward compatibility"
    ('logcnl_avail', 'logcnl'),  # "Same as logcnl. Maintained for backward compatibility"
    ('segment_parameter', 'segmented_beta'),  # same signature, same documented purpose (segmentation of a parameter)
]


# reviewed list of obsolete keywords that are not a respelling of their replacement ('' = the keyword is ignored)
KW_EXCEPTIONS = [
    ('parameter_file', 'parameters'),  # BIOGEME(..., parameters=<file name or Parameters object>)
    ('seed_param', 'seed'),  # toml parameter "seed"
    ('bootstrap', 'run_bootstrap'),  # BIOGEME.estimate(run_bootstrap=...)
    ('suggestScales', ''),  # documented as ignored
]


def expected_keyword(u, old):
    """the current name the spelling of an obsolete keyword designates among the parameters of the function
    (None: ignored keyword); raises KeyError when the spelling designates nothing or several names"""
    ex = dict(KW_EXCEPTIONS)
    if old in ex:
        return ex[old] or None
    cands = [p for p in u['params'] + u['extra'] if p != old and norm_name(p) == norm_name(old)]
    if len(cands) != 1:
        raise KeyError(f'{old}: {cands}')
    return cands[0]


def norm_name(s: str) -> str:
    return s.replace('_', '').lower()


def load_modules():
    import biogeme

    mods, fails = {}, []
    with warnings.catch_warnings():
        warnings.simplefilter('ignore')
        for m in pkgutil.walk_packages(biogeme.__path__, 'biogeme.'):
            try:
                mods[m.name] = importlib.import_module(m.name)
            except BaseException as e:  # noqa: BLE001
                fails.append((m.name, f'{type(e).__name__}: {e}'))
    return dict(sorted(mods.items())), fails


def closure_cells(f):
    code = getattr(f, '__code__', None)
    if code is None or f.__closure__ is None:
        return {}
    return dict(zip(code.co_freevars, [c.cell_contents for c in f.__closure__]))


def find_deprecated_wrapper(f):
    """the wrapper made by `deprecated` inside a chain of functools.wraps (or (None, None)); returns (wrapper, {'new_func': captured}).
    The wrapper is recognised by what the decorator leaves on it (`__deprecated__`, `__wrapped__` = the decorated stub) and the
    captured replacement is the function-valued cell of its closure - whatever the closure variables are called, so that a
    rewritten wrapper is still read (and then judged by the obligations and by the calls, not lost by the translator)."""
    for _ in range(10):
        if not isinstance(f, types.FunctionType):
            return None, None
        cells = closure_cells(f)
        stub = getattr(f, '__wrapped__', None)
        if 'obsolete_params' not in cells and getattr(f, '__deprecated__', False):
            if 'new_func' in cells and callable(cells['new_func']):
                return f, {'new_func': cells['new_func']}
            cands = [v for k, v in cells.items() if callable(v) and v is not stub and not inspect.isclass(v) and getattr(v, '__module__', '') != 'warnings']
            named = [v for v in cands if getattr(v, '__name__', None) == getattr(f, '__newname__', None)]
            if len(named) == 1:
                return f, {'new_func': named[0]}
            if len(cands) == 1:
                return f, {'new_func': cands[0]}
        f = stub
    return None, None


def find_params_wrapper(f):
    for _ in range(10):
        if not isinstance(f, types.FunctionType):
            return None, None
        cells = closure_cells(f)
        if 'obsolete_params' in cells and 'func' in cells:
            return f, cells
        f = getattr(f, '__wrapped__', None)
    return None, None


def raw_function(v):
    if isinstance(v, (staticmethod, classmethod)):
        return v.__func__
    return v


def ast_declarations(mods):
    """independent reading of the source: {(module, owner class or '', function name): info}"""
    out = {'deprecated': {}, 'params': {}}
    for name, m in mods.items():
        src_file = getattr(m, '__file__', None)
        if not src_file or not src_file.endswith('.py'):
            continue
        try:
            tree = ast.parse(open(src_file, encoding='utf-8').read())
        except SyntaxError:
            continue

        def visit(body, owner):
            for node in body:
                if isinstance(node, ast.ClassDef):
                    visit(node.body, (owner + '.' if owner else '') + node.name)
                elif isinstance(node, (ast.FunctionDef, ast.AsyncFunctionDef)):
                    for d in node.decorator_list:
                        if not isinstance(d, ast.Call):
                            continue
                        fn = d.func.id if isinstance(d.func, ast.Name) else getattr(d.func, 'attr', None)
                        if fn == 'deprecated':
                            arg = d.args[0] if d.args else next((k.value for k in d.keywords if k.arg == 'new_func'), None)
                            target = arg.id if isinstance(arg, ast.Name) else (arg.attr if isinstance(arg, ast.Attribute) else None)
                            static = any(isinstance(x, ast.Name) and x.id == 'staticmethod' for x in node.decorator_list)
                            out['deprecated'][(name, owner, node.name)] = {'target': target, 'static': static}
                        elif fn == 'deprecated_parameters':
                            arg = d.args[0] if d.args else next((k.value for k in d.keywords if k.arg == 'obsolete_params'), None)
                            try:
                                out['params'][(name, owner, node.name)] = ast.literal_eval(arg)
                            except Exception:  # noqa: BLE001
                                out['params'][(name, owner, node.name)] = 'opaque'

        visit(tree.body, '')
    return out


class _Unknown:
    """stands for a captured replacement the translator could not read"""

    def __init__(self, name):
        self.__name__ = name


class Interner:
    def __init__(self):
        self.ids = {}
        self.keep = []

    def __call__(self, key, obj=None):
        if key not in self.ids:
            self.ids[key] = len(self.ids)
            self.keep.append(obj)  # keeps objects alive so that id() stays unique
        return self.ids[key]


def gather():
    """the alias table of the live package"""
    mods, fails = load_modules()
    decl = ast_declarations(mods)
    classes = {}
    for name, m in mods.items():
        for k, v in vars(m).items():
            if inspect.isclass(v) and (v.__module__ or '').startswith('biogeme'):
                classes[v.__module__ + '.' + v.__qualname__] = v
    classes = dict(sorted(classes.items()))

    # ---- alias definitions
    defs = []  # dicts
    for mname, m in mods.items():
        for k, v in vars(m).items():
            if isinstance(v, types.FunctionType) and getattr(v, '__deprecated__', False) and v.__module__ == mname:
                w, cells = find_deprecated_wrapper(v)
                defs.append({'kind': 'module', 'owner': mname, 'owner_obj': m, 'old': k, 'raw': v, 'wrapper': w, 'cells': cells, 'static': False,
                             'newname': getattr(v, '__newname__', None)})
    for cname, c in classes.items():
        for k, v in vars(c).items():
            f = raw_function(v)
            if isinstance(f, types.FunctionType) and getattr(f, '__deprecated__', False):
                w, cells = find_deprecated_wrapper(f)
                defs.append({'kind': 'class', 'owner': cname, 'owner_obj': c, 'old': k, 'raw': v, 'wrapper': w, 'cells': cells,
                             'static': isinstance(v, staticmethod), 'newname': getattr(f, '__newname__', None)})

    relevant = set()
    for d in defs:
        relevant.add(d['old'])
        if d['newname']:
            relevant.add(d['newname'])
        if d['cells']:
            relevant.add(getattr(d['cells']['new_func'], '__name__', '?'))

    name_id = Interner()
    for n in sorted(relevant):
        name_id(n)
    impl_id = Interner()
    class_id = Interner()

    # ---- hierarchy: every class of the package, every class met in an mro (except object), modules holding aliases
    table_classes = []
    all_cls = {}
    for cname, c in classes.items():
        for k in c.__mro__:
            if k is object:
                continue
            q = k.__module__ + '.' + k.__qualname__
            all_cls.setdefault(q, k)
    for q in sorted(all_cls):
        class_id(q, all_cls[q])
    mod_owner = sorted({d['owner'] for d in defs if d['kind'] == 'module'})
    for q in mod_owner:
        class_id('module:' + q, mods[q])

    def dict_entries(ns):
        out = []
        for n in sorted(relevant):
            if n in ns:
                out.append((name_id(n), impl_id(id(ns[n]), ns[n])))
        return out

    for q in sorted(all_cls):
        k = all_cls[q]
        mro = [class_id(x.__module__ + '.' + x.__qualname__) for x in k.__mro__ if x is not object]
        # a STATIC alias declared inside a class takes no receiver: the replacement its warning names is looked up
        # in the namespace of the module defining the class when the class itself does not have it
        ns = dict(vars(k))
        k_mod = sys.modules.get(k.__module__)
        for d in defs:
            if d['kind'] == 'class' and d['static'] and d['owner_obj'] is k and d['newname'] and d['newname'] not in ns and k_mod is not None \
                    and d['newname'] in vars(k_mod):
                ns[d['newname']] = vars(k_mod)[d['newname']]
        table_classes.append({'id': class_id(q), 'name': q, 'mro': mro, 'dict': dict_entries(ns), 'obj': k, 'is_module': False,
                              'abstract': inspect.isabstract(k)})
    for q in mod_owner:
        cid = class_id('module:' + q)
        table_classes.append({'id': cid, 'name': 'module:' + q, 'mro': [cid], 'dict': dict_entries(vars(mods[q])), 'obj': mods[q], 'is_module': True,
                              'abstract': False})

    aliases = []
    opaque = []
    for d in defs:
        if not d['cells'] or d['newname'] is None:
            # still listed (with a captured function that is nowhere): the table obligations refuse it, its slots are still called
            opaque.append((d['owner'], d['old'], 'wrapper shape not recognised'))
            d['newname'] = d['newname'] or '?'
            name_id(d['newname'])
            new_func = _Unknown(d['newname'])
        else:
            new_func = d['cells']['new_func']
        owner_cid = class_id(('module:' if d['kind'] == 'module' else '') + d['owner'])
        a = {
            'owner': owner_cid, 'owner_name': d['owner'], 'kind': d['kind'], 'old': d['old'], 'new': d['newname'],
            'captured_name': getattr(new_func, '__name__', '?'),
            'oldName': name_id(d['old']), 'wrapper': impl_id(id(d['raw']), d['raw']), 'newName': name_id(d['newname']),
            'capturedName': name_id(getattr(new_func, '__name__', '?')), 'captured': impl_id(id(new_func), new_func),
            'isModule': d['kind'] == 'module', 'isStatic': d['static'], 'new_func': new_func, 'owner_obj': d['owner_obj'],
        }
        # independent reading of the source
        mod_of_owner = d['owner'] if d['kind'] == 'module' else d['owner_obj'].__module__
        cls_q = '' if d['kind'] == 'module' else d['owner_obj'].__qualname__
        src = decl['deprecated'].get((mod_of_owner, cls_q, d['old']))
        a['ast_target'] = None if src is None else src['target']
        aliases.append(a)
    aliases.sort(key=lambda a: (a['owner_name'], a['old']))

    # ---- keyword maps
    kwuses = []

    def scan(owner_name, owner_cid, owner_obj, k, v, mod_name, cls_q):
        w, cells = find_params_wrapper(raw_function(v))
        if not w:
            return
        func = cells['func']
        try:
            sig = inspect.signature(func)
        except (TypeError, ValueError):
            opaque.append((owner_name, k, 'signature not available'))
            return
        params = [p.name for p in sig.parameters.values() if p.kind not in (p.VAR_KEYWORD, p.VAR_POSITIONAL)]
        has_kw = any(p.kind == p.VAR_KEYWORD for p in sig.parameters.values())
        extra = kwargs_sink(owner_name, k) if has_kw else []
        kwuses.append({'owner': owner_cid, 'owner_name': owner_name, 'func': k, 'map': dict(cells['obsolete_params']), 'params': params,
                       'extra': extra, 'has_kw': has_kw, 'ast_map': decl['params'].get((mod_name, cls_q, k)), 'callable': v, 'owner_obj': owner_obj})

    for mname, m in mods.items():
        for k, v in vars(m).items():
            if isinstance(v, types.FunctionType) and v.__module__ == mname:
                scan(mname, class_id('module:' + mname, m), m, k, v, mname, '')
    for cname, c in classes.items():
        for k, v in vars(c).items():
            scan(cname, class_id(cname), c, k, v, c.__module__, c.__qualname__)
    kwuses.sort(key=lambda u: (u['owner_name'], u['func']))
    for u in kwuses:
        for o, n in u['map'].items():
            name_id(o)
            if n:
                name_id(n)
        for p in u['params'] + u['extra']:
            name_id(p)

    return {
        'modules': mods, 'import_failures': fails, 'classes': table_classes, 'aliases': aliases, 'kwuses': kwuses, 'names': dict(name_id.ids),
        'opaque': opaque, 'ast': decl, 'class_ids': dict(class_id.ids), '_keep': (impl_id.keep, class_id.keep),
    }


def kwargs_sink(owner_name, func_name):
    """names a function accepts through **kwargs (only BIOGEME.__init__: the names of the toml parameters)"""
    if owner_name == 'biogeme.biogeme.BIOGEME' and func_name == '__init__':
        from biogeme.default_parameters import all_parameters_tuple

        return sorted({p.name for p in all_parameters_tuple()})
    return []


# --------------------------------------------------------------------------- python mirror of the Lean predicates
# (used only to decide which listed known findings are still present; the Lean `decide` is the obligation)


def py_resolve(T, cid, name_id):
    cls = {c['id']: c for c in T['classes']}
    for k in cls[cid]['mro']:
        d = dict(cls[k]['dict']) if k in cls else {}
        if name_id in d:
            return d[name_id]
    return None


def py_alias_ok(T, a):
    cls = {c['id']: c for c in T['classes']}
    if a['newName'] != a['capturedName']:
        return False
    if dict(cls[a['owner']]['dict']).get(a['newName']) != a['captured']:
        return False
    for c in T['classes']:
        if py_resolve(T, c['id'], a['oldName']) != a['wrapper']:
            continue
        if a['isModule'] or a['isStatic']:
            continue
        if not any(dict(cls[k]['dict']).get(a['newName']) == a['captured'] for k in c['mro'] if k in cls):
            return False
    return True


def slots(T):
    """(class entry, alias) pairs: every class of the table that exposes the alias"""
    out = []
    for a in T['aliases']:
        for c in T['classes']:
            if py_resolve(T, c['id'], a['oldName']) == a['wrapper']:
                out.append((c, a))
    return out


# --------------------------------------------------------------------------- Lean text


def lean_str(s: str) -> str:
    return '"' + s.replace('\\', '\\\\').replace('"', '\\"') + '"'


def render_lean(T, known_bad, n_slots):
    names = sorted(T['names'].items(), key=lambda kv: kv[1])
    L = []
    L.append('/- GENERATED on every run by harness/props/c20.py (translator harness/props/c20_table.py) from the live')
    L.append('   biogeme package.  Do not edit: the file is overwritten.  Data + kernel-checked obligations over it. -/')
    L.append('import Model.Dispatch')
    L.append('import Props.C20')
    L.append('')
    L.append('namespace Generated.Aliases')
    L.append('open Disp')
    L.append('')
    L.append('/-- interned attribute / parameter names -/')
    L.append('def names : List (NameId × List Char) := [')
    L.append(',\n'.join(f'  ({i}, {lean_str(n)}.toList)' for n, i in names))
    L.append(']')
    L.append('')
    L.append('/-- classes of the package (and the modules holding aliases, as one-class hierarchies): id, mro, relevant dict entries -/')
    L.append('def classes : Hier := [')
    rows = []
    for c in T['classes']:
        d = ', '.join(f'({k}, {v})' for k, v in c['dict'])
        rows.append(f'  ⟨{c["id"]}, {c["mro"]}, [{d}]⟩  -- {c["name"]}')
    L.append(',\n'.join(r.split('  --')[0] + ('' if i == len(rows) - 1 else '') for i, r in enumerate(rows)))
    L.append(']')
    L.append('')
    L.append('/- class ids:')
    for c in T['classes']:
        L.append(f'   {c["id"]} = {c["name"]}')
    L.append('-/')
    L.append('')
    L.append('/-- alias definitions: owner, old name, wrapper, name in the warning, name of the captured function, captured function, module?, static? -/')
    L.append('def aliases : List Alias := [')
    rows = []
    for a in T['aliases']:
        rows.append(f'  ⟨{a["owner"]}, {a["oldName"]}, {a["wrapper"]}, {a["newName"]}, {a["capturedName"]}, {a["captured"]}, '
                    f'{str(a["isModule"]).lower()}, {str(a["isStatic"]).lower()}⟩')
    L.append(',\n'.join(rows))
    L.append(']')
    L.append('')
    L.append('/-- listed known findings (owner, old name) that are still present -/')
    L.append('def knownBad : List (ClassId × NameId) := [' + ', '.join(f'({o}, {n})' for o, n in known_bad) + ']')
    L.append('')
    L.append('/-- reviewed exceptions to the spelling rule -/')
    L.append('def exceptions : List (List Char × List Char) := [' + ', '.join(f'({lean_str(o)}.toList, {lean_str(n)}.toList)' for o, n in EXCEPTIONS) + ']')
    L.append('')
    L.append('/-- reviewed exceptions to the spelling rule for obsolete keywords (empty replacement: ignored keyword) -/')
    L.append('def kwExceptions : List (List Char × List Char) := [' + ', '.join(f'({lean_str(o)}.toList, {lean_str(n)}.toList)' for o, n in KW_EXCEPTIONS) + ']')
    L.append('')
    L.append('def kwUses : List KwUse := [')
    rows = []
    nid = T['names']
    for u in T['kwuses']:
        mp = ', '.join(f'({nid[o]}, {"some " + str(nid[n]) if n else "none"})' for o, n in u['map'].items())
        rows.append(f'  ⟨{u["owner"]}, {nid.get(u["func"], 0)}, [{mp}], {[nid[p] for p in u["params"]]}, {[nid[p] for p in u["extra"]]}⟩')
    L.append(',\n'.join(rows))
    L.append(']')
    L.append('')
    theorems = [
        ('aliases_ok', 'checkAliases classes aliases knownBad = true',
         'every alias: the warning names the function that is called, the name resolves to it where the alias lives, and on every class exposing it the dispatch condition holds'),
        ('known_bad_are_bad', 'checkKnownBad classes aliases knownBad = true', 'the listed known findings really violate the condition'),
        ('legacy_ok', 'checkLegacy names exceptions aliases = true', 'every old name is the legacy spelling of its target (or a reviewed exception)'),
        ('kw_ok', 'checkKw kwUses = true', 'keyword maps are injective, target existing parameters, and obsolete names are not parameters'),
        ('kw_legacy_ok', 'checkKwLegacy names kwExceptions kwUses = true',
         'every obsolete keyword is the legacy spelling of its replacement (or a reviewed exception)'),
        ('slot_count', f'countSlots classes aliases = {n_slots}', 'number of (class, alias) slots the correspondence must cover'),
    ]
    for name, stmt, doc in theorems:
        L.append(f'/-- {doc} -/')
        L.append(f'theorem {name} : {stmt} := by decide +kernel')
        L.append('')
    L.append('/-- the generic theorem instantiated with the live table: on every class exposing a (not listed) method alias,')
    L.append('the alias runs exactly what the new name runs on that receiver -/')
    L.append('theorem every_slot_sound (a : Alias) (ha : a ∈ aliases) (hg : isKnownBad knownBad a.owner a.oldName = false)')
    L.append('    (c : Cls) (hc : c ∈ classes) (he : exposes classes c a = true) (hm : a.isModule = false) (hs : a.isStatic = false) :')
    L.append('    aliasCall classes c.id a.newName a.captured = callNew classes c.id a.newName ∧ callNew classes c.id a.newName ≠ none :=')
    L.append('  (C20.table_sound classes aliases knownBad aliases_ok a ha hg).2 c hc he hm hs')
    L.append('')
    L.append('end Generated.Aliases')
    return '\n'.join(L) + '\n', [t[0] for t in theorems] + ['every_slot_sound']


# =========================================================================== the check

import contextlib  # noqa: E402
import copy  # noqa: E402
import io  # noqa: E402
import json  # noqa: E402
import os  # noqa: E402
import pickle  # noqa: E402
import random  # noqa: E402
import re  # noqa: E402
import subprocess  # noqa: E402
import sys  # noqa: E402
import time  # noqa: E402
from pathlib import Path  # noqa: E402

from lib import core  # noqa: E402
from lib.core import Result  # noqa: E402

READY = True
MANIFEST = dict(
    text='Proof (Lean 4): for ALL class hierarchies the repaired wrapper of deprecated.py runs exactly what receiver.new_name(...) runs whenever the captured '
    'function is found in the receiver mro, including subclasses overriding the replacement at ANY depth - intermediate class, leaf, several of them '
    '(C20.dynamic_sound, subclass_override_honoured, override_anywhere_honoured; a wrapper looking only at the receiver\'s own class is refuted on a concrete '
    'three-level hierarchy: shallow_lookup_is_wrong_on_inherited_override); exact conditions for the repaired and for the old captured-call semantics '
    '(wrapper_sound_iff, captured_sound_iff, captured_differs_iff_overridden, repaired_agrees_when_not_overridden). Round 3 - the wrapper as a transformer of '
    'the process state (Model/DeprecWorld.lean: warning filters, default action, registries, delivered warnings, ALL remaining state; RAISE_EXCEPTION branch; '
    'any behaviour of the function objects): calling the old name = emitting the warning, then exactly the call of the new name (alias_is_warning_then_new); '
    'warnings.warn leaves filters, default action and the rest untouched and delivers at most that one warning (warn_touches_only_the_warning_log); a user\'s '
    'ignore / error setting is obeyed (warn_ignored, warn_error, alias_under_ignore_is_new, alias_under_error_raises, alias_raise_switch); a helper forcing '
    'the display is observable (forced_display_is_observable). Argument dimension (Sig / sigAccepts = Signature.bind): the old name accepts exactly the '
    'calls the replacement RESOLVED ON THE RECEIVER accepts, whatever the overrides do to the signature (alias_accepts_iff_resolved_accepts); a wrapper '
    'binding the arguments to the captured signature first is refuted (precheck_on_captured_signature_is_wrong). The keyword wrapper hands the callee the arguments written under the current names with one '
    'warning per obsolete spelling (rename_old_equals_new, rename_new_is_identity, rename_ignored) in an otherwise unchanged process '
    '(warnMany_touches_only_the_warning_log, kw_is_warnings_then_call, kw_current_names_silent); lifting lemma table_sound. Translator: '
    'lean/Generated/Aliases.lean is rewritten on every run from the live package (146 classes, 120 alias definitions, 656 slots, 19 keyword maps) with '
    'decide +kernel obligations (aliases_ok, known_bad_are_bad, legacy_ok, kw_ok, kw_legacy_ok, slot_count) and the instantiated theorem every_slot_sound; '
    'the wrapper is recognised by the marks the decorator leaves, not by the names of its closure variables. Correspondence: exhaustive over the table (every '
    'slot of every class that exposes it, equivalent receivers, per-signature arguments; result, exception, receiver state and attribute names, arguments '
    'afterwards, exactly one DeprecationWarning naming the function the spelling designates, log records, printed text, files of the working directory and the '
    'process-wide state before/after - warnings.filters and registries, logging configuration, numpy/python random generators, numpy/pandas settings, '
    'environment, globals and class attributes of every biogeme module; a third of the slots called a second time on the same receiver); old names kept by '
    'hand (BIOGEME.numberOfThreads/numberOfDraws/generatePickle/freeBetaNames/loglike properties, any undecorated function) found by their spelling on live '
    'receivers, read and written against their replacement; the wrapper model against the real decorators on structured hierarchies (all chains of depth 3-5 '
    'with every subset of levels redefining the replacement, every level as receiver; diamonds) and random ones; the state-transformer model against the '
    'generated hierarchies whose replacements have real signatures widened / narrowed / reordered by the overrides, called with 0-3 positional and keyword '
    'subsets (accepted or TypeError on both sides, same binding; Lean op accepts); every slot also called in the other argument forms generated from the '
    'signature of the replacement resolved on the receiver (defaults omitted, all by keyword, all by position, obsolete keyword spellings of its '
    'deprecated_parameters map); '
    'real wrappers inside generated user warning configurations (6 actions, categories, message patterns, repeated calls from one place, RAISE_EXCEPTION).',
    design='DESIGN.md §5 C20',
    technique='Lean 4 theorems over a dispatch model and a process-state model + table regenerated from the live package with kernel-checked obligations + '
    'exhaustive differential calls with before/after snapshots of the observable process state',
    note='One slot is a listed known finding (FC20a: Database.descriptionOfNativeDraws cannot be called on an instance). Abstract classes and '
    'DefineVariable (constructor always raises) have no instance: their slots are covered by the table obligations and by their concrete subclasses. '
    'BIOGEME.loglike emits no warning: only reading is compared. The attribution of the warning (stacklevel) is not part of the property and not checked.',
)
TRUSTED = [
    'the translator (inspect/ast based) reports the package faithfully; it is cross-checked dynamically: every slot it lists is also called',
    'CPython attribute lookup on types = first class of __mro__ defining the name (resolve in the model); instance-level shadowing is the same expression on both sides',
    'CPython warnings.warn = action of the first matching entry of warnings.filters, else defaultaction; default/module/once consult a registry (warn in '
    'Model/DeprecWorld.lean; compared with the real module on generated configurations)',
    'canonicalisation of results (str() of expressions, masked object addresses, timestamps and progress bars); the process-state snapshot lists what it reads '
    '(global_state in harness/props/c20.py): state outside it (C++ engine internals, other packages\' globals) is not observed',
]
ASSUMPTIONS = ['the replacement of an alias is designated by the spelling of the old name (normalisation: drop "_", lower case) or by the reviewed exception list',
               'an old name without any warning (BIOGEME.loglike) has no "replacement named in its deprecation warning": only reading it is compared']
RULE = ('every (class, alias) slot of the generated table x 1-4 argument tuples from the signature of the replacement; every obsolete keyword; every old name '
        'kept by hand; generated class hierarchies (structured chains/diamonds + random) and generated warning configurations for the wrapper models; '
        'non-trivial = slot whose class differs from the defining class, or call with arguments, or hierarchy with an override, or non-empty filter list')

W_STATIC = 'Database.descriptionOfNativeDraws: method alias without self pointing to a module function'
MATCHERS = {'native_draws_slot': lambda case: isinstance(case, dict) and case.get('old') == 'descriptionOfNativeDraws'}

GEN_FILE = core.LEAN / 'Generated' / 'Aliases.lean'

# classes that cannot have an instance (reason); their slots are covered by the table obligations
NO_INSTANCE = {
    'biogeme.expressions.multiple_expressions.MultipleExpression': 'abstract class (abc)',
    'biogeme.expressions.elementary_expressions.DefineVariable': 'the constructor always raises ("This expression is obsolete")',
}


# --------------------------------------------------------------------------- translate


def known_bad_slots(ctx_findings):
    out = set()
    for f in ctx_findings:
        if f.get('kind') == 'known' and f.get('slot'):
            out.add(tuple(f['slot']))
    return out


def translate(ctx):
    """regenerate lean/Generated/Aliases.lean from the live package, build it, report its obligations"""
    T = gather()
    ctx.table = T
    obligations = []
    sl = slots(T)
    listed = known_bad_slots(ctx.findings)
    still_bad = [(a['owner'], a['oldName']) for a in T['aliases'] if (a['owner_name'], a['old']) in listed and not py_alias_ok(T, a)]
    text, theorem_names = render_lean(T, still_bad, len(sl))
    old = GEN_FILE.read_text() if GEN_FILE.exists() else None
    if old != text:
        GEN_FILE.parent.mkdir(exist_ok=True)
        GEN_FILE.write_text(text)
    # translator-level obligations (the source shapes are recognised, both readings agree)
    n_ast = len(T['ast']['deprecated'])
    obligations.append({'name': 'translator.no_opaque_entry', 'ok': not T['opaque'] and not T['import_failures'],
                        'why': f'unrecognised wrappers / modules: {T["opaque"][:3]} {T["import_failures"][:3]}'})
    obligations.append({'name': 'translator.ast_and_introspection_agree',
                        'ok': n_ast == len(T['aliases']) and all(a['ast_target'] == a['new'] for a in T['aliases'])
                        and len(T['ast']['params']) == len(T['kwuses']) and all(u['ast_map'] == u['map'] for u in T['kwuses']),
                        'why': f'ast: {n_ast} @deprecated / {len(T["ast"]["params"])} @deprecated_parameters; introspection: {len(T["aliases"])} / '
                        f'{len(T["kwuses"])}; differing targets: '
                        f'{[(a["owner_name"], a["old"], a["ast_target"], a["new"]) for a in T["aliases"] if a["ast_target"] != a["new"]][:3]}'})
    ok, log = core.lean_build(['Generated.Aliases'])
    failed = set()
    if not ok:
        lines = text.splitlines()
        starts = {n: next(i for i, l in enumerate(lines, 1) if l.startswith(f'theorem {n} ')) for n in theorem_names}
        for m in re.finditer(r'Generated/Aliases\.lean:(\d+):\d+: error', log):
            ln = int(m.group(1))
            owner = max((n for n in theorem_names if starts[n] <= ln), key=lambda n: starts[n], default=None)
            failed.add(owner or 'Generated.Aliases')
        if not failed:
            failed = set(theorem_names)
        if 'aliases_ok' in failed:
            failed.add('every_slot_sound')
    axioms = {}
    if ok:
        import tempfile

        with tempfile.NamedTemporaryFile('w', suffix='.lean', dir=core.LEAN, delete=False) as tf:
            tf.write('import Generated.Aliases\n')
            for n in theorem_names:
                tf.write(f'#print axioms Generated.Aliases.{n}\n')
            tname = tf.name
        try:
            p = core.lake(['env', 'lean', tname])
            out = (p.stdout or '') + (p.stderr or '')
        finally:
            os.unlink(tname)
        for n in theorem_names:
            m = re.search(r"'Generated\.Aliases\." + n + r"' (does not depend on any axioms|depends on axioms: \[([^\]]*)\])", out, flags=re.S)
            axs = set()
            if m and m.group(2):
                axs = {x.strip() for x in m.group(2).replace('\n', ' ').split(',') if x.strip()}
            axioms[n] = None if not m else axs
    src = core.strip_comments(text)
    forbidden = [l for l in src.splitlines() if core.FORBIDDEN.search(l)]
    for n in theorem_names:
        good = ok and n not in failed and axioms.get(n) is not None and axioms[n] <= core.ALLOWED_AXIOMS and not forbidden
        why = 'does not check: ' + core._first_error(log) if not ok else f'axioms {axioms.get(n)}'
        obligations.append({'name': f'Generated.Aliases.{n}', 'ok': bool(good), 'why': why})
    ctx.table_built = ok
    return obligations


# --------------------------------------------------------------------------- canonicalisation

ADDR = re.compile(r' at 0x[0-9a-fA-F]+')
BIGNUM = re.compile(r'\b\d{9,}\b')
STAMP = re.compile(r'\d{4}-\d{2}-\d{2} \d{2}:\d{2}:\d{2}(\.\d+)?')
CLOCK = re.compile(r'\b\d{1,2}:\d{2}:\d{2}(\.\d+)?\b')
DIGITS = re.compile(r'\d+')


def mask_text(s: str) -> str:
    s = ADDR.sub(' at 0x?', s)
    s = STAMP.sub('<time>', s)
    s = CLOCK.sub('<clock>', s)
    seen = {}

    def ren(m):
        return '#' + str(seen.setdefault(m.group(0), len(seen)))

    return BIGNUM.sub(ren, s)


def canon(o, depth=0, seen=None):
    import numpy as np
    import pandas as pd

    seen = seen if seen is not None else set()
    if o is None or isinstance(o, (bool, int)):
        return o
    if isinstance(o, float):
        return repr(o)
    if isinstance(o, str):
        return mask_text(o)
    if isinstance(o, bytes):
        return mask_text(o.decode('utf-8', 'replace'))
    if isinstance(o, (np.floating, np.integer, np.bool_)):
        return canon(o.item())
    if isinstance(o, np.ndarray):
        return ['nd', list(o.shape), [canon(v) for v in o.ravel().tolist()]]
    if isinstance(o, pd.DataFrame):
        return ['df', [str(c) for c in o.columns], [str(i) for i in o.index], [[canon(v) for v in row] for row in o.to_numpy(dtype=object).tolist()]]
    if isinstance(o, pd.Series):
        return ['series', str(o.name), [str(i) for i in o.index], [canon(v) for v in o.tolist()]]
    if depth > 5:
        return f'<{type(o).__name__}>'
    try:
        import biogeme.expressions as ex

        if isinstance(o, ex.Expression):
            try:
                return ['expr', type(o).__name__, mask_text(str(o))]
            except Exception as e:  # noqa: BLE001
                return ['expr', type(o).__name__, 'str raises ' + type(e).__name__]
    except ImportError:  # pragma: no cover
        pass
    if isinstance(o, dict):
        items = [[canon(k, depth + 1, seen), canon(v, depth + 1, seen)] for k, v in o.items()]
        return ['dict', sorted(items, key=lambda kv: json.dumps(kv[0], default=str))]
    if isinstance(o, (set, frozenset)):
        return ['set', sorted((canon(v, depth + 1, seen) for v in o), key=lambda v: json.dumps(v, default=str))]
    if isinstance(o, (list, tuple)):
        if isinstance(o, list) and o and all(isinstance(v, bytes) for v in o):
            return ['signature', mask_text('\n'.join(v.decode() for v in o))]
        return [type(o).__name__ if hasattr(o, '_fields') else 'seq', [canon(v, depth + 1, seen) for v in o]]
    if callable(o) and not hasattr(o, '__dict__'):
        return '<callable>'
    if isinstance(o, (types.FunctionType, types.MethodType, types.BuiltinFunctionType)) or inspect.isclass(o):
        return f'<{getattr(o, "__qualname__", type(o).__name__)}>'
    if id(o) in seen:
        return f'<cycle {type(o).__name__}>'
    seen.add(id(o))
    d = getattr(o, '__dict__', None)
    if d is None:
        return mask_text(repr(o))[:200]
    return ['obj', type(o).__name__, canon({k: v for k, v in d.items() if not k.startswith('__')}, depth + 1, seen)]


def digest(o):
    return core.canon_hash(o)


def state_of(recv):
    """the part of the receiver an alias may legitimately change (scratch buffers, clocks and caches are left out)"""
    name = type(recv).__name__
    if name == 'BIOGEME':
        P = recv.biogeme_parameters
        return canon({'betas': list(recv.id_manager.free_betas_values), 'bounds': list(recv.id_manager.bounds), 'model': recv.modelName,
                      'threads': recv.number_of_threads, 'params': [[n, P.get_value(n)] for n in sorted(P.parameter_names)],
                      'best': getattr(recv, 'bestIteration', None), 'notes': recv.user_notes})
    if name == 'bioResults':
        d = recv.data
        return canon({'betas': recv.get_beta_values(), 'model': d.modelName, 'html': getattr(d, 'htmlFileName', None), 'f12': getattr(d, 'F12FileName', None),
                      'latex': getattr(d, 'latexFileName', None), 'pickle': getattr(d, 'pickleFileName', None)})
    if name == 'Database':
        return canon({'data': recv.data, 'panel': recv.is_panel(), 'map': getattr(recv, 'individualMap', None), 'name': recv.name,
                      'generators': sorted(getattr(recv, 'number_generators', {}) or {}), 'nvars': len(recv.variables) if hasattr(recv, 'variables') else None})
    import biogeme.expressions as ex

    if isinstance(recv, ex.Expression):
        # no deep walk through an expression after it has been handed to the engine: its own fields only
        def elem(e, acc, depth=0):
            if depth > 12:
                return acc
            for k in ('elementaryIndex', 'betaId', 'variableId', 'drawId', 'rvId', 'initValue', 'status', 'name'):
                if hasattr(e, k):
                    acc.append([type(e).__name__, k, canon(getattr(e, k))])
            for c in list(getattr(e, 'children', []) or []):
                elem(c, acc, depth + 1)
            return acc

        try:
            text = mask_text(str(recv))
        except Exception as e:  # noqa: BLE001
            text = 'str raises ' + type(e).__name__
        return ['expression', type(recv).__name__, text, recv.id_manager is not None, canon(getattr(recv, 'numberOfDraws', None)),
                canon(getattr(recv, 'missingData', None)), canon(getattr(recv, 'fixedBetaValues', None)), elem(recv, [])]
    if name == 'IdManager':
        return canon({'free': list(recv.free_betas.names), 'fixed': list(recv.fixed_betas.names), 'vars': list(recv.variables.names),
                      'draws': list(recv.draws.names), 'rv': list(recv.random_variables.names), 'values': list(recv.free_betas_values),
                      'ndraws': recv.number_of_draws, 'elem': list(recv.elementary_expressions.names)})
    return canon(recv)


# --------------------------------------------------------------------------- state of the process around a call


def _fp(v):
    """cheap fingerprint of a module / class attribute: value of plain data, identity of anything else"""
    if v is None or isinstance(v, (bool, int, float, str, bytes)):
        return repr(v)[:60]
    if isinstance(v, (list, tuple, set, frozenset)) and len(v) <= 12:
        return type(v).__name__ + '[' + ','.join(_fp(x) if (x is None or isinstance(x, (bool, int, float, str))) else f'@{id(x)}' for x in v) + ']'
    if isinstance(v, dict):
        if len(v) <= 12:
            return 'dict{' + ','.join(f'{k!r}:' + (_fp(x) if (x is None or isinstance(x, (bool, int, float, str))) else f'@{id(x)}') for k, x in v.items()) + '}'
        return f'dict#{len(v)}@{id(v)}'
    if isinstance(v, (list, tuple, set, frozenset)):
        return f'{type(v).__name__}#{len(v)}@{id(v)}'
    return f'@{id(v)}'


_IDS = re.compile(r'@\d+')


_BIO_MODS = [-1, []]
_MOD_CACHE = {}


def global_state(light=False):
    """everything process-wide that a call of an old name could leave changed (the receiver and the arguments are observed
    separately): configuration of the warnings module, logging configuration, random generators, numpy / pandas settings,
    environment, working directory and its files, globals and class attributes of every biogeme module"""
    import hashlib
    import logging
    import warnings as w

    import numpy as np

    g = {}
    g['warnings.filters'] = json.dumps([[a, getattr(m, 'pattern', m), getattr(c, '__name__', str(c)), getattr(mod, 'pattern', mod), ln]
                                        for a, m, c, mod, ln in w.filters])
    g['warnings.defaultaction'] = w.defaultaction
    g['warnings.onceregistry'] = json.dumps(sorted(str(k[0])[:60] for k in w.onceregistry))
    g['warnings.showwarning'] = getattr(w.showwarning, '__qualname__', str(type(w.showwarning)))
    g['warnings.formatwarning'] = getattr(w.formatwarning, '__qualname__', str(type(w.formatwarning)))
    g['logging.disable'] = logging.root.manager.disable
    for name, lg in [('root', logging.root)] + sorted(logging.root.manager.loggerDict.items()):
        if isinstance(lg, logging.Logger):
            g['logger:' + name] = json.dumps([lg.level, lg.propagate, lg.disabled, [type(h).__name__ + ':' + str(h.level) for h in lg.handlers],
                                              len(lg.filters)])
    st = np.random.get_state()
    g['numpy.random'] = hashlib.md5(st[1].tobytes()).hexdigest()[:12] + ':' + str(st[2:])
    g['random'] = hashlib.md5(repr(random.getstate()).encode()).hexdigest()[:12]
    g['numpy.seterr'] = json.dumps(np.geterr(), sort_keys=True)
    g['numpy.printoptions'] = json.dumps(np.get_printoptions(), sort_keys=True, default=str)
    raw_env = getattr(os.environ, '_data', None)
    g['environ'] = hash(frozenset(raw_env.items())) & 0xffffffff if raw_env is not None else hashlib.md5(repr(sorted(os.environ.items())).encode()).hexdigest()[:12]
    g['cwd'] = os.getcwd()
    g['sys.path'] = hashlib.md5(repr(sys.path).encode()).hexdigest()[:12]
    g['recursionlimit'] = sys.getrecursionlimit()
    g['excepthook'] = getattr(sys.excepthook, '__qualname__', '?')
    if light:
        return g
    try:
        import pandas as pd

        g['pandas.options'] = json.dumps({k: pd.get_option(k) for k in ('display.max_rows', 'display.max_columns', 'display.width', 'mode.chained_assignment',
                                                                        'display.precision')}, default=str)
    except Exception:  # noqa: BLE001
        pass
    if _BIO_MODS[0] != len(sys.modules):
        _BIO_MODS[0] = len(sys.modules)
        _BIO_MODS[1] = [(mname, m) for mname, m in list(sys.modules.items()) if m is not None and (mname == 'biogeme' or mname.startswith('biogeme.'))]
    for mname, m in _BIO_MODS[1]:
        d = vars(m)
        h = (len(d), hash(tuple(d)), hash(tuple(map(id, d.values()))))
        c = _MOD_CACHE.get(mname)
        if c is None or c[0] != h:
            # names and identities of the module's globals changed since the last look: read them again
            plain, live = {}, []
            for k, v in list(d.items()):
                if k == '__warningregistry__':
                    live.append(k)
                elif k.startswith('__') or isinstance(v, types.ModuleType):
                    continue
                elif isinstance(v, type):
                    plain[f'{mname}.{k}'] = f'@{id(v)}'
                    if v.__module__ == mname:
                        live.append(k)
                elif isinstance(v, (list, dict, set)):
                    live.append(k)  # mutable in place: looked at every time
                elif isinstance(v, types.FunctionType):
                    plain[f'{mname}.{k}'] = f'@{id(v)}'
                else:
                    plain[f'{mname}.{k}'] = _fp(v)
            c = _MOD_CACHE[mname] = (h, plain, live)
        g.update(c[1])
        for k in c[2]:
            v = d.get(k)
            if k == '__warningregistry__':
                g[f'{mname}.__warningregistry__'] = json.dumps(sorted(str(x[0])[:60] for x in (v or {}) if isinstance(x, tuple)))
            elif isinstance(v, type):
                # attributes of the class: names and identities of the values (a rebound method, a counter, a new attribute)
                cd = vars(v)
                g[f'{mname}.{k}.__dict__'] = f'{len(cd)} attributes #{hash(tuple(cd)) & 0xffff}/{hash(tuple(map(id, cd.values()))) & 0xffffffff}'
            else:
                g[f'{mname}.{k}'] = _fp(v)
    return g


def state_delta(before, after):
    """what changed: [key, before, after] (object identities are masked: only the fact that an object was replaced is kept)"""
    out = []
    for k in sorted(set(before) | set(after)):
        if before.get(k) != after.get(k):
            if k in ('numpy.random', 'random'):
                out.append([k, 'advanced to', after.get(k)])  # the seed is set before every call: the final state says how much was consumed
            else:
                out.append([k, _IDS.sub('@obj', str(before.get(k))), _IDS.sub('@obj', str(after.get(k)))])
    return out


def files_here():
    """files of the working directory (each call runs in its own scratch directory): name and masked text"""
    import hashlib

    out = []
    for p in sorted(os.listdir('.')):
        if os.path.isfile(p):
            if p.endswith('.pickle'):
                out.append([BIGNUM.sub('#', p), 'binary'])
                continue
            try:
                out.append([p, hashlib.md5(mask_text(Path(p).read_text(errors='replace')).encode()).hexdigest()[:12]])
            except OSError:
                out.append([p, 'unreadable'])
        else:
            out.append([p + '/', len(os.listdir(p))])
    return out


# --------------------------------------------------------------------------- fixtures

TOML = core.TOML_MINIMAL + '''[SimpleBounds]
max_iterations = 50
[Output]
generate_html = "False"
generate_pickle = "False"
'''


class Env:
    """fresh, deterministic objects for one call"""

    def __init__(self):
        import numpy as np
        import pandas as pd
        import biogeme.database as dbm
        import biogeme.expressions as ex

        self.np, self.pd, self.ex, self.dbm = np, pd, ex, dbm
        self.df = pd.DataFrame({
            'ID': [1, 1, 2, 2, 3, 3], 'X': [0.5, 1.0, 1.5, 2.0, 0.25, 0.75], 'Y': [1.0, 0.5, 2.0, 0.25, 1.5, 1.0],
            'CHOICE': [1, 2, 1, 2, 3, 1], 'AV1': [1, 1, 1, 1, 1, 1], 'AV2': [1, 1, 1, 1, 1, 1], 'AV3': [1, 1, 0, 1, 1, 1],
        })
        self._db = None
        self._pdb = None

    @property
    def db(self):
        if self._db is None:
            self._db = self.dbm.Database('c20', self.df.copy())
        return self._db

    @property
    def pdb(self):
        if self._pdb is None:
            self._pdb = self.dbm.Database('c20p', self.df.copy())
            self._pdb.panel('ID')
        return self._pdb

    # expressions
    def b1(self):
        return self.ex.Beta('b1', 0.5, None, None, 0)

    def b2(self):
        return self.ex.Beta('b2', -0.25, -10, 10, 0)

    def X(self):
        return self.ex.Variable('X')

    def Y(self):
        return self.ex.Variable('Y')

    def util(self):
        return {1: self.b1() * self.X(), 2: self.b2() * self.Y(), 3: self.ex.Numeric(0)}

    def av(self):
        return {1: self.ex.Variable('AV1'), 2: self.ex.Variable('AV2'), 3: self.ex.Variable('AV3')}

    def choice(self):
        return self.ex.Variable('CHOICE')

    def loglike(self):
        from biogeme.models import loglogit

        return loglogit(self.util(), self.av(), self.choice())

    def nests_nl(self):
        from biogeme.nests import OneNestForNestedLogit, NestsForNestedLogit

        return NestsForNestedLogit(choice_set=[1, 2, 3], tuple_of_nests=(OneNestForNestedLogit(nest_param=self.ex.Beta('mu_a', 1.5, 1, 10, 0),
                                                                                                  list_of_alternatives=[1, 2], name='na'),))

    def nests_cnl(self, numeric=False):
        from biogeme.nests import OneNestForCrossNestedLogit, NestsForCrossNestedLogit

        mu_a = 1.5 if numeric else self.ex.Beta('mu_a', 1.5, 1, 10, 0)
        mu_b = 2.0 if numeric else self.ex.Beta('mu_b', 2.0, 1, 10, 0)
        return NestsForCrossNestedLogit(choice_set=[1, 2, 3], tuple_of_nests=(
            OneNestForCrossNestedLogit(nest_param=mu_a, dict_of_alpha={1: 1.0, 2: 0.5}, name='na'),
            OneNestForCrossNestedLogit(nest_param=mu_b, dict_of_alpha={2: 0.5, 3: 1.0}, name='nb')))

    def biogeme(self, name='c20model'):
        import biogeme.biogeme as bio

        B = bio.BIOGEME(self.db, self.loglike())
        B.modelName = name
        B.generate_html = False
        B.generate_pickle = False
        return B

    _raw = None

    def results(self):
        import biogeme.results as res

        if Env._raw is None:
            B = self.biogeme('c20est')
            B.save_iterations = False
            r = B.estimate()
            Env._raw = pickle.dumps(r.data)
        return res.bioResults(the_raw_results=pickle.loads(Env._raw))

    _raw_boot = None

    def results_bootstrap(self):
        """results of an estimation with (3) bootstrap samples: the branches of the replacements that read the bootstrap data"""
        import biogeme.results as res

        if Env._raw_boot is None:
            with core.scratch(TOML + 'bootstrap_samples = 3\n'):
                import numpy as np

                np.random.seed(11)
                B = self.biogeme('c20boot')
                B.save_iterations = False
                r = B.estimate(run_bootstrap=True)
                Env._raw_boot = pickle.dumps(r.data)
        return res.bioResults(the_raw_results=pickle.loads(Env._raw_boot))


def receivers():
    """class qualname -> list of (label, factory(env)); every factory returns a fresh equivalent instance"""
    R = {}

    def add(q, label, f):
        R.setdefault(q, []).append((label, f))

    E = 'biogeme.expressions.'

    def ex(env):
        return env.ex

    add(E + 'base_expressions.Expression', 'bare', lambda e: e.ex.Expression())
    add(E + 'numeric_expressions.Numeric', 'three', lambda e: e.ex.Numeric(3))
    add(E + 'beta_parameters.Beta', 'free', lambda e: e.b1())
    add(E + 'beta_parameters.Beta', 'fixed', lambda e: e.ex.Beta('bfix', 1.25, None, None, 1))
    add(E + 'elementary_expressions.Variable', 'X', lambda e: e.X())
    add(E + 'elementary_expressions.bioDraws', 'normal', lambda e: e.ex.bioDraws('d1', 'NORMAL'))
    add(E + 'elementary_expressions.RandomVariable', 'omega', lambda e: e.ex.RandomVariable('omega'))
    import biogeme.expressions.elementary_expressions as el

    add(E + 'elementary_expressions.Elementary', 'el', lambda e: el.Elementary('el'))
    U = E + 'unary_expressions.'
    import biogeme.expressions.unary_expressions as un
    import biogeme.expressions.binary_expressions as bi
    import biogeme.expressions.comparison_expressions as co
    import biogeme.expressions.nary_expressions as na
    import biogeme.expressions.logit_expressions as lo

    add(U + 'UnaryOperator', 'bare', lambda e: un.UnaryOperator(e.b1() * e.X()))
    add(U + 'UnaryMinus', 'neg', lambda e: -(e.b1() * e.X()))
    add(U + 'exp', 'exp', lambda e: e.ex.exp(e.b1() * e.X()))
    add(U + 'log', 'log', lambda e: e.ex.log(e.X() + 1))
    add(U + 'sin', 'sin', lambda e: e.ex.sin(e.b1() * e.X()))
    add(U + 'cos', 'cos', lambda e: e.ex.cos(e.b1() * e.X()))
    add(U + 'logzero', 'logzero', lambda e: e.ex.logzero(e.X()))
    add(U + 'bioNormalCdf', 'cdf', lambda e: e.ex.bioNormalCdf(e.b1() * e.X()))
    add(U + 'PowerConstant', 'square', lambda e: un.PowerConstant(e.b1() * e.X() + 2, 2.0))
    add(U + 'MonteCarlo', 'mc', lambda e: e.ex.MonteCarlo(e.ex.exp(e.b1() * e.ex.bioDraws('d1', 'NORMAL'))))
    add(U + 'PanelLikelihoodTrajectory', 'traj', lambda e: e.ex.PanelLikelihoodTrajectory(e.ex.exp(e.b1() * e.X())))
    add(U + 'Derive', 'dX', lambda e: e.ex.Derive(e.b1() * e.X() * e.X(), 'X'))
    add(U + 'Integrate', 'int', lambda e: e.ex.Integrate(e.ex.exp(-e.ex.RandomVariable('omega') * e.ex.RandomVariable('omega')) * e.b1(), 'omega'))
    add(U + 'BelongsTo', 'in12', lambda e: e.ex.BelongsTo(e.choice(), {1, 2}))
    Bn = E + 'binary_expressions.'
    add(Bn + 'BinaryOperator', 'bare', lambda e: bi.BinaryOperator(e.b1(), e.X()))
    for nme, f in [('Plus', lambda a, b: a + b), ('Minus', lambda a, b: a - b), ('Times', lambda a, b: a * b), ('Divide', lambda a, b: a / (b + 1)),
                   ('Power', lambda a, b: bi.Power(b + 1, a)), ('bioMin', lambda a, b: bi.bioMin(a, b)), ('bioMax', lambda a, b: bi.bioMax(a, b)),
                   ('And', lambda a, b: (b > 0) & (a > 0)), ('Or', lambda a, b: (b > 1) | (a > 1))]:
        add(Bn + nme, nme, (lambda f: lambda e: f(e.b1(), e.X()))(f))
    Cn = E + 'comparison_expressions.'
    add(Cn + 'ComparisonOperator', 'bare', lambda e: co.ComparisonOperator(e.b1(), e.X()))
    for nme, f in [('Equal', lambda a, b: b == 1), ('NotEqual', lambda a, b: b != 1), ('LessOrEqual', lambda a, b: b <= a),
                   ('GreaterOrEqual', lambda a, b: b >= a), ('Less', lambda a, b: b < a), ('Greater', lambda a, b: b > a)]:
        add(Cn + nme, nme, (lambda f: lambda e: f(e.b1(), e.X()))(f))
    N = E + 'nary_expressions.'
    add(N + 'bioMultSum', 'sum', lambda e: e.ex.bioMultSum([e.b1() * e.X(), e.b2() * e.Y()]))
    add(N + 'Elem', 'elem', lambda e: e.ex.Elem(e.util(), e.choice()))
    add(N + 'bioLinearUtility', 'lin', lambda e: e.ex.bioLinearUtility([na.LinearTermTuple(beta=e.b1(), x=e.X()), na.LinearTermTuple(beta=e.b2(), x=e.Y())]))
    add(N + 'ConditionalSum', 'cond', lambda e: na.ConditionalSum([na.ConditionalTermTuple(condition=e.X() > 1, term=e.b1() * e.X()),
                                                                    na.ConditionalTermTuple(condition=e.Y() > 1, term=e.b2() * e.Y())]))
    Lg = E + 'logit_expressions.'
    add(Lg + 'LogLogit', 'logit', lambda e: lo.LogLogit(e.util(), e.av(), e.choice()))
    add(Lg + '_bioLogLogit', 'logit', lambda e: lo._bioLogLogit(e.util(), e.av(), e.choice()))
    add(Lg + '_bioLogLogitFullChoiceSet', 'logit', lambda e: lo._bioLogLogitFullChoiceSet(e.util(), e.choice()))

    def cat(e):
        from biogeme.catalog import Catalog

        return Catalog('cat', [e.ex.NamedExpression('a', e.b1() * e.X()), e.ex.NamedExpression('b', e.b2() * e.Y())])

    add('biogeme.catalog.Catalog', 'two', cat)
    add('biogeme.database.Database', 'flat', lambda e: e.db)
    add('biogeme.database.Database', 'panel', lambda e: e.pdb)
    add('biogeme.expressions.idmanager.IdManager', 'idm', lambda e: e.ex.IdManager([e.b1() * e.X()], e.db, 0))
    add('biogeme.biogeme.BIOGEME', 'logit', lambda e: e.biogeme())
    add('biogeme.results.bioResults', 'estimated', lambda e: e.results())
    add('biogeme.results.bioResults', 'bootstrapped', lambda e: e.results_bootstrap())
    return R


# expression kinds the C++ engine can build (bioFormula.cc); any other kind makes it throw an uncaught C++ exception that
# terminates the interpreter, so the aliases that reach the engine are called "out of context" on such receivers
ENGINE_KINDS = {'And', 'BelongsTo', 'Beta', 'ConditionalSum', 'Derive', 'Divide', 'Elem', 'Equal', 'Greater', 'GreaterOrEqual', 'Integrate', 'Less',
                'LessOrEqual', 'Minus', 'MonteCarlo', 'NotEqual', 'Numeric', 'Or', 'PanelLikelihoodTrajectory', 'Plus', 'Power', 'PowerConstant',
                'RandomVariable', 'Times', 'UnaryMinus', 'Variable', '_bioLogLogit', '_bioLogLogitFullChoiceSet', 'bioDraws', 'bioLinearUtility', 'bioMax',
                'bioMin', 'bioMultSum', 'bioNormalCdf', 'cos', 'exp', 'log', 'logzero', 'sin', 'Catalog'}


# kinds whose derivative the engine refuses ("is not differentiable"): an exception thrown inside the engine is kept for ever
# (F-E2) and, as observed while building this check, leaves the heap corrupted (later malloc aborts / segfaults), so these
# receivers are never asked for derivatives
NON_DIFFERENTIABLE = {'And', 'Or', 'Equal', 'NotEqual', 'LessOrEqual', 'GreaterOrEqual', 'Less', 'Greater', 'BelongsTo', 'Derive'}


def fo(fields):
    """post-processing of a function output: only the requested quantities (the others are uninitialised memory)"""

    def post(res, r, e):
        out = {}
        inner = getattr(res, 'function_output', res)
        for f in fields:
            v = getattr(res, f, None)
            if v is None:
                v = getattr(inner, f, None)
            out[f] = v
        out['type'] = type(res).__name__
        return out

    return post


# extra receivers used, in the first pass, only for the replacements that read what they add (all of them in the second pass of the thorough tier)
RECEIVER_FOR = {'bootstrapped': {'get_bootstrap_var_covar', 'get_betas_for_sensitivity_analysis', 'get_estimated_parameters', 'get_general_statistics',
                                 'print_general_statistics', 'get_html', 'get_latex', 'get_f12', 'short_summary', 'get_var_covar', 'get_robust_var_covar'}}


def is_expression_class(q):
    return q.startswith('biogeme.expressions.') and not q.endswith('IdManager') or q == 'biogeme.catalog.Catalog'


def arg_specs(owner_q, new_name, is_module):
    """argument tuples for the replacement `new_name` of an alias owned by `owner_q`:
    list of (label, builder(env, recv) -> (args, kwargs), post(result, recv, env) or None, variant)"""
    S = []

    def spec(label, b, post=None, variant=None):
        S.append((label, b, post, variant))

    none = lambda e, r: ((), {})  # noqa: E731
    fn = new_name
    if not is_module and is_expression_class(owner_q):
        pick_db = lambda e, r: e.pdb if type(r).__name__ == 'PanelLikelihoodTrajectory' else e.db  # noqa: E731
        if fn in ('get_value_c', 'get_value_and_derivatives', 'create_function') and owner_q.split('.')[-1] not in ENGINE_KINDS:
            # receiver of a kind the engine does not know: the call stops in python ("evaluated out of context" / no signature)
            if fn == 'create_function':
                spec('no database', lambda e, r: ((None, 4), {'gradient': True, 'hessian': False}))
            else:
                spec('out of context', lambda e, r: ((), {'number_of_draws': 4}))
                spec('out of context kw', lambda e, r: ((), {'prepare_ids': False, 'aggregation': True}))
            return S
        if fn in ('count_panel_trajectory_expressions', 'get_class_name', 'requires_draws', 'get_value'):
            spec('noargs', none)
        elif fn in ('get_signature', 'get_status_id_manager'):
            spec('unprepared', none)
            spec('prepared', none, None, 'prepared')
        elif fn == 'embed_expression':
            spec('Beta', lambda e, r: (('Beta',), {}))
            spec('kw MonteCarlo', lambda e, r: ((), {'t': 'MonteCarlo'}))
        elif fn == 'get_elementary_expression':
            spec('b1', lambda e, r: (('b1',), {}))
            spec('kw unknown', lambda e, r: ((), {'name': 'nope'}))
        elif fn == 'set_id_manager':
            spec('None', lambda e, r: ((None,), {}))
            spec('manager', lambda e, r: ((e.ex.IdManager([r], pick_db(e, r), 3),), {}))
        elif fn == 'get_value_c':
            spec('kw', lambda e, r: ((), {'database': pick_db(e, r), 'prepare_ids': True, 'number_of_draws': 4}))
            spec('positional+aggregation', lambda e, r: ((pick_db(e, r),), {'prepare_ids': True, 'aggregation': True, 'number_of_draws': 4}))
        elif fn in ('get_value_and_derivatives', 'create_function') and owner_q.split('.')[-1] in NON_DIFFERENTIABLE:
            if fn == 'create_function':
                def post0(result, r, e):
                    return fo(['function'])(result(e.np.array(list(r.id_manager.free_betas_values), dtype=float) + 0.125), r, e)

                spec('value only', lambda e, r: ((pick_db(e, r), 4), {'gradient': False, 'hessian': False, 'bhhh': False}), post0)
                spec('value only kw', lambda e, r: ((), {'database': pick_db(e, r), 'number_of_draws': 4, 'gradient': False, 'hessian': False}), post0)
            else:
                spec('value only', lambda e, r: ((), {'database': pick_db(e, r), 'prepare_ids': True, 'gradient': False, 'hessian': False, 'bhhh': False,
                                                       'number_of_draws': 4}), fo(['function']))
                spec('value only named', lambda e, r: ((None, pick_db(e, r), 4, False, False, False), {'prepare_ids': True, 'named_results': True,
                                                                                                       'aggregation': False}), fo(['functions', 'function']))
        elif fn == 'get_value_and_derivatives':
            spec('gradient', lambda e, r: ((), {'database': pick_db(e, r), 'prepare_ids': True, 'gradient': True, 'hessian': False, 'bhhh': False,
                                                 'number_of_draws': 4}), fo(['function', 'gradient']))
            spec('named hessian', lambda e, r: ((None, pick_db(e, r), 4), {'prepare_ids': True, 'named_results': True, 'bhhh': False}),
                 fo(['function', 'gradient', 'hessian']))
        elif fn == 'create_function':
            def post(fields):
                def p(result, r, e):
                    x = e.np.array(list(r.id_manager.free_betas_values), dtype=float) + 0.125
                    return fo(fields)(result(x), r, e)

                return p

            spec('gradient only', lambda e, r: ((pick_db(e, r), 4), {'gradient': True, 'hessian': False, 'bhhh': False}), post(['function', 'gradient']))
            spec('kw all', lambda e, r: ((), {'database': pick_db(e, r), 'number_of_draws': 4, 'gradient': True, 'hessian': True, 'bhhh': True}),
                 post(['function', 'gradient', 'hessian', 'bhhh']))
        return S
    key = (owner_q.split('.')[-1] if not is_module else owner_q.replace('biogeme.', ''), fn)
    np_ = None

    def nparr(e, v):
        return e.np.array(v, dtype=float)

    table = {
        # ---- BIOGEME
        ('BIOGEME', 'calculate_init_likelihood'): [('noargs', none, None, None)],
        ('BIOGEME', 'calculate_likelihood'): [('unscaled', lambda e, r: ((nparr(e, [0.25, -0.5]), False), {}), None, None),
                                              ('scaled kw', lambda e, r: ((), {'x': [0.25, -0.5], 'scaled': True}), None, None)],
        ('BIOGEME', 'calculate_likelihood_and_derivatives'): [
            ('grad', lambda e, r: ((nparr(e, [0.25, -0.5]), False), {}), fo(['function', 'gradient']), None),
            ('hessian bhhh', lambda e, r: ((nparr(e, [0.25, -0.5]),), {'scaled': True, 'hessian': True, 'bhhh': True}),
             fo(['function', 'gradient', 'hessian', 'bhhh']), None)],
        ('BIOGEME', 'calculate_null_loglikelihood'): [('av', lambda e, r: ((e.av(),), {}), None, None)],
        ('BIOGEME', 'check_derivatives'): [('point', lambda e, r: ((nparr(e, [0.25, -0.5]),), {'verbose': False}), None, None)],
        ('BIOGEME', 'confidence_intervals'): [('two', lambda e, r: (([{'b1': 0.5, 'b2': -0.25}, {'b1': 0.25, 'b2': 0.0}, {'b1': 0.75, 'b2': 0.5}],), {'interval_size': 0.5}), None, None)],
        ('BIOGEME', 'get_bounds_on_beta'): [('b2', lambda e, r: (('b2',), {}), None, None), ('kw b1', lambda e, r: ((), {'beta_name': 'b1'}), None, None),
                                            ('unknown', lambda e, r: (('zz',), {}), None, None)],
        ('BIOGEME', 'likelihood_finite_difference_hessian'): [('point', lambda e, r: ((nparr(e, [0.25, -0.5]),), {}), None, None)],
        ('BIOGEME', 'quick_estimate'): [('noargs', none, lambda res, r, e: res.get_beta_values(), None)],
        ('BIOGEME', 'set_random_init_values'): [('default', none, None, None), ('bound', lambda e, r: ((2.0,), {}), None, None)],
        # ---- Database
        ('Database', 'define_variable'): [('new column', lambda e, r: (('NEWV', e.X() * 2 + e.Y()), {}), None, None)],
        ('Database', 'add_column'): [('new column', lambda e, r: ((e.X() * 2 + e.Y(), 'NEWC'), {}), None, None),
                                     ('kw', lambda e, r: ((), {'expression': e.X() - 1, 'column': 'NEWD'}), None, None)],
        ('Database', 'build_panel_map'): [('noargs', none, None, None)],
        ('Database', 'check_availability_of_chosen_alt'): [('av', lambda e, r: ((e.av(), e.choice()), {}), None, None)],
        ('Database', 'choice_availability_statistics'): [('av', lambda e, r: ((e.av(),), {'choice': e.choice()}), None, None)],
        ('Database', 'dump_on_file'): [('noargs', none, lambda res, r, e: [res, Path(res).read_text() if os.path.exists(res) else None], None)],
        ('Database', 'generate_draws'): [('two', lambda e, r: (({'d1': 'NORMAL', 'd2': 'UNIFORM_HALTON3'}, ['d1', 'd2'], 3), {}), None, None)],
        ('Database', 'generate_flat_panel_dataframe'): [('default', none, None, None),
                                                        ('identical', lambda e, r: ((), {'save_on_file': False, 'identical_columns': ['AV1']}), None, None)],
        ('Database', 'get_number_of_observations'): [('noargs', none, None, None)],
        ('Database', 'get_sample_size'): [('noargs', none, None, None)],
        ('Database', 'is_panel'): [('noargs', none, None, None)],
        ('Database', 'sample_individual_map_with_replacement'): [('default', none, None, None), ('size', lambda e, r: ((2,), {}), None, None)],
        ('Database', 'sample_with_replacement'): [('default', none, None, None), ('size kw', lambda e, r: ((), {'size': 4}), None, None)],
        ('Database', 'scale_column'): [('X', lambda e, r: (('X', 0.5), {}), None, None), ('kw', lambda e, r: ((), {'column': 'Y', 'scale': 4.0}), None, None)],
        ('Database', 'set_random_number_generators'): [('custom', lambda e, r: (({'MINE': _rng_tuple(e)},), {}), None, None)],
        ('Database', 'suggest_scaling'): [('default', none, None, None), ('columns', lambda e, r: ((['X', 'Y'],), {'report_all': True}), None, None)],
        ('Database', 'values_from_database'): [('expr', lambda e, r: ((e.X() * 2 + e.Y(),), {}), None, None)],
        ('Database', 'description_of_native_draws'): [('noargs', none, None, None)],
        # ---- IdManager
        ('IdManager', 'set_data'): [('sample', lambda e, r: ((e.df.iloc[:3].copy(),), {}), None, None)],
        ('IdManager', 'set_data_map'): [('sample', lambda e, r: ((e.pdb.individualMap.copy(),), {}), None, None)],
        # ---- bioResults
        ('bioResults', 'get_beta_values'): [('all', none, None, None), ('subset', lambda e, r: ((['b1'],), {}), None, None)],
        ('bioResults', 'get_betas_for_sensitivity_analysis'): [('no bootstrap', lambda e, r: ((['b1', 'b2'],), {'size': 3, 'use_bootstrap': False}), None, None)],
        ('bioResults', 'get_correlation_results'): [('all', none, None, None), ('subset', lambda e, r: ((), {'subset': ['b1', 'b2']}), None, None)],
        ('bioResults', 'get_estimated_parameters'): [('robust', none, None, None), ('all', lambda e, r: ((False,), {}), None, None)],
        ('bioResults', 'get_f12'): [('robust', none, None, None), ('kw', lambda e, r: ((), {'robust_std_err': False}), None, None)],
        ('bioResults', 'get_html'): [('robust', none, None, None), ('all', lambda e, r: ((False,), {}), None, None)],
        ('bioResults', 'get_latex'): [('robust', none, None, None), ('kw', lambda e, r: ((), {'only_robust': False}), None, None)],
        ('bioResults', 'write_f12'): [('robust', none, _files, None)],
        ('bioResults', 'write_html'): [('all', lambda e, r: ((False,), {}), _files, None)],
        ('bioResults', 'write_latex'): [('noargs', none, _files, None)],
        ('bioResults', 'write_pickle'): [('noargs', none, lambda res, r, e: [res, sorted(os.listdir('.'))], None)],
        # ---- module functions
        ('cnl', 'cnl_g'): [('numeric nests', lambda e, r: (([1, 2, 3], e.nests_cnl(numeric=True)), {}), lambda res, r, e: res(e.np.array([1.0, 2.0, 0.5])), None)],
        ('cnl', 'cnl_cdf'): [('numeric nests', lambda e, r: (([1, 2, 3],), {'nests': e.nests_cnl(numeric=True)}), lambda res, r, e: res(e.np.array([0.5, -0.25, 1.0])), None)],
        ('draws', 'get_uniform'): [('3x4', lambda e, r: ((3, 4), {}), None, None), ('symmetric kw', lambda e, r: ((), {'sample_size': 2, 'number_of_draws': 3, 'symmetric': True}), None, None)],
        ('draws', 'get_halton_draws'): [('base3', lambda e, r: ((3, 4), {'base': 3, 'skip': 2}), None, None), ('shuffled', lambda e, r: ((2, 3, True), {'shuffled': True}), None, None)],
        ('draws', 'get_latin_hypercube_draws'): [('3x4', lambda e, r: ((3, 4), {}), None, None), ('given', lambda e, r: ((2, 3), {'symmetric': True, 'uniform_numbers': e.np.arange(6) / 8.0}), None, None)],
        ('draws', 'get_antithetic'): [('uniform', lambda e, r: ((_unif, 3, 4), {}), None, None)],
        ('draws', 'get_normal_wichura_draws'): [('3x4', lambda e, r: ((3, 4), {}), None, None), ('antithetic', lambda e, r: ((2, 4), {'antithetic': True}), None, None)],
        ('models.cnl', 'cnl'): [('av', lambda e, r: ((e.util(), e.av(), e.nests_cnl(), 1), {}), None, None)],
        ('models.cnl', 'logcnl'): [('av', lambda e, r: ((e.util(), e.av(), e.nests_cnl(), e.choice()), {}), None, None),
                                   ('no av kw', lambda e, r: ((e.util(), None), {'nests': e.nests_cnl(), 'choice': 2}), None, None)],
        ('models.cnl', 'get_mev_for_cross_nested'): [('av', lambda e, r: ((e.util(), e.av(), e.nests_cnl()), {}), None, None)],
        ('models.cnl', 'get_mev_for_cross_nested_mu'): [('mu', lambda e, r: ((e.util(), e.av(), e.nests_cnl(), e.ex.Beta('mu', 1.0, 0.5, 2, 0)), {}), None, None)],
        ('models.mev', 'logmev_endogenous_sampling'): [('corr', lambda e, r: ((e.util(), _loggi(e), e.av(), {1: 0.25, 2: 0.5, 3: 0.0}, e.choice()), {}), None, None)],
        ('models.mev', 'mev_endogenous_sampling'): [('corr kw', lambda e, r: ((e.util(), _loggi(e)), {'av': e.av(), 'correction': {1: 0.25, 2: 0.5, 3: 0.0}, 'choice': 1}), None, None)],
        ('models.nested', 'get_mev_for_nested'): [('av', lambda e, r: ((e.util(), e.av(), e.nests_nl()), {}), None, None)],
        ('models.nested', 'get_mev_for_nested_mu'): [('mu', lambda e, r: ((e.util(), None, e.nests_nl(), 1.0), {}), None, None)],
        ('models.nested', 'get_mev_generating_for_nested'): [('av', lambda e, r: ((e.util(), e.av()), {'nests': e.nests_nl()}), None, None)],
        ('models.nested', 'nested_mev_mu'): [('mu', lambda e, r: ((e.util(), e.av(), e.nests_nl(), e.choice(), e.ex.Beta('mu', 1.0, 0.5, 2, 0)), {}), None, None)],
        ('models.nested', 'lognested_mev_mu'): [('mu kw', lambda e, r: ((e.util(), e.av(), e.nests_nl()), {'choice': 2, 'mu': 1.0}), None, None)],
        ('models.piecewise', 'piecewise_variables'): [('X', lambda e, r: (('X', [None, 1.0, 2.0, None]), {}), None, None),
                                                      ('expr', lambda e, r: ((e.X(),), {'thresholds': [0.5, 1.5, 3.0]}), None, None)],
        ('models.piecewise', 'piecewise_formula'): [('auto betas', lambda e, r: (('X', [None, 1.0, 2.0, None]), {}), None, None),
                                                    ('given betas', lambda e, r: ((e.X(), [0.5, 1.5, 3.0]), {'betas': [e.b1(), e.b2()]}), None, None)],
        ('models.piecewise', 'piecewise_function'): [('point', lambda e, r: ((1.75, [0.5, 1.5, 3.0], [2.0, -1.0]), {}), None, None),
                                                     ('kw', lambda e, r: ((), {'x': 0.25, 'thresholds': [None, 1.0, None], 'betas': [1.0, 3.0]}), None, None)],
        ('multiobjectives', 'aic_bic_dimension'): [('results', lambda e, r: ((e.results(),), {}), None, None)],
        ('results', 'calc_p_value'): [('t', lambda e, r: ((1.75,), {}), None, None), ('kw', lambda e, r: ((), {'t': -0.5}), None, None)],
        ('results', 'compile_estimation_results'): [('two', lambda e, r: (({'m1': e.results(), 'm2': e.results()},), {}), None, None),
                                                    ('se', lambda e, r: (({'m1': e.results()},), {'include_robust_stderr': True, 'formatted': False}), None, None)],
        ('segmentation', 'segmented_beta'): [('one', lambda e, r: ((e.b1(), _segs(e)), {}), None, None), ('prefix', lambda e, r: ((e.b2(), _segs(e)), {'prefix': 'seg'}), None, None)],
        ('tools.database', 'count_number_of_groups'): [('ID', lambda e, r: ((e.df.copy(), 'ID'), {}), None, None), ('kw', lambda e, r: ((), {'df': e.df.copy(), 'column': 'CHOICE'}), None, None)],
        ('tools.derivatives', 'findiff_h'): [('quad', lambda e, r: ((_quad, e.np.array([0.5, -1.0])), {}), None, None)],
        ('tools.derivatives', 'check_derivatives'): [('quad', lambda e, r: ((_quad, e.np.array([0.5, -1.0])), {'names': ['p', 'q'], 'logg': False}), None, None)],
        ('version', 'get_version'): [('noargs', none, None, None)], ('version', 'get_html'): [('noargs', none, None, None)],
        ('version', 'get_text'): [('noargs', none, None, None)], ('version', 'get_latex'): [('noargs', none, None, None)],
    }
    for k in ('get_bootstrap_var_covar', 'get_general_statistics', 'get_robust_var_covar', 'get_var_covar', 'number_of_free_parameters',
              'print_general_statistics', 'short_summary'):
        table[('bioResults', k)] = [('noargs', none, None, None)]
    return table.get(key, [])


def _files(res, r, e):
    return [res, {p: mask_text(Path(p).read_text(errors='replace')) for p in sorted(os.listdir('.')) if p != 'biogeme.toml' and os.path.isfile(p)
                  and not p.endswith('.pickle')}]


def _unif(sample_size, number_of_draws):
    import numpy as np

    return (np.arange(sample_size * number_of_draws, dtype=float).reshape(sample_size, number_of_draws) + 0.5) / (sample_size * number_of_draws)


def _rng_tuple(e):
    from biogeme.native_draws import RandomNumberGeneratorTuple

    return RandomNumberGeneratorTuple(generator=_unif, description='deterministic grid')


def _loggi(e):
    return {1: e.ex.log(e.X() + 1), 2: e.ex.Numeric(0.5), 3: e.ex.Numeric(0)}


def _segs(e):
    from biogeme.segmentation import DiscreteSegmentationTuple

    return (DiscreteSegmentationTuple(variable='CHOICE', mapping={1: 'one', 2: 'two', 3: 'three'}, reference='two'),)


def _quad(x):
    import numpy as np
    from biogeme.function_output import FunctionOutput

    a = np.array([[2.0, 0.5], [0.5, 1.0]])
    return FunctionOutput(function=float(0.5 * x @ a @ x), gradient=a @ x, hessian=a)


# --------------------------------------------------------------------------- calling


def expected_new(T, cls_entry, alias):
    """the replacement the *spelling* of the old name designates, looked up where the alias is reached from:
    returns (kind, name) with kind 'attr' (attribute of the class / module) or 'module' (function of the class's module)"""
    old = alias['old']
    ex = dict(EXCEPTIONS)
    ns = cls_entry['obj']
    names = [n for n in dir(ns) if n != old]
    cands = []
    for n in names:
        if n == ex.get(old) or (norm_name(n) == norm_name(old) and old not in ex):
            try:
                v = inspect.getattr_static(ns, n)
            except AttributeError:
                continue
            f = raw_function(v)
            if callable(f) and not getattr(f, '__deprecated__', False):
                cands.append(n)
    if len(cands) == 1:
        return 'attr', cands[0]
    if not cands and not cls_entry['is_module']:
        mod = sys.modules.get(cls_entry['obj'].__module__)
        c2 = [n for n in vars(mod) if n != old and norm_name(n) == norm_name(old) and callable(vars(mod)[n])
              and not getattr(vars(mod)[n], '__deprecated__', False)]
        if len(c2) == 1:
            return 'module', c2[0]
    return None, cands


def _printed(text):
    """text written on a stream: progress bars (redrawn at a pace that depends on the clock) are left out, numbers are masked"""
    lines = [l for l in re.split(r'[\r\n]+', text) if l.strip() and not re.search(r'\d+%\|', l) and 'it/s' not in l]
    return DIGITS.sub('#', mask_text('\n'.join(lines)))[-400:]


def one_call(fn, args, kwargs, recv, post, env, seed):
    """outcome of one call: result / exception, receiver state, warnings"""
    import numpy as np
    import warnings as w

    np.random.seed(seed)
    random.seed(seed)
    out = {}
    import logging

    records = []

    class _Collect(logging.Handler):
        def emit(self, record):
            try:
                records.append([record.name, record.levelname, DIGITS.sub('#', mask_text(record.getMessage()))[:120]])
            except Exception as e:  # noqa: BLE001
                records.append([record.name, record.levelname, 'message raises ' + type(e).__name__])

    collect = _Collect(level=logging.INFO)
    with w.catch_warnings(record=True) as rec:
        w.simplefilter('always')
        buf, ebuf = io.StringIO(), io.StringIO()
        # what the call writes to the log (the worker silences logging; it is listened to during the call, identically on both sides)
        was_disabled, root_level = logging.root.manager.disable, logging.root.level
        logging.disable(logging.NOTSET)
        logging.root.setLevel(logging.INFO)
        logging.root.addHandler(collect)
        try:
            g0 = global_state()
            try:
                with contextlib.redirect_stdout(buf), contextlib.redirect_stderr(ebuf):
                    res = fn(*args, **kwargs)
                    g1 = global_state()  # before the post-processing of the result (which may itself use the library)
                    n_rec = len(records)
                    if post is not None:
                        res = post(res, recv, env)
                out['result'] = canon(res)
            except Exception as e:  # noqa: BLE001
                out['exc'] = core.exc_kind(e)
                out['exc_text'] = mask_text(str(e))[:160]
                g1 = global_state()
                n_rec = len(records)
        finally:
            logging.root.removeHandler(collect)
            logging.root.setLevel(root_level)
            logging.disable(was_disabled)
        out['log'] = records[:n_rec]
        out['printed'] = [_printed(buf.getvalue()), _printed(ebuf.getvalue())]
        # read inside the block: `catch_warnings` puts the filters back on exit and would hide a change made by the call
        out['globals'] = state_delta(g0, g1)
    try:
        out['files'] = files_here()
    except OSError as e:
        out['files'] = 'listing raises ' + type(e).__name__
    out['dep'] = [str(x.message) for x in rec if issubclass(x.category, DeprecationWarning)]
    out['other_warnings'] = sorted(mask_text(str(x.message))[:80] for x in rec if not issubclass(x.category, DeprecationWarning))
    try:
        out['state'] = digest(state_of(recv)) if recv is not None else None
    except Exception as e:  # noqa: BLE001
        out['state'] = 'state raises ' + type(e).__name__
    out['args_after'] = digest(canon([args, kwargs]))
    d = getattr(recv, '__dict__', None)
    out['attrs'] = sorted(d) if isinstance(d, dict) else None  # names only: an attribute planted on the receiver by the old name
    return out


def engine_alive():
    import biogeme.expressions as ex

    try:
        ex.Numeric(1).get_value_c(prepare_ids=True)
        return True
    except Exception:  # noqa: BLE001
        return False


def compare(old, new, old_name, want_new):
    """list of differences between the outcome of the old name and of the replacement"""
    diffs = []
    msg = f'{old_name} is deprecated; use {want_new} instead.'
    if 'exc' in old or 'exc' in new:
        if old.get('exc') != new.get('exc'):
            diffs.append(('exception', old.get('exc', 'returns') + ': ' + old.get('exc_text', ''), new.get('exc', 'returns') + ': ' + new.get('exc_text', '')))
    elif old['result'] != new['result']:
        diffs.append(('result', old['result'], new['result']))
    if old['state'] != new['state']:
        diffs.append(('receiver state', old['state'], new['state']))
    if old['args_after'] != new['args_after']:
        diffs.append(('arguments after the call', old['args_after'], new['args_after']))
    if old.get('attrs') != new.get('attrs'):
        diffs.append(('attributes of the receiver after the call', sorted(set(old.get('attrs') or []) - set(new.get('attrs') or [])),
                      sorted(set(new.get('attrs') or []) - set(old.get('attrs') or []))))
    added = list(old['dep'])
    for m in new['dep']:
        if m in added:
            added.remove(m)
    if added != [msg]:
        diffs.append(('warnings added by the old name', added, [msg]))
    if old['other_warnings'] != new['other_warnings']:
        diffs.append(('other warnings', old['other_warnings'], new['other_warnings']))
    if ('second' in old or 'second' in new):
        o2, n2 = dict(old.get('second') or {}), dict(new.get('second') or {})
        if o2.pop('n_dep', 0) - n2.pop('n_dep', 0) != 1 and 'exc' not in o2 and 'exc' not in n2:
            diffs.append(('second call on the same receiver: warnings added by the old name', 'not exactly one', [msg]))
        if o2 != n2:
            diffs.append(('second call on the same receiver', {k: v for k, v in o2.items() if n2.get(k) != v}, {k: v for k, v in n2.items() if o2.get(k) != v}))
    if old.get('log') != new.get('log'):
        diffs.append(('records written to the log', [x for x in old.get('log') or [] if x not in (new.get('log') or [])][:4],
                      [x for x in new.get('log') or [] if x not in (old.get('log') or [])][:4]))
    if old.get('printed') != new.get('printed'):
        diffs.append(('text printed on stdout / stderr', old.get('printed'), new.get('printed')))
    if old.get('globals') != new.get('globals'):
        diffs.append((GLOBAL_DIFF, [x for x in old.get('globals') or [] if x not in (new.get('globals') or [])],
                      [x for x in new.get('globals') or [] if x not in (old.get('globals') or [])]))
    if old.get('files') != new.get('files'):
        diffs.append((FILES_DIFF, old.get('files'), new.get('files')))
    return diffs


FILES_DIFF = 'files left in the working directory'
GLOBAL_DIFF = 'process-wide state left changed (warning filters / logging / random generators / module globals / environment)'


VOLATILE_DIFFS = (GLOBAL_DIFF, FILES_DIFF)


def slot_list(T):
    """deterministic list of slots with what is needed to call them"""
    R = receivers()
    out = []
    for c, a in slots(T):
        kind, want = expected_new(T, c, a)
        out.append({'cls': c['name'], 'owner': a['owner_name'], 'old': a['old'], 'declared_new': a['new'], 'want_kind': kind,
                    'want': want, 'is_module': c['is_module'], 'abstract': c['abstract'],
                    'receivers': [lab for lab, _ in R.get(c['name'], [])] if not c['is_module'] else ['module']})
    return out


def run_slot_call(T_by, R, s, recv_label, spec, seed, mark=None, sides=('old', 'new'), twice=False):
    """one (slot, receiver, argument spec): outcomes of the old name and of the designated replacement"""
    label, builder, post, variant = spec
    cls_entry = T_by[s['cls']]
    outs = {}
    for side in sides:
        if mark:
            mark(side)
        with core.scratch(TOML):
            env = Env()
            env.np.random.seed(seed + 17)
            random.seed(seed + 17)
            try:
                if s['is_module']:
                    recv = None
                    target = getattr(cls_entry['obj'], s['old'] if side == 'old' else s['want'])
                else:
                    fac = dict(R[s['cls']])[recv_label]
                    recv = fac(env)
                    if variant == 'prepared':
                        recv.prepare(env.db, 0)
                    if side == 'old':
                        target = getattr(recv, s['old'])
                    elif s['want_kind'] == 'attr':
                        target = getattr(recv, s['want'])
                    else:
                        target = getattr(sys.modules[cls_entry['obj'].__module__], s['want'])
                args, kwargs = builder(env, recv)
            except _SameForm:
                return {'old': {'no_such_form': True}, 'new': {'no_such_form': True}}
            except Exception as e:  # noqa: BLE001  (the receiver / the arguments cannot be built: same on both sides)
                outs[side] = {'exc': 'setup ' + core.exc_kind(e), 'exc_text': mask_text(str(e))[:160], 'dep': [], 'other_warnings': [], 'state': None,
                              'args_after': None, 'setup_failed': True}
                continue
            outs[side] = one_call(target, args, kwargs, recv, post, env, seed)
            if 'exc' in outs[side] and not engine_alive():
                outs[side]['poisoned'] = True
                return outs
            if twice and not s['is_module'] and 'exc' not in outs[side]:
                # the same name once more on the SAME receiver (fresh arguments): whatever an old name keeps from its first call shows here
                try:
                    args2, kwargs2 = builder(env, recv)
                    target2 = getattr(recv, s['old']) if side == 'old' else (getattr(recv, s['want']) if s['want_kind'] == 'attr' else target)
                except Exception as e:  # noqa: BLE001
                    outs[side]['second'] = {'exc': 'setup ' + core.exc_kind(e)}
                    continue
                o2 = one_call(target2, args2, kwargs2, recv, post, env, seed + 1)
                outs[side]['second'] = {k: o2.get(k) for k in ('result', 'exc', 'state', 'globals', 'log') if k in o2}
                outs[side]['second']['n_dep'] = len(o2['dep'])
                if 'exc' in o2 and not engine_alive():
                    outs[side]['poisoned'] = True
                    return outs
    return outs


class _SameForm(Exception):
    """the requested argument form does not exist for this call (or is the call already made)"""


ENGINE_FUNCS = ('get_value_c', 'get_value_and_derivatives', 'create_function')


def resolved_replacement(s, recv):
    """the function the new name designates ON THE RECEIVER (never the one the wrapper captured), and whether it takes the receiver"""
    if s['is_module']:
        return vars(sys.modules[s['cls'].replace('module:', '')])[s['want']], False
    if s['want_kind'] == 'module':
        return vars(sys.modules[type(recv).__module__])[s['want']], False
    static = inspect.getattr_static(type(recv), s['want'])
    return raw_function(static), not isinstance(static, staticmethod)


def argument_form(form, s, recv, args, kwargs):
    """another way of writing the same call, generated from the signature of the replacement resolved on the receiver:
    'minimal' (every argument that has a default is left out), 'keywords' (everything by keyword), 'positional' (everything by
    position), 'oldkw' (the keywords the replacement still accepts under an obsolete spelling are written with that spelling)"""
    f, takes_recv = resolved_replacement(s, recv)
    try:
        sig = inspect.signature(f)
        ba = sig.bind(*(((recv,) if takes_recv else ()) + tuple(args)), **kwargs)
    except (TypeError, ValueError):
        raise _SameForm() from None
    params = list(sig.parameters.values())[1 if takes_recv else 0:]
    if any(p.kind in (p.VAR_POSITIONAL, p.POSITIONAL_ONLY) for p in params):
        raise _SameForm()
    given = [(p, ba.arguments[p.name]) for p in params if p.name in ba.arguments and p.kind != p.VAR_KEYWORD]
    extra = dict(ba.arguments.get(next((p.name for p in params if p.kind == p.VAR_KEYWORD), ''), {}) or {})
    n_pos = len(args)
    if form == 'minimal':
        keep = [(p, v) for p, v in given if p.default is p.empty]
        new_args = tuple(v for p, v in keep if params.index(p) < n_pos)
        if len(new_args) != sum(1 for p in params[:len(new_args)] if p.default is p.empty):
            raise _SameForm()
        out = (new_args, {p.name: v for p, v in keep if params.index(p) >= n_pos})
    elif form == 'keywords':
        out = ((), {**{p.name: v for p, v in given}, **extra})
    elif form == 'positional':
        names = [p.name for p, _ in given]
        if names != [p.name for p in params[:len(names)]] or extra or any(p.kind == p.KEYWORD_ONLY for p, _ in given):
            raise _SameForm()
        out = (tuple(v for _, v in given), {})
    elif form == 'oldkw':
        w_, cells = find_params_wrapper(f)
        inverse = {n: o for o, n in (cells['obsolete_params'].items() if w_ else []) if n}
        first = next((k for k, (p, _) in enumerate(given) if p.name in inverse), None)
        if first is None:
            raise _SameForm()
        keep_pos = min(n_pos, first)
        out = (tuple(v for _, v in given[:keep_pos]), {**{inverse.get(p.name, p.name): v for p, v in given[keep_pos:]}, **extra})
    else:
        raise _SameForm()
    if (tuple(out[0]), dict(out[1])) == (tuple(args), dict(kwargs)) and list(out[1]) == list(kwargs):
        raise _SameForm()
    return out


def specs_for(s, seed=0, all_forms=False):
    """the argument tuples of a slot: the hand-written ones, then the same calls written in the other forms the RECEIVER's replacement
    accepts (defaults omitted, by keyword, by position, obsolete keyword spellings); a form that does not exist for a call is skipped
    when the call is about to be made"""
    owner_q = s['owner'] if not s['is_module'] else s['cls'].replace('module:', '')
    base = arg_specs(owner_q if s['is_module'] else s['cls'] if is_expression_class(s['cls']) else s['owner'], s['want'], s['is_module'])
    out = list(base)

    def derived(spec, form):
        label, builder, post, variant = spec
        return (label + ' / ' + form, lambda e, r: argument_form(form, s, r, *builder(e, r)), post, variant)

    engine = (not s['is_module']) and is_expression_class(s['cls']) and s['want'] in ENGINE_FUNCS
    rotate = all_forms or (sum(map(ord, s['cls'] + s['old'])) + seed) % 4 == 0
    for k, spec in enumerate(base):
        if spec[0] in ('out of context', 'out of context kw', 'no database'):
            continue
        forms = ['oldkw'] + ([] if engine or k > 0 else ['minimal'] + (['keywords', 'positional'] if rotate else []))
        out += [derived(spec, f) for f in forms]
    return out


def worker(payload):
    """runs in a fresh interpreter: slots from payload['start'] on.  Every finished slot and every call about to be made
    is appended to payload['progress'], so that the parent knows where it was if the engine kills the process; the
    worker stops by itself as soon as the engine has raised (stale exception kept by the engine)."""
    import warnings as w

    w.simplefilter('ignore')
    import logging

    logging.disable(logging.CRITICAL)
    T = gather()
    T_by = {c['name']: c for c in T['classes']}
    R = receivers()
    S = slot_list(T)
    prog = open(payload['progress'], 'a')

    def emit(o):
        prog.write(json.dumps(o, default=str) + '\n')
        prog.flush()
        os.fsync(prog.fileno())

    skip_to = tuple(payload['skip_to']) if payload.get('skip_to') else None
    only = payload.get('only')
    i = payload['start']
    while i < len(S):
        s = S[i]
        entry = {'i': i, 'calls': 0, 'both_raise': 0, 'mismatch': [], 'skipped': None}
        if s['want_kind'] is None:
            entry['skipped'] = f'no unique replacement designated by the spelling: {s["want"]}'
        elif not s['is_module'] and not s['receivers']:
            entry['skipped'] = 'no instance: ' + NO_INSTANCE.get(s['cls'], 'NO FACTORY')
        else:
            specs = specs_for(s, payload['seed'], bool(payload.get('twice_all')))
            if not specs:
                entry['skipped'] = 'NO ARGUMENT SPEC'
            for ri, rl in enumerate(s['receivers']):
                if rl in RECEIVER_FOR and s['want'] not in RECEIVER_FOR[rl] and not payload.get('twice_all') and ri > 0:
                    continue  # an extra receiver kept (first pass) for the replacements whose branches it opens
                for si, spec in enumerate(specs):
                    if skip_to and (i, ri, si) < skip_to:
                        continue
                    twice = bool(payload.get('twice_all')) or (i + payload['seed']) % 3 == 0
                    outs = run_slot_call(T_by, R, s, rl, spec, payload['seed'] + si, mark=lambda side: emit({'about': [i, ri, si, side]}), twice=twice)
                    if outs['old'].get('no_such_form'):
                        continue
                    if ' / ' in spec[0]:
                        entry['forms'] = entry.get('forms', []) + [spec[0].rsplit(' / ', 1)[1]]
                    if twice and all('second' in o for o in outs.values()):
                        entry['second_calls'] = entry.get('second_calls', 0) + 1
                    if any(o.get('poisoned') for o in outs.values()):
                        emit({'entry': entry})
                        emit({'poisoned_at': [i, ri, si]})
                        return {'done': False}
                    if outs['old'].get('setup_failed') and outs['new'].get('setup_failed'):
                        entry['setup_failed'] = entry.get('setup_failed', 0) + 1
                        entry['setup_error'] = outs['old']['exc'] + ': ' + outs['old']['exc_text']
                        continue
                    entry['calls'] += 1
                    if 'exc' in outs['old'] and 'exc' in outs['new']:
                        entry['both_raise'] += 1
                    d = compare(outs['old'], outs['new'], s['old'], s['want'])
                    if d and any(x[0] in VOLATILE_DIFFS for x in d):
                        # process-wide state / files: a difference counts only if it is there again when the pair is repeated
                        # (a cache filled by whichever side happens to run first in this interpreter is not a difference)
                        entry['repeated'] = entry.get('repeated', 0) + 1
                        entry['repeated_for'] = _short([x[1:] for x in d if x[0] in VOLATILE_DIFFS])
                        again = run_slot_call(T_by, R, s, rl, spec, payload['seed'] + si, mark=lambda side: emit({'about': [i, ri, si, side]}), twice=twice)
                        if any(o.get('poisoned') for o in again.values()):
                            emit({'entry': entry})
                            emit({'poisoned_at': [i, ri, si]})
                            return {'done': False}
                        keep = {x[0] for x in compare(again['old'], again['new'], s['old'], s['want'])} if len(again) == 2 else set()
                        d = [x for x in d if x[0] not in VOLATILE_DIFFS or x[0] in keep]
                    if d:
                        entry['mismatch'].append({'receiver': rl, 'spec': spec[0], 'diffs': [[k, _short(a), _short(b)] for k, a, b in d]})
        emit({'entry': entry})
        i += 1
        if only is not None:
            break
    emit({'finished': i})
    return {'done': True}


def isolated_single(payload):
    """one call (slot i, receiver ri, spec si), one side, in its own interpreter"""
    import warnings as w

    w.simplefilter('ignore')
    import logging

    logging.disable(logging.CRITICAL)
    T = gather()
    T_by = {c['name']: c for c in T['classes']}
    R = receivers()
    S = slot_list(T)
    i, ri, si = payload['at']
    s = S[i]
    spec = specs_for(s, payload['seed'], bool(payload.get('all_forms')))[si]
    outs = run_slot_call(T_by, R, s, s['receivers'][ri], spec, payload['seed'] + si, sides=(payload['side'],))
    return outs[payload['side']]


def _short(v):
    t = json.dumps(v, default=str)
    return t if len(t) < 400 else t[:400] + '…'


# --------------------------------------------------------------------------- old names kept by hand (properties, undecorated functions)


def spelled_pairs(obj):
    """(old, new) pairs of public attribute names of an object that are respellings of each other (same letters after dropping
    '_' and lower-casing): the old one is the one with fewer '_' (camelCase / run-together)"""
    groups = {}
    for n in dir(obj):
        if not n.startswith('_'):
            groups.setdefault(norm_name(n), []).append(n)
    out = []
    for g in groups.values():
        if len(g) == 2:
            a, b = sorted(g, key=lambda n: (n.count('_'), not any(ch.isupper() for ch in n)))
            if a.count('_') < b.count('_') or (any(ch.isupper() for ch in a) and not any(ch.isupper() for ch in b)):
                out.append((a, b))
    return sorted(out)


def compare_handwritten(old, new, old_name, want):
    """an old name kept by hand: same result / exception / receiver state / process state / files, and what it adds to the warnings and
    to the log is at most ONE message, which names the replacement"""
    diffs = []
    if 'exc' in old or 'exc' in new:
        if old.get('exc') != new.get('exc'):
            diffs.append(('exception', old.get('exc', 'returns') + ': ' + old.get('exc_text', ''), new.get('exc', 'returns') + ': ' + new.get('exc_text', '')))
    elif old['result'] != new['result']:
        diffs.append(('result', old['result'], new['result']))
    if old['state'] != new['state']:
        diffs.append(('receiver state', old['state'], new['state']))
    if old.get('attrs') != new.get('attrs'):
        diffs.append(('attributes of the receiver after the call', sorted(set(old.get('attrs') or []) - set(new.get('attrs') or [])),
                      sorted(set(new.get('attrs') or []) - set(old.get('attrs') or []))))
    added = list(old['dep']) + [r[2] for r in old.get('log') or []]
    for m in list(new['dep']) + [r[2] for r in new.get('log') or []]:
        if m in added:
            added.remove(m)
    if len(added) > 1 or any(want not in m for m in added):
        diffs.append(('messages added by the old name (warnings + log)', added, f'at most one, naming {want}'))
    if old.get('printed') != new.get('printed'):
        diffs.append(('text printed on stdout / stderr', old.get('printed'), new.get('printed')))
    if old.get('globals') != new.get('globals'):
        diffs.append((GLOBAL_DIFF, [x for x in old.get('globals') or [] if x not in (new.get('globals') or [])],
                      [x for x in new.get('globals') or [] if x not in (old.get('globals') or [])]))
    if old.get('files') != new.get('files'):
        diffs.append((FILES_DIFF, old.get('files'), new.get('files')))
    return diffs


def handwritten_worker(payload):
    """every receiver class: the old names that are NOT made by the decorator (properties such as BIOGEME.numberOfThreads, functions
    written by hand) - read and, for properties, written, against the replacement their spelling designates"""
    import warnings as w

    w.simplefilter('ignore')
    import logging

    logging.disable(logging.CRITICAL)
    R = receivers()
    out = []
    for q, label, fac in [(q, label, fac) for q, facs in sorted(R.items()) for label, fac in facs]:
        with core.scratch(TOML):
            try:
                probe = fac(Env())
                pairs = spelled_pairs(probe)
            except Exception:  # noqa: BLE001
                continue
        for old, new in pairs:
            try:
                static = inspect.getattr_static(type(probe), old)
            except AttributeError:
                static = None
            f = raw_function(static)
            if getattr(f, '__deprecated__', False):
                continue  # made by the decorator: a slot of the table
            kind = 'property' if isinstance(static, property) else 'function' if isinstance(f, types.FunctionType) else None
            if kind is None:
                continue
            entry = {'class': q, 'old': old, 'new': new, 'kind': kind, 'receiver': label, 'diffs': [], 'calls': 0}

            def observe(action, name, value=None):
                with core.scratch(TOML):
                    env = Env()
                    recv = fac(env)
                    if action == 'get':
                        return one_call(lambda: getattr(recv, name), (), {}, recv, None, env, payload['seed'])
                    if action == 'set':
                        return one_call(lambda: setattr(recv, name, value), (), {}, recv, lambda res, r, e: getattr(r, new), env, payload['seed'])
                    specs = arg_specs(q, new, False)
                    if not specs:
                        return None
                    _, builder, post, _v = specs[0]
                    args, kwargs = builder(env, recv)
                    return one_call(getattr(recv, name), args, kwargs, recv, post, env, payload['seed'])

            def judge(what, o_old, o_new):
                entry['calls'] += 1
                d = compare_handwritten(o_old, o_new, old, new)
                if d and any(x[0] in VOLATILE_DIFFS for x in d):
                    return 'again', d
                return 'done', d

            steps = [('get', None)] if kind == 'property' else [('call', None)]
            if kind == 'property':
                with core.scratch(TOML), w.catch_warnings():
                    w.simplefilter('ignore')
                    try:
                        cur = getattr(fac(Env()), new)
                    except Exception:  # noqa: BLE001
                        cur = None
                if isinstance(cur, bool):
                    steps.append(('set', not cur))
                elif isinstance(cur, int):
                    steps.append(('set', cur + 1))
                elif isinstance(cur, float):
                    steps.append(('set', cur + 0.5))
                elif isinstance(cur, str):
                    steps.append(('set', cur + 'x'))
                else:
                    steps.append(('set', [1, 2]))
            for action, value in steps:
                o_old, o_new = observe(action, old, value), observe(action, new, value)
                if o_old is None or o_new is None:
                    entry['uncovered'] = 'no argument spec for ' + new
                    continue
                if action == 'get' and not (o_old['dep'] or o_old.get('log')):
                    # a compatibility name that says nothing (BIOGEME.loglike): it has no deprecation warning, hence no replacement
                    # "named in its deprecation warning" - outside the property beyond what it offers, reading
                    entry['silent'] = True
                if action == 'set' and entry.get('silent'):
                    continue
                st, d = judge(action, o_old, o_new)
                if st == 'again':
                    keep = {x[0] for x in compare_handwritten(observe(action, old, value), observe(action, new, value), old, new)}
                    d = [x for x in d if x[0] not in VOLATILE_DIFFS or x[0] in keep]
                for k, a, b in d:
                    entry['diffs'].append([action + ': ' + k, _short(a), _short(b)])
            out.append(entry)
    return {'results': out, 'engine_alive': engine_alive()}


# --------------------------------------------------------------------------- obsolete keywords (deprecated_parameters)


def kw_cases():
    """(owner, function, receiver builder, base (args, kwargs) builder, {obsolete: value builder}, post)"""
    C = []

    def arr(e):
        return e.np.arange(6, dtype=float) / 8.0 + 0.0625

    def mc(e):
        return e.ex.MonteCarlo(e.ex.exp(e.b1() * e.ex.bioDraws('d1', 'NORMAL_HALTON2')) * e.X())

    def post_fn(res, r, e):
        x = e.np.array(list(r.id_manager.free_betas_values), dtype=float) + 0.125
        return fo(['function', 'gradient'])(res(x), r, e)

    def biogeme_state(res, r, e):
        names = sorted(res.biogeme_parameters.parameter_names)
        return [[n, res.biogeme_parameters.get_value(n)] for n in names] + [['user_notes', res.user_notes], ['parameter_file', res.parameter_file],
                                                                             ['number_of_threads', res.number_of_threads]]

    C.append(('biogeme.draws', 'get_latin_hypercube_draws', None, lambda e, r: ((2, 3), {}), {'uniformNumbers': arr}, None))
    C.append(('biogeme.draws', 'get_normal_wichura_draws', None, lambda e, r: ((2, 3), {}), {'uniformNumbers': arr}, None))
    C.append(('biogeme.biogeme.BIOGEME', '__init__', 'class', lambda e, r: ((e.db, e.loglike()), {}),
              {'suggestScales': lambda e: True, 'numberOfThreads': lambda e: 2, 'numberOfDraws': lambda e: 7, 'missingData': lambda e: 8888,
               'parameter_file': lambda e: 'biogeme.toml', 'userNotes': lambda e: 'a note', 'generateHtml': lambda e: False,
               'saveIterations': lambda e: False, 'seed_param': lambda e: 3}, biogeme_state))
    C.append(('biogeme.biogeme.BIOGEME', 'estimate', lambda e: e.biogeme('kwest'), lambda e, r: ((), {}), {'bootstrap': lambda e: True},
              lambda res, r, e: [res.get_beta_values(), None if res.data.bootstrap is None else len(res.data.bootstrap)]))
    C.append(('biogeme.biogeme.BIOGEME', 'simulate', lambda e: e.biogeme('kwsim'), lambda e, r: ((), {}),
              {'theBetaValues': lambda e: {'b1': 0.25, 'b2': 0.5}}, None))

    def results_with_pickle(e):
        r = e.results()
        r.data.modelName = 'kwres'
        return r

    def pickle_path(e):
        r = e.results()
        r.data.modelName = 'forpickle'
        return r.write_pickle()

    C.append(('biogeme.results.bioResults', '__init__', 'class', lambda e, r: ((), {}),
              {'pickleFile': pickle_path, 'theRawResults': lambda e: pickle.loads(Env._raw) if Env._raw else e.results().data},
              lambda res, r, e: res.get_beta_values()))
    for f, kws, post in [('get_latex', {'onlyRobust': lambda e: False}, None), ('get_estimated_parameters', {'onlyRobust': lambda e: False}, None),
                         ('get_html', {'onlyRobust': lambda e: False}, None), ('get_beta_values', {'myBetas': lambda e: ['b1']}, None),
                         ('write_html', {'onlyRobust': lambda e: False}, _files), ('get_f12', {'robustStdErr': lambda e: False}, None),
                         ('write_f12', {'robustStdErr': lambda e: False}, _files)]:
        C.append(('biogeme.results.bioResults', f, results_with_pickle, lambda e, r: ((), {}), kws, post))
    C.append(('biogeme.results.bioResults', 'get_betas_for_sensitivity_analysis', results_with_pickle, lambda e, r: ((), {'size': 3}),
              {'myBetas': lambda e: ['b1', 'b2'], 'useBootstrap': lambda e: False}, None))
    EX = 'biogeme.expressions.base_expressions.Expression'
    C.append((EX, 'prepare', mc, lambda e, r: ((e.db,), {}), {'numberOfDraws': lambda e: 5}, lambda res, r, e: r.id_manager.number_of_draws))
    C.append((EX, 'create_function', mc, lambda e, r: ((e.db,), {'hessian': False}), {'numberOfDraws': lambda e: 4}, post_fn))
    def post_obj(res, r, e):
        res.set_variables(e.np.array(list(r.id_manager.free_betas_values), dtype=float) + 0.125)
        fg = res.f_g()
        return [res.f(), fg.function, fg.gradient]

    C.append((EX, 'create_objective_function', mc, lambda e, r: ((e.db,), {'hessian': False}), {'numberOfDraws': lambda e: 4}, post_obj))
    C.append((EX, 'get_value_c', mc, lambda e, r: ((e.db,), {}), {'numberOfDraws': lambda e: 4, 'prepareIds': lambda e: True}, None))
    C.append((EX, 'get_value_and_derivatives', mc, lambda e, r: ((), {'database': e.db, 'hessian': False, 'bhhh': False}),
              {'numberOfDraws': lambda e: 4, 'prepareIds': lambda e: True}, fo(['function', 'gradient'])))
    return C


def kw_worker(payload):
    """every obsolete keyword of every @deprecated_parameters use: f(..., old=v) against f(..., new=v)"""
    import warnings as w

    w.simplefilter('ignore')
    import logging

    logging.disable(logging.CRITICAL)
    T = gather()
    uses = {(u['owner_name'], u['func']): u for u in T['kwuses']}
    out = []
    cases = kw_cases()
    idx = 0
    for owner, func, recv_b, base_b, olds, post in cases:
        u = uses.get((owner, func))
        combos = [[o] for o in olds] + ([list(olds)] if len(olds) > 1 and func != '__init__' else [])
        for combo in combos:
            idx += 1
            if idx <= payload['start']:
                continue
            entry = {'idx': idx, 'owner': owner, 'func': func, 'obsolete': combo, 'diffs': [], 'known_use': u is not None}
            if u is None:
                out.append(entry)
                continue
            def pair():
                outs = {}
                for side in ('old', 'new'):
                    with core.scratch(TOML + 'bootstrap_samples = 3\n' if func == 'estimate' else TOML):
                        env = Env()
                        if owner.startswith('biogeme.draws'):
                            recv, target = None, getattr(sys.modules[owner], func)
                        elif recv_b == 'class':
                            recv = None
                            mod, cls = owner.rsplit('.', 1)
                            target = getattr(sys.modules[mod], cls)
                        else:
                            recv = recv_b(env)
                            target = getattr(recv, func)
                        args, kwargs = base_b(env, recv)
                        kwargs = dict(kwargs)
                        for o in olds:
                            v = olds[o](env)
                            new = expected_keyword(u, o)
                            if o not in combo:
                                # the other keywords of the function are given under their current names on both sides
                                if new is not None and func != '__init__':
                                    kwargs[new] = v
                            elif side == 'old':
                                kwargs[o] = v
                            elif new is not None:
                                kwargs[new] = v
                        outs[side] = one_call(target, args, kwargs, recv, post, env, payload['seed'])
                        if 'exc' in outs[side] and not engine_alive():
                            outs['poisoned_side'] = side
                            return outs
                return outs

            outs = pair()
            if 'poisoned_side' in outs:
                side = outs.pop('poisoned_side')
                return {'results': out, 'poisoned_at': idx, 'poisoned_side': side, 'outs': outs}
            o_, n_ = outs['old'], outs['new']
            if ('exc' in o_ or 'exc' in n_):
                if o_.get('exc') != n_.get('exc'):
                    entry['diffs'].append(['exception', o_.get('exc', 'returns') + ' ' + o_.get('exc_text', ''), n_.get('exc', 'returns') + ' ' + n_.get('exc_text', '')])
            elif o_['result'] != n_['result']:
                entry['diffs'].append(['result', _short(o_['result']), _short(n_['result'])])
            if o_['state'] != n_['state']:
                entry['diffs'].append(['receiver state', o_['state'], n_['state']])
            if o_.get('log') != n_.get('log'):
                entry['diffs'].append(['records written to the log', _short(o_.get('log')), _short(n_.get('log'))])
            if o_.get('printed') != n_.get('printed'):
                entry['diffs'].append(['text printed on stdout / stderr', _short(o_.get('printed')), _short(n_.get('printed'))])
            if o_.get('globals') != n_.get('globals') or o_.get('files') != n_.get('files'):
                again = pair()  # counted only if it is there again when the pair is repeated (caches filled by the first side)
                if 'poisoned_side' in again:
                    side = again.pop('poisoned_side')
                    return {'results': out, 'poisoned_at': idx, 'poisoned_side': side, 'outs': again}
                if o_.get('globals') != n_.get('globals') and again['old'].get('globals') != again['new'].get('globals'):
                    entry['diffs'].append([GLOBAL_DIFF, _short([x for x in o_['globals'] if x not in n_['globals']]), _short([x for x in n_['globals'] if x not in o_['globals']])])
                if o_.get('files') != n_.get('files') and again['old'].get('files') != again['new'].get('files'):
                    entry['diffs'].append([FILES_DIFF, _short(o_.get('files')), _short(n_.get('files'))])
            added = list(o_['dep'])
            for m in n_['dep']:
                if m in added:
                    added.remove(m)
            ok = len(added) == len(combo)
            for o in combo:
                new = expected_keyword(u, o)
                if not any((f"'{o}'" in m and (new is None or f"'{new}=" in m)) for m in added):
                    ok = False
            if not ok:
                entry['diffs'].append(['warnings added by the obsolete keyword(s)', added, f'one DeprecationWarning per obsolete keyword naming {combo} and the replacement'])
            entry['both_raise'] = 'exc' in o_ and 'exc' in n_
            entry['exc'] = o_.get('exc_text') if 'exc' in o_ else None
            out.append(entry)
    return {'results': out, 'poisoned_at': None}


# --------------------------------------------------------------------------- the wrapper on generated hierarchies (C2)


def gen_hierarchy(rng):
    n = rng.randint(1, 6)
    classes = []
    for i in range(n):
        nb = 0 if i == 0 else rng.choice([0, 1, 1, 1, 2, 2, 3])
        bases = sorted(rng.sample(range(i), min(nb, i)), reverse=rng.random() < 0.5)
        new = rng.random() < 0.55
        alias = None
        r = rng.random()
        if r < 0.4:
            kinds = ['module']
            if new:
                kinds += ['own', 'own', 'own', 'rebound']
            if i > 0:
                kinds += ['base', 'base']
            alias = {'captures': rng.choice(kinds), 'static': rng.random() < 0.12, 'base': rng.randrange(i) if i > 0 else 0}
        classes.append({'bases': bases, 'new': new, 'alias': alias})
    if not any(c['alias'] for c in classes):
        classes[0]['new'] = True
        classes[0]['alias'] = {'captures': 'own', 'static': False, 'base': 0}
    calls = []
    for _ in range(rng.randint(1, 4)):
        calls.append({'cls': rng.randrange(n), 'args': [rng.randint(0, 9) for _ in range(rng.randint(0, 2))],
                      'kwargs': {k: rng.randint(0, 9) for k in rng.sample(['p', 'q', 'r'], rng.randint(0, 2))},
                      'via': rng.choice(['instance', 'instance', 'instance', 'class_with_receiver', 'class_no_args'])})
    return {'classes': classes, 'calls': calls}


def chain_cases():
    """structured hierarchies (run first, every time): linear chains of depth 3..5 with the alias declared at the root or one level
    below (capturing the replacement of the class that declares it), EVERY subset of the lower levels redefining the replacement
    (intermediate level only, leaf only, both, none) and every level from the declaring class down as receiver; diamonds"""
    out = []
    for depth in (3, 4, 5):
        for alias_at in (0, 1):
            lower = list(range(alias_at + 1, depth))
            for mask in range(2 ** len(lower)):
                over = {lower[i] for i in range(len(lower)) if mask >> i & 1}
                classes = [{'bases': [] if i == 0 else [i - 1], 'new': i == 0 or i == alias_at or i in over,
                            'alias': {'captures': 'own', 'static': False, 'base': 0} if i == alias_at else None} for i in range(depth)]
                calls = [{'cls': r, 'args': [r], 'kwargs': {'p': depth}, 'via': 'instance' if (r + mask) % 3 else 'class_with_receiver'}
                         for r in range(alias_at, depth)]
                out.append({'classes': classes, 'calls': calls, 'shape': 'chain'})
    own = {'captures': 'own', 'static': False, 'base': 0}
    for order in ([1, 2], [2, 1]):
        for mid_new in ((True, False), (False, True), (True, True)):
            classes = [{'bases': [], 'new': True, 'alias': own}, {'bases': [0], 'new': mid_new[0], 'alias': None}, {'bases': [0], 'new': mid_new[1], 'alias': None},
                       {'bases': order, 'new': False, 'alias': None}, {'bases': [3], 'new': False, 'alias': None}]
            out.append({'classes': classes, 'calls': [{'cls': r, 'args': [], 'kwargs': {'q': r}, 'via': 'instance'} for r in (1, 2, 3, 4)], 'shape': 'diamond'})
    return out


def override_kind(case, call):
    """where the replacement is redefined, seen from the receiver of the call: 'none', 'leaf' (the receiver's own class),
    'intermediate' (a class strictly between the receiver's class and the class declaring the alias), 'both'"""
    if case.get('shape') != 'chain':
        return 'n/a'
    at = next(i for i, c in enumerate(case['classes']) if c['alias'])
    r = call['cls']
    leaf = r > at and case['classes'][r]['new']
    mid = any(case['classes'][i]['new'] for i in range(at + 1, r))
    return 'both' if leaf and mid else 'leaf' if leaf else 'intermediate' if mid else 'none'


# signatures of the generated replacements (after self): source, parameters (name, has a default), *args?, **kwargs?
SIGS = {
    'base': ('x, y=1', [('x', False), ('y', True)], False, False),
    'wide': ('x=0, y=1, z=2', [('x', True), ('y', True), ('z', True)], False, False),
    'narrow': ('x', [('x', False)], False, False),
    'reorder': ('y=1, x=0', [('y', True), ('x', True)], False, False),
    'two': ('x, y', [('x', False), ('y', False)], False, False),
    'kwsink': ('x, **k', [('x', False)], False, True),
    'var': ('*a, **k', [], True, True),
}
SIG_NAMES = {'x': 1, 'y': 2, 'z': 3, 'p': 4}


def sig_cases(rng, n):
    """hierarchies whose replacements have real signatures that the overrides widen / narrow / reorder, called with every kind of
    argument form (0-3 positional arguments, keyword subsets)"""
    chains = chain_cases()
    out = []
    for j in range(n):
        base = chains[j % len(chains)] if j < 2 * len(chains) else gen_hierarchy(rng)
        classes = [dict(c, alias=(dict(c['alias'], static=False) if c['alias'] else None)) for c in base['classes']]
        sigs = [rng.choice(['base', 'base', 'wide', 'narrow', 'reorder', 'two', 'kwsink', 'var']) for _ in classes] + [rng.choice(['base', 'var'])]
        calls = []
        for _ in range(3):
            kw = rng.sample(['x', 'y', 'z', 'p'], rng.choice([0, 0, 1, 1, 2]))
            calls.append({'cls': rng.randrange(len(classes)), 'args': [rng.randint(0, 9) for _ in range(rng.choice([0, 0, 1, 1, 2, 3]))],
                          'kwargs': {k: rng.randint(0, 9) for k in kw}, 'via': 'instance'})
        out.append({'classes': classes, 'calls': calls, 'sigs': sigs})
    return out


def build_hierarchy(case):
    """real classes with the real decorator; returns (classes, impl ids, model table, captured function per declaring class) or None
    when python refuses the bases.  What each alias captures is recorded HERE, when the decorator is applied - never read back from
    the wrapper, whose internals are what is being checked."""
    from biogeme.deprecated import deprecated

    impl = {}

    def mk(tag, sig=None):
        if sig is None:
            def f(*a, **k):
                return (tag, a, dict(k))
        else:
            # a function with a real signature: returns what its parameters were bound to
            scope = {}
            exec(f'def f(self, {SIGS[sig][0]}):\n    d = dict(locals()); d.pop("self"); return (TAG, (self,), d)', {'TAG': tag}, scope)
            f = scope['f']
        f.__name__ = 'get_thing'
        impl[id(f)] = (len(impl) + 10, f, tag)
        sig_of[impl[id(f)][0]] = sig
        return f

    sig_of = {}
    sigs = case.get('sigs')
    mod_fn = mk('module.get_thing', sigs[-1] if sigs else None)
    built = []
    captured_by = {}
    for i, c in enumerate(case['classes']):
        ns = {}
        if c['new']:
            ns['get_thing'] = mk(f'K{i}.get_thing', sigs[i] if sigs else None)
        a = c['alias']
        if a:
            if a['captures'] == 'own' and 'get_thing' in ns:
                target = ns['get_thing']
            elif a['captures'] == 'rebound' and 'get_thing' in ns:
                target = ns['get_thing']
                ns['get_thing'] = mk(f'K{i}.get_thing(rebound)', sigs[i] if sigs else None)
            elif a['captures'] == 'base':
                base_cls = built[a['base']]
                target = None
                for k in base_cls.__mro__:
                    if 'get_thing' in vars(k):
                        target = vars(k)['get_thing']
                        break
                if target is None:
                    target = mod_fn
            else:
                target = mod_fn

            def stub(*a, **k):
                pass

            stub.__name__ = 'getThing'
            w = deprecated(target)(stub)
            ns['getThing'] = staticmethod(w) if a['static'] else w
            captured_by[i] = target
        try:
            built.append(type(f'K{i}', tuple(built[b] for b in c['bases']), ns))
        except TypeError:
            return None
    ids = {k: i for i, k in enumerate(built)}
    table = []
    for k in built:
        d = []
        if 'get_thing' in vars(k):
            v = vars(k)['get_thing']
            d.append([1, impl[id(v)][0]])
        if 'getThing' in vars(k):
            d.append([2, 1000 + ids[k]])
        table.append({'id': ids[k], 'mro': [ids[x] for x in k.__mro__ if x is not object], 'dict': d})
    case['_sig_of'] = sig_of
    return built, impl, table, captured_by


ALIAS_MSG = 'getThing is deprecated; use get_thing instead.'


def _filters_now():
    import warnings as w

    return [[a, getattr(m, 'pattern', m), getattr(c, '__name__', str(c)), getattr(mod, 'pattern', mod), ln] for a, m, c, mod, ln in w.filters]


def hierarchy_calls(case, b, res=None):
    """the calls of one generated hierarchy on the real wrapper: list of observations (no Lean involved)"""
    import warnings as w

    built, impl, table, captured_by = b
    by_tag = {v[2]: v[0] for v in impl.values()}
    ids = {k: i for i, k in enumerate(built)}
    obs = []
    global_state(light=True)  # first use imports numpy, which installs warning filters of its own: not to be charged to a call
    for call in case['calls']:
        cls = built[call['cls']]
        owner = next((k for k in cls.__mro__ if 'getThing' in vars(k)), None)
        if owner is None:
            if res is not None:
                res.tally('class_without_alias')
            continue
        static = isinstance(vars(owner)['getThing'], staticmethod)
        target = captured_by[ids[owner]]
        captured = impl[id(target)][0]
        inst = cls()
        args, kwargs = tuple(call['args']), dict(call['kwargs'])
        via = call['via']

        def run(name):
            with w.catch_warnings(record=True) as rec:
                w.simplefilter('always')
                f0, g0 = _filters_now(), global_state(light=True)
                try:
                    if via == 'instance':
                        r = getattr(inst, name)(*args, **kwargs)
                    elif via == 'class_with_receiver':
                        r = getattr(cls, name)(inst, *args, **kwargs)
                    else:
                        r = getattr(cls, name)(**kwargs)
                    out = {'impl': by_tag[r[0]], 'args': [('<recv>' if x is inst else x) for x in r[1]], 'kwargs': r[2]}
                except Exception as e:  # noqa: BLE001
                    out = {'exc': core.exc_kind(e)}
                out['filters_changed'] = None if _filters_now() == f0 else [f0[:3], _filters_now()[:3]]
                out['globals'] = state_delta(g0, global_state(light=True))
            out['dep'] = [str(x.message) for x in rec if issubclass(x.category, DeprecationWarning)]
            return out

        o_old = run('getThing')
        o_new = run('get_thing')
        # what the wrapper sees as args[0]
        if static:
            first = args[0] if (via == 'instance' and args) else (inst if via == 'class_with_receiver' else None)
        else:
            first = inst if via != 'class_no_args' else None
        with_recv = first is not None and isinstance(first, tuple(built))
        # the alias is declared soundly for this receiver: what it captured is the replacement held by a class of the receiver's mro
        sound = any(vars(k).get('get_thing') is target for k in type(inst).__mro__)
        obs.append({'call': call, 'old': o_old, 'new': o_new, 'with_recv': with_recv, 'static': static, 'captured': captured, 'sound': sound,
                    'override': override_kind(case, call)})
    return obs


class _Capped:
    """at most two reported violations per kind from the generated streams: the slots of the real package must stay visible among
    the first replays written"""

    def __init__(self, res):
        self.res, self.seen = res, {}
        self.violations = res.violations

    def violate(self, what, *a, **k):
        key = what.split('(')[0][:60]
        self.seen[key] = self.seen.get(key, 0) + 1
        if self.seen[key] <= 2:
            self.res.violate(what, *a, **k)
        else:
            self.res.tally('further_violations_of_the_same_kind_not_listed')


def judge_hierarchy_call(res, case, o):
    """the property on one call of a generated hierarchy, from the statement alone (no model): same function, same arguments, one
    warning naming the replacement, nothing else left behind"""
    what = {'hierarchy': {k: v for k, v in case.items() if k not in ('shape', '_sig_of')}, 'call': o['call']}
    o_old, o_new = o['old'], o['new']
    W = 'deprecated.deprecated wrapper'
    if 'exc' in o_old:
        if o['with_recv'] and not o['static'] and o['sound'] and 'exc' not in o_new:
            res.violate('an inherited alias raises where the new name, called on the same receiver, returns (generated class hierarchy)', what,
                        o_old, {k: o_new.get(k) for k in ('impl', 'args', 'kwargs')}, where=W)
        return
    if o['with_recv'] and not o['static'] and o['sound']:
        if 'exc' in o_new or o_old['impl'] != o_new['impl'] or o_old['args'] != o_new['args'] or o_old['kwargs'] != o_new['kwargs']:
            res.violate('an inherited alias does not behave like the new name on the receiver (generated class hierarchy; replacement redefined at: '
                        + o['override'] + ')', what,
                        {k: o_old.get(k) for k in ('impl', 'args', 'kwargs')}, {k: o_new.get(k) for k in ('impl', 'args', 'kwargs', 'exc')}, where=W)
    if not case.get('sigs') and not o['static'] and o['with_recv'] and (o_old['kwargs'] != o['call']['kwargs'] or [x for x in o_old['args'] if x != '<recv>'] != o['call']['args']):
        res.violate('the wrapper does not pass the arguments on unchanged', what, {'args': o_old['args'], 'kwargs': o_old['kwargs']},
                    {'args': o['call']['args'], 'kwargs': o['call']['kwargs']}, where=W)
    if o_old['dep'] != [ALIAS_MSG]:
        res.violate('the wrapper does not add exactly one DeprecationWarning naming the replacement', what, o_old['dep'], [ALIAS_MSG], where=W)
    if o_old['filters_changed'] or o_old['globals'] != o_new['globals']:
        res.violate('calling the old name leaves process-wide state changed (warnings.filters / logging / random generators ...): it must add nothing but the warning',
                    what, {'warnings.filters before/after': o_old['filters_changed'], 'other': o_old['globals']}, {'warnings.filters': 'unchanged', 'other': o_new['globals']},
                    where=W)


def check_wrapper_model(ctx, res, n):
    rng = ctx.rng
    reqs, obs = [], []
    done = 0
    capped = _Capped(res)
    stream = chain_cases()
    while done < n or stream:
        case = stream.pop(0) if stream else gen_hierarchy(rng)
        b = build_hierarchy(case)
        if b is None:
            res.tally('hierarchy_refused_by_python')
            continue
        done += 1
        table = b[2]
        overrides = False
        for o in hierarchy_calls(case, b, res):
            call = o['call']
            reqs.append({'op': 'call', 'classes': table, 'c': call['cls'], 'new': 1, 'captured': o['captured']})
            obs.append((case, o))
            res.tally('wrapper_call:' + call['via'] + (':static' if o['static'] else ''))
            if o['override'] != 'n/a':
                res.tally('chain_receiver_depth:' + str(call['cls'] + 1) + ':override_' + o['override'])
            if any(c['new'] for c in case['classes'][1:]):
                overrides = True
            judge_hierarchy_call(capped, case, o)
        res.count({'hierarchy': case}, nontrivial=overrides)

    def cb(ans):
        for a, (case, o) in zip(ans, obs):
            what = {'hierarchy': {k: v for k, v in case.items() if k != 'shape'}, 'call': o['call']}
            o_old = o['old']
            want_impl = a['alias'] if o['with_recv'] else a['no_receiver']
            if o['with_recv'] and not o['static'] and a['found'] != o['sound']:
                res.diverge('the dispatch condition of the model (captured function found in the mro of the receiver)', what, a['found'], o['sound'],
                            where='deprecated.deprecated wrapper')
            if 'exc' in o_old:
                if want_impl is not None and o['with_recv']:
                    res.diverge('wrapper on a generated hierarchy: the model runs an implementation, the real wrapper raises', what, a, o_old,
                                where='deprecated.deprecated wrapper')
                continue
            if o_old.get('impl') != want_impl:
                res.diverge('wrapper on a generated hierarchy: implementation that runs', what, want_impl, o_old, where='deprecated.deprecated wrapper')

    ctx.batch.add_many(reqs, cb)


def check_signature_model(ctx, res, n):
    """the ARGUMENT dimension on generated hierarchies: the old name accepts exactly the calls the replacement resolved on the receiver
    accepts (Lean: aliasAccepts / newAccepts over `Sig`), and binds them identically"""
    reqs, obs = [], []
    capped = _Capped(res)
    for case in sig_cases(ctx.rng, n):
        b = build_hierarchy(case)
        if b is None:
            continue
        sig_of = case.pop('_sig_of')
        sigs_json = [{'impl': i, 'params': [[SIG_NAMES[nm], d] for nm, d in SIGS[sg][1]], 'var_pos': SIGS[sg][2], 'var_kw': SIGS[sg][3]} for i, sg in sig_of.items()]
        for o in hierarchy_calls(case, b, res):
            judge_hierarchy_call(capped, case, o)
            call = o['call']
            res.tally('signature_call:' + ('refused_by_both' if 'exc' in o['old'] and 'exc' in o['new'] else 'accepted' if 'exc' not in o['old'] else 'other'))
            reqs.append({'op': 'accepts', 'classes': b[2], 'c': call['cls'], 'new': 1, 'captured': o['captured'], 'sigs': sigs_json, 'npos': len(call['args']),
                         'kws': [SIG_NAMES[k] for k in call['kwargs']]})
            obs.append((case, o))
        res.count({'signatures': case}, nontrivial=len(set(case['sigs'])) > 1)

    def cb(ans):
        for a, (case, o) in zip(ans, obs):
            got = {'alias': 'exc' not in o['old'], 'new': 'exc' not in o['new']}
            if got != {'alias': a.get('alias'), 'new': a.get('new')}:
                res.diverge('which calls the old / the new name accept (signatures of the generated replacements)', {'hierarchy': case, 'call': o['call']},
                            a, {**got, 'old_exc': o['old'].get('exc'), 'new_exc': o['new'].get('exc')}, where='deprecated.deprecated wrapper')

    ctx.batch.add_many(reqs, cb)


# --------------------------------------------------------------------------- the wrapper inside a user's warning configuration

W_CATS = ['Warning', 'DeprecationWarning', 'UserWarning', 'FutureWarning', 'PendingDeprecationWarning']
W_MSGS = ['', 'getThing', 'nothing at all', '.*deprecated']
W_ACTIONS = ['error', 'ignore', 'always', 'default', 'module', 'once']


def gen_filters(rng):
    k = rng.choice([0, 1, 1, 1, 2, 2, 3])
    return [{'action': rng.choice(W_ACTIONS), 'category': rng.choice(W_CATS), 'message': rng.choice(W_MSGS)} for _ in range(k)]


def filter_matches(f):
    import builtins

    return issubclass(DeprecationWarning, getattr(builtins, f['category'])) and re.match(f['message'], ALIAS_MSG, re.I) is not None


def world_case(rng):
    case = rng.choice(chain_cases()) if rng.random() < 0.5 else gen_hierarchy(rng)
    return {'hierarchy': {k: v for k, v in case.items() if k != 'shape'}, 'filters': gen_filters(rng), 'n': rng.choice([1, 2, 2, 3]),
            'raise_flag': rng.random() < 0.08, 'cls': rng.randrange(len(case['classes'])), 'args': [rng.randint(0, 9) for _ in range(rng.randint(0, 2))]}


def run_world_case(wc, b):
    """`n` calls of the alias, then of the new name, from one place, inside the warning configuration of the case (real `warnings` module)"""
    import builtins
    import warnings as w

    import biogeme.deprecated as dep

    built, impl, table, captured_by = b
    by_tag = {v[2]: v[0] for v in impl.values()}
    ids = {k: i for i, k in enumerate(built)}
    cls = built[wc['cls']]
    owner = next((k for k in cls.__mro__ if 'getThing' in vars(k)), None)
    if owner is None:
        return None
    static = isinstance(vars(owner)['getThing'], staticmethod)
    inst = cls()
    target = captured_by[ids[owner]]
    out = {'static': static, 'captured': impl[id(target)][0], 'sound': (not static) and any(vars(k).get('get_thing') is target for k in cls.__mro__)}
    for side, name in (('old', 'getThing'), ('new', 'get_thing')):
        flag0 = dep.RAISE_EXCEPTION
        with w.catch_warnings(record=True) as rec:
            w.resetwarnings()
            w.onceregistry.clear()
            for f in reversed(wc['filters']):
                w.filterwarnings(f['action'], message=f['message'], category=getattr(builtins, f['category']))
            f0 = _filters_now()
            calls = []
            try:
                if wc['raise_flag']:
                    dep.RAISE_EXCEPTION = True
                for _ in range(wc['n']):  # one place: same file, same line for every call
                    try:
                        r = getattr(inst, name)(*wc['args'])
                        calls.append({'impl': by_tag[r[0]], 'raised': None})
                    except Exception as e:  # noqa: BLE001
                        calls.append({'impl': None, 'raised': type(e).__name__})
            finally:
                dep.RAISE_EXCEPTION = flag0
            f1 = _filters_now()
            out[side] = {'calls': calls, 'shown': len(rec), 'messages': sorted({str(x.message) for x in rec}), 'filters_unchanged': f0 == f1,
                         'filters': [f0, f1] if f0 != f1 else None}
    return out


def check_world_model(ctx, res, n):
    """the state-transformer model of the wrapper (Model/DeprecWorld.lean) against the real wrapper inside generated warning configurations"""
    rng = ctx.rng
    reqs, obs = [], []
    done = 0
    capped = _Capped(res)
    while done < n:
        wc = world_case(rng)
        b = build_hierarchy(wc['hierarchy'])
        if b is None:
            continue
        o = run_world_case(wc, b)
        if o is None:
            continue
        done += 1
        fl = [[f['action'], filter_matches(f)] for f in wc['filters']]
        first = next((f[0] for f in fl if f[1]), 'default')
        res.count({'world': wc}, nontrivial=bool(wc['filters']))
        res.tally('warning_configuration:first_matching_action=' + first + (':RAISE_EXCEPTION' if wc['raise_flag'] else ''))
        base = {'op': 'world', 'classes': b[2], 'c': wc['cls'], 'new': 1, 'captured': o['captured'], 'filters': fl, 'default': 'default', 'registry': [],
                'n': wc['n'], 'receiver': not o['static'], 'raise_flag': wc['raise_flag']}
        reqs.append({**base, 'side': 'old'})
        obs.append((wc, o, 'old'))
        reqs.append({**base, 'side': 'new'})
        obs.append((wc, o, 'new'))
        # the property, from its statement: nothing but the warning - the user's configuration is left as it was and is obeyed
        W = 'deprecated.deprecated wrapper'
        if not o['old']['filters_unchanged']:
            capped.violate('calling the old name changes warnings.filters (the user\'s warning configuration): it must add nothing but the warning', {'world': wc},
                        o['old']['filters'], 'warnings.filters as before the call', where=W)
        if wc['filters'] and fl[0][1] and not wc['raise_flag']:
            if fl[0][0] == 'ignore' and (o['old']['shown'] != 0 or (o['sound'] and o['old']['calls'] != o['new']['calls'])):
                capped.violate('DeprecationWarning is silenced by the user: the old name must be exactly the new name, silently', {'world': wc}, o['old'], o['new'], where=W)
            if fl[0][0] == 'error' and any(c['raised'] != 'DeprecationWarning' for c in o['old']['calls']):
                capped.violate('DeprecationWarning is turned into an error by the user: the old name must raise it', {'world': wc}, o['old']['calls'],
                            'DeprecationWarning raised by every call', where=W)
            if fl[0][0] == 'always' and not o['static'] and (o['old']['shown'] != wc['n'] or o['old']['messages'] != [ALIAS_MSG]):
                capped.violate('the old name must emit exactly one DeprecationWarning naming the replacement at every call', {'world': wc},
                            [o['old']['shown'], o['old']['messages']], [wc['n'], [ALIAS_MSG]], where=W)

    def cb(ans):
        for a, (wc, o, side) in zip(ans, obs):
            real = o[side]
            got = {'calls': real['calls'], 'shown': real['shown'], 'filters_unchanged': real['filters_unchanged']}
            want = {'calls': a.get('calls'), 'shown': a.get('shown'), 'filters_unchanged': a.get('filters_unchanged')}
            if got != want:
                res.diverge(f'the wrapper as a state transformer ({side} name, {wc["n"]} calls inside a warning configuration)', {'world': wc}, want, got,
                            where='deprecated.deprecated wrapper')

    ctx.batch.add_many(reqs, cb)


def check_kw_model(ctx, res, n):
    import warnings as w
    from biogeme.deprecated import deprecated_parameters

    rng = ctx.rng
    capped = _Capped(res)
    reqs, obs, reqs2, obs2 = [], [], [], []
    names = ['alpha', 'beta', 'gammaValue', 'gamma_value', 'deltaT', 'delta_t', 'eps', 'oldOnly', 'zeta']
    nid = {n: i for i, n in enumerate(names)}
    for _ in range(n):
        olds = rng.sample(['gammaValue', 'deltaT', 'oldOnly', 'eps'], rng.randint(1, 3))
        mp = {}
        for o in olds:
            mp[o] = rng.choice([{'gammaValue': 'gamma_value', 'deltaT': 'delta_t', 'oldOnly': None, 'eps': 'zeta'}[o], None if rng.random() < 0.15 else
                                {'gammaValue': 'gamma_value', 'deltaT': 'delta_t', 'oldOnly': None, 'eps': 'zeta'}[o]])
        if rng.random() < 0.1 and len(olds) >= 2:
            mp[olds[1]] = mp[olds[0]]  # two obsolete names sharing a target (refused by the table check kw_ok)
        keys = rng.sample(names, rng.randint(0, 5))
        kw = [(k, str(rng.randint(0, 99))) for k in keys]

        def f(**k):
            return list(k.items())

        g = deprecated_parameters(obsolete_params=dict(mp))(f)
        with w.catch_warnings(record=True) as rec:
            w.simplefilter('always')
            got = g(**dict(kw))
        nw = sum(issubclass(x.category, DeprecationWarning) for x in rec)
        reqs.append({'op': 'rename', 'map': [[nid[o], None if t is None else nid[t]] for o, t in mp.items()], 'kw': [[nid[k], v] for k, v in kw]})
        obs.append((mp, kw, [[nid[k], v] for k, v in got], nw))
        clean = len({(mp.get(k, k) if k in mp else k) for k, _ in kw if not (k in mp and mp[k] is None)}) == len([1 for k, _ in kw if not (k in mp and mp[k] is None)])
        res.count({'kw_map': mp, 'kw': kw}, nontrivial=any(k in mp for k, _ in kw))
        res.tally('kw_wrapper_call' + ('' if clean else ':collision'))
        if clean:
            want = [[nid[mp[k]] if k in mp else nid[k], v] for k, v in kw if not (k in mp and mp[k] is None)]
            if [[nid[k], v] for k, v in got] != want or nw != sum(k in mp for k, _ in kw):
                capped.violate('an obsolete keyword does not reach the function under its new name (or the number of warnings is wrong)',
                            {'map': mp, 'kwargs': kw}, {'received': got, 'warnings': nw}, {'received': want, 'warnings': sum(k in mp for k, _ in kw)},
                            where='deprecated.deprecated_parameters wrapper')

        # the same call inside a user's warning configuration (state-transformer model `runKw`)
        import builtins

        fl = [{'action': rng.choice(W_ACTIONS), 'category': rng.choice(W_CATS), 'message': ''} for _ in range(rng.choice([0, 1, 1, 2]))]
        with w.catch_warnings(record=True) as rec:
            w.resetwarnings()
            w.onceregistry.clear()
            for f_ in reversed(fl):
                w.filterwarnings(f_['action'], category=getattr(builtins, f_['category']))
            f0 = _filters_now()
            try:
                got2, raised = [[nid[k], v] for k, v in g(**dict(kw))], None
            except Warning as e:  # a warning turned into an exception by an `error` entry
                m_ = re.match(r"Parameter '(\w+)'", str(e))
                got2, raised = None, (nid.get(m_.group(1)) if m_ else -1) if isinstance(e, DeprecationWarning) else 'raises ' + type(e).__name__
            unchanged = _filters_now() == f0
            shown = [nid.get((re.match(r"Parameter '(\w+)'", str(x.message)) or [None, '?'])[1], -1) for x in rec]
        if not unchanged:
            capped.violate("using an obsolete keyword changes warnings.filters (the user's warning configuration): it must add nothing but the warning",
                        {'map': mp, 'kwargs': kw, 'filters': fl}, _filters_now()[:3], f0[:3], where='deprecated.deprecated_parameters wrapper')
        reqs2.append({'op': 'kwworld', 'map': [[nid[o], None if t is None else nid[t]] for o, t in mp.items()], 'kw': [[nid[k], v] for k, v in kw],
                      'filters': [[f_['action'], issubclass(DeprecationWarning, getattr(builtins, f_['category']))] for f_ in fl], 'default': 'default'})
        obs2.append((mp, kw, fl, {'kw': got2, 'raised': raised, 'shown': shown, 'filters_unchanged': unchanged}))
        res.tally('kw_wrapper_call_in_warning_configuration')

    def cb(ans):
        for a, (mp, kw, got, nw) in zip(ans, obs):
            if a.get('kw') != got or a.get('warnings') != nw:
                res.diverge('keyword renaming wrapper', {'map': mp, 'kwargs': kw}, a, {'kw': got, 'warnings': nw}, where='deprecated.deprecated_parameters wrapper')

    def cb2(ans):
        for a, (mp, kw, fl, real) in zip(ans, obs2):
            if {k: a.get(k) for k in real} != real:
                res.diverge('keyword renaming wrapper as a state transformer (inside a warning configuration)', {'map': mp, 'kwargs': kw, 'filters': fl}, a, real,
                            where='deprecated.deprecated_parameters wrapper')

    ctx.batch.add_many(reqs, cb)
    ctx.batch.add_many(reqs2, cb2)


# --------------------------------------------------------------------------- check


def run_side_isolated(at, side, seed, all_forms=False):
    out = core.run_isolated('props.c20', 'isolated_single', {'at': at, 'side': side, 'seed': seed, 'all_forms': all_forms}, timeout=600)
    if '__error__' in out:
        first = (out.get('stderr') or '').strip().splitlines()
        return {'exc': 'process died ' + out['__error__'], 'exc_text': mask_text(' '.join(first[-2:]))[:160] if first else '', 'dep': [], 'other_warnings': [],
                'state': None, 'args_after': None, 'died': True}
    return out


def run_workers(ctx, res, T, seed, only=None, twice_all=False):
    """all slots (or the slot `only`) in worker processes; returns (slot list, merged results per slot)"""
    import tempfile

    S = slot_list(T)
    merged = {}

    def merge(e):
        m = merged.setdefault(e['i'], {'calls': 0, 'both_raise': 0, 'mismatch': [], 'skipped': None})
        m['calls'] += e['calls']
        m['both_raise'] += e['both_raise']
        m['mismatch'] += e['mismatch']
        m['skipped'] = m['skipped'] or e['skipped']
        if e.get('forms'):
            m['forms'] = m.get('forms', []) + e['forms']
        if e.get('second_calls'):
            m['second_calls'] = m.get('second_calls', 0) + e['second_calls']
        if e.get('repeated'):
            m['repeated'] = m.get('repeated', 0) + e['repeated']
            m['repeated_for'] = e.get('repeated_for')
        if e.get('setup_failed'):
            m['setup_failed'] = m.get('setup_failed', 0) + e['setup_failed']
            m['setup_error'] = e.get('setup_error')

    start, skip_to = (only if only is not None else 0), None
    for _guard in range(80):
        if start >= len(S):
            break
        with tempfile.NamedTemporaryFile('w', suffix='.jsonl', delete=False) as tf:
            prog = tf.name
        out = core.run_isolated('props.c20', 'worker', {'start': start, 'seed': seed, 'skip_to': skip_to, 'progress': prog, 'only': only, 'twice_all': twice_all or only is not None}, timeout=1500)
        lines = [json.loads(l) for l in Path(prog).read_text().splitlines() if l.strip()]
        os.unlink(prog)
        about, finished, poisoned = None, None, None
        for l in lines:
            if 'entry' in l:
                merge(l['entry'])
                about = None
            elif 'about' in l:
                about = l['about']
            elif 'finished' in l:
                finished = l['finished']
            elif 'poisoned_at' in l:
                poisoned = l['poisoned_at']
        if finished is not None:
            break
        if poisoned is None and about is None:
            res.violate(f'the interpreter calling the alias slots died before any call ({out.get("__error__")})', {'stderr': out.get('stderr', '')[-400:]},
                        out.get('__error__'), 'every slot can be called', where='alias slots: worker')
            break
        # the engine raised (worker retired) or killed the process during the call `at`: both sides are redone in fresh processes
        at = poisoned if poisoned is not None else about[:3]
        res.tally('worker_retired_after_engine_error' if poisoned is not None else 'worker_killed_by_the_engine')
        i, ri, si = at
        res.notes.append(f'engine {"raised" if poisoned is not None else "killed the interpreter"} in {S[i]["cls"].split(".")[-1]}.{S[i]["old"]} (receiver {ri}, arguments {si})')
        sides = {side: run_side_isolated(at, side, seed, bool(twice_all or only is not None)) for side in ('old', 'new')}
        m = merged.setdefault(i, {'calls': 0, 'both_raise': 0, 'mismatch': [], 'skipped': None})
        m['calls'] += 1
        if 'exc' in sides['old'] and 'exc' in sides['new']:
            m['both_raise'] += 1
        if sides['old'].get('died') or sides['new'].get('died'):
            if sides['old'].get('died') != sides['new'].get('died'):
                m['mismatch'].append({'receiver': S[i]['receivers'][ri], 'spec': si, 'diffs': [['the engine kills the interpreter on one side only',
                                                                                               _short(sides['old']), _short(sides['new'])]]})
        else:
            d = compare(sides['old'], sides['new'], S[i]['old'], S[i]['want'])
            if d:
                m['mismatch'].append({'receiver': S[i]['receivers'][ri], 'spec': si, 'diffs': [[k, _short(a), _short(b)] for k, a, b in d]})
        start, skip_to = i, [i, ri, si + 1]
        if only is not None and False:
            break
    return S, merged


def check(ctx) -> Result:
    res = Result(rule=RULE, tolerance='exact after canonicalisation (same code path on both sides)')
    T = getattr(ctx, 'table', None) or gather()
    # (C2) the wrapper model on generated hierarchies
    for stream, n_ in ((check_wrapper_model, ctx.n(300, 6000)), (check_signature_model, ctx.n(200, 4000)), (check_world_model, ctx.n(250, 5000)),
                       (check_kw_model, ctx.n(200, 4000))):
        try:
            stream(ctx, res, n_)
        except Exception:  # noqa: BLE001  (a wrapper behaving outside what the stream expects: reported, the other streams still run)
            import traceback

            res.diverge(f'{stream.__name__}: the real decorator behaves outside what the model-correspondence stream expects', None, 'no exception',
                        traceback.format_exc()[-1200:], where='deprecated.py decorators')
    # (C1) every slot
    S, merged = run_workers(ctx, res, T, ctx.seed)
    covered = 0
    uncovered = []
    for i, s in enumerate(S):
        m = merged.get(i)
        case = {'class': s['cls'], 'old': s['old'], 'new_by_spelling': s['want'], 'declared_new': s['declared_new']}
        if m is None:
            uncovered.append((s['cls'], s['old'], 'not reached'))
            continue
        res.count(case, nontrivial=(s['cls'] != s['owner']) or m['calls'] > 1)
        res.tally('slot_calls', m['calls'])
        res.tally('slot_calls_raising_on_both_sides', m['both_raise'])
        if m['skipped']:
            if s['cls'] in NO_INSTANCE and m['skipped'].startswith('no instance'):
                res.tally('slots_of_classes_without_instance')
            else:
                uncovered.append((s['cls'], s['old'], m['skipped']))
            continue
        for f_ in m.get('forms', []):
            res.tally('slot_calls_in_argument_form:' + f_)
        if m.get('second_calls'):
            res.tally('slot_calls_followed_by_a_second_call_on_the_same_receiver', m['second_calls'])
        if m.get('repeated'):
            res.tally('slot_calls_repeated_to_confirm_a_difference_in_process_state_or_files', m['repeated'])
        if m.get('setup_failed'):
            res.tally('calls_whose_receiver_or_arguments_cannot_be_built', m['setup_failed'])
        if m['calls'] == 0:
            uncovered.append((s['cls'], s['old'], 'no call made' + (': ' + str(m.get('setup_error')) if m.get('setup_error') else '')))
            continue
        covered += 1
        for mm in m['mismatch'][:2]:
            where = W_STATIC if s['old'] == 'descriptionOfNativeDraws' else f'alias {s["owner"].split(".")[-1]}.{s["old"]}'
            res.violate(f'{s["cls"].split(".")[-1]}.{s["old"]}(...) does not behave like {s["want"]}(...): ' + '; '.join(d[0] for d in mm['diffs']),
                        {**case, 'receiver': mm['receiver'], 'arguments': mm['spec']}, [d[1] for d in mm['diffs']], [d[2] for d in mm['diffs']], where=where)
        if s['declared_new'] != s['want']:
            res.violate(f'the warning of {s["old"]} names {s["declared_new"]!r}; the spelling designates {s["want"]!r}', case, s['declared_new'], s['want'],
                        where=f'alias {s["owner"].split(".")[-1]}.{s["old"]}')
    res.exhaustive = not uncovered and covered + res.distribution.get('slots_of_classes_without_instance', 0) == len(S)
    res.extra_obligations.append({'name': 'correspondence.every_slot_called', 'ok': not uncovered,
                                  'why': f'{len(uncovered)} slots not exercised: {uncovered[:5]}'})
    res.notes.append(f'{len(S)} slots; {covered} called on instances; {res.distribution.get("slots_of_classes_without_instance", 0)} belong to classes without '
                     f'instance ({", ".join(k.split(".")[-1] for k in NO_INSTANCE)})')
    # obsolete keywords
    kstart = 0
    kres = []
    for _ in range(12):
        out = core.run_isolated('props.c20', 'kw_worker', {'start': kstart, 'seed': ctx.seed}, timeout=900)
        if '__error__' in out:
            res.violate(f'the interpreter calling the obsolete keywords died ({out["__error__"]})', {'stderr': out.get('stderr', '')[-400:]}, out['__error__'],
                        'every obsolete keyword can be used', where='obsolete keywords: worker')
            break
        kres += out['results']
        if out.get('poisoned_at'):
            res.tally('worker_retired_after_engine_error')
            kstart = out['poisoned_at']
            o = out['outs']
            kres.append({'idx': kstart, 'owner': '?', 'func': '?', 'obsolete': [], 'known_use': True, 'both_raise': True,
                         'diffs': [] if len(o) == 1 or o['old'].get('exc') == o.get('new', {}).get('exc') else [['exception', str(o['old']), str(o.get('new'))]]})
        else:
            break
    seen_kw = set()
    for e in kres:
        for o in e['obsolete']:
            seen_kw.add((e['owner'], e['func'], o))
        case = {'owner': e['owner'], 'function': e['func'], 'obsolete_keywords': e['obsolete']}
        res.count(case, nontrivial=True)
        res.tally('obsolete_keyword_calls')
        if e.get('both_raise'):
            res.tally('obsolete_keyword_calls_raising_on_both_sides')
            res.notes.append(f'{e["func"]}({e["obsolete"]}) raises on both sides: {e.get("exc")}')
        for d in e['diffs'][:2]:
            res.violate(f'{e["owner"].split(".")[-1]}.{e["func"]}: obsolete keyword(s) {e["obsolete"]} do not behave like the replacement: {d[0]}', case, d[1], d[2],
                        where=f'obsolete keyword of {e["owner"].split(".")[-1]}.{e["func"]}')
    missing_kw = [(u['owner_name'], u['func'], o) for u in T['kwuses'] for o in u['map'] if (u['owner_name'], u['func'], o) not in seen_kw]
    res.extra_obligations.append({'name': 'correspondence.every_obsolete_keyword_used', 'ok': not missing_kw, 'why': f'not exercised: {missing_kw[:5]}'})
    # old names kept by hand (properties, undecorated functions), found by their spelling on live receivers
    hw = core.run_isolated('props.c20', 'handwritten_worker', {'seed': ctx.seed}, timeout=900)
    if '__error__' in hw:
        res.violate(f'the interpreter reading the old names kept by hand died ({hw["__error__"]})', {'stderr': hw.get('stderr', '')[-400:]}, hw['__error__'],
                    'every old property can be read and written', where='hand-written alias: worker')
    for e in hw.get('results', []):
        case = {'class': e['class'], 'old': e['old'], 'new_by_spelling': e['new'], 'kind': e['kind'], 'receiver': e['receiver']}
        res.count(case, nontrivial=True)
        res.tally('hand_written_old_names:' + e['kind'] + (':silent(read only compared)' if e.get('silent') else ''), 1)
        res.tally('hand_written_old_name_calls', e['calls'])
        for d in e['diffs'][:2]:
            res.violate(f'{e["class"].split(".")[-1]}.{e["old"]} ({e["kind"]} kept by hand) does not behave like {e["new"]}: {d[0]}', case, d[1], d[2],
                        where=f'hand-written alias {e["class"].split(".")[-1]}.{e["old"]}')
    not_called = [(e['class'], e['old'], e['uncovered']) for e in hw.get('results', []) if e.get('uncovered')]
    res.extra_obligations.append({'name': 'correspondence.every_hand_written_old_name_exercised', 'ok': not not_called and '__error__' not in hw,
                                  'why': f'not exercised: {not_called[:5]}'})
    if ctx.tier == 'thorough':
        # a second full pass with another seed (random draws, random initial values)
        S2, merged2 = run_workers(ctx, res, T, ctx.seed + 1000, twice_all=True)
        for i, s in enumerate(S2):
            for mm in (merged2.get(i) or {}).get('mismatch', [])[:1]:
                where = W_STATIC if s['old'] == 'descriptionOfNativeDraws' else f'alias {s["owner"].split(".")[-1]}.{s["old"]}'
                res.violate(f'{s["cls"].split(".")[-1]}.{s["old"]}(...) does not behave like {s["want"]}(...) (second pass)',
                            {'class': s['cls'], 'old': s['old'], 'new_by_spelling': s['want'], 'receiver': mm['receiver'], 'arguments': mm['spec'], 'seed': ctx.seed + 1000},
                            [d[1] for d in mm['diffs']], [d[2] for d in mm['diffs']], where=where)
            res.tally('slot_calls', (merged2.get(i) or {}).get('calls', 0))
    ctx.batch.flush()
    # one violation of every call site first (only the first few replays are written): round-robin over `where`
    groups = {}
    for v in res.violations:
        wh = str(v.get('where'))
        groups.setdefault(wh if wh.startswith('deprecated.') else ' '.join(wh.split(' ')[:1]), []).append(v)
    order = sorted(groups, key=lambda k: k.startswith('deprecated.'))  # slots of the real package before the generated hierarchies
    res.violations = [groups[k][j] for j in range(max((len(g) for g in groups.values()), default=0)) for k in order if j < len(groups[k])]
    return res


def search(ctx, res, broken):
    """an obligation broke without a concrete failing call: name the offending table entries and call them"""
    T = getattr(ctx, 'table', None) or gather()
    # 1. the property oracle on the real wrapper, on every structured hierarchy (no model, no table involved)
    capped = _Capped(res)
    for case in chain_cases() + [gen_hierarchy(ctx.rng) for _ in range(400)]:
        b = build_hierarchy(case)
        if b is not None:
            for o in hierarchy_calls(case, b):
                judge_hierarchy_call(capped, case, o)
    # 2. the slots of the aliases the table obligations refuse: called again, old name against the replacement its spelling designates
    S = None
    for a in T['aliases']:
        if not py_alias_ok(T, a) and (a['owner_name'], a['old']) not in known_bad_slots(ctx.findings):
            res.notes.append(f'table condition fails for {a["owner_name"]}.{a["old"]} -> {a["new"]}')
            S = S or slot_list(T)
            tried = 0
            for idx, sl in enumerate(S):
                if sl['owner'] == a['owner_name'] and sl['old'] == a['old'] and sl['receivers'] and tried < 4:
                    tried += 1
                    _, merged = run_workers(ctx, res, T, ctx.seed, only=idx)
                    for mm in (merged.get(idx) or {}).get('mismatch', [])[:1]:
                        res.violate(f'{sl["cls"].split(".")[-1]}.{sl["old"]}(...) does not behave like {sl["want"]}(...): ' + '; '.join(d[0] for d in mm['diffs']),
                                    {'class': sl['cls'], 'old': sl['old'], 'new_by_spelling': sl['want'], 'declared_new': sl['declared_new'], 'receiver': mm['receiver'],
                                     'arguments': mm['spec']}, [d[1] for d in mm['diffs']], [d[2] for d in mm['diffs']], where=f'alias {sl["owner"].split(".")[-1]}.{sl["old"]}')
            if len(res.violations) >= 5:
                return
        legacy = (a['old'] != a['new'] and norm_name(a['old']) == norm_name(a['new'])) or (a['old'], a['new']) in EXCEPTIONS
        if not legacy:
            res.violate(f'{a["owner_name"]}.{a["old"]} points users to {a["new"]!r}, which is not the function its name designates',
                        {'owner': a['owner_name'], 'old': a['old'], 'declared_new': a['new']}, a['new'], 'a respelling of the old name',
                        where=f'alias {a["owner_name"].split(".")[-1]}.{a["old"]}')
            return
    for u in T['kwuses']:
        olds = list(u['map'])
        news = [n for n in u['map'].values() if n]
        bad = [n for n in news if n not in u['params'] and n not in u['extra']] + [o for o in olds if o in u['params']]
        if bad or len(set(news)) != len(news):
            res.violate(f'keyword map of {u["owner_name"]}.{u["func"]} is not sound: {bad or "two obsolete names share a target"}',
                        {'owner': u['owner_name'], 'function': u['func'], 'map': u['map']}, u['map'], 'injective map onto existing parameters',
                        where=f'obsolete keyword of {u["owner_name"].split(".")[-1]}.{u["func"]}')
            return


def replay(ctx, obj):
    case = obj.get('case') or {}
    out = {'replayed': obj.get('what')}
    if 'class' in case and 'old' in case:
        T = gather()
        S = slot_list(T)
        idx = next((i for i, s in enumerate(S) if s['cls'] == case['class'] and s['old'] == case['old']), None)
        if idx is None:
            out.update({'property_fails': False, 'note': 'the slot does not exist any more'})
            return out
        r2 = Result()
        _, merged = run_workers(ctx, r2, T, case.get('seed', obj.get('seed', 0)), only=idx)
        entry = merged.get(idx)
        fails = bool(entry and entry['mismatch']) or S[idx]['declared_new'] != S[idx]['want'] or bool(r2.violations)
        out.update({'property_fails': fails, 'observed': entry})
    elif 'world' in case:
        wc = case['world']
        b = build_hierarchy(wc['hierarchy'])
        o = run_world_case(wc, b) if b is not None else None
        if o is None:
            out.update({'property_fails': False, 'note': 'hierarchy refused by python / class without alias'})
            return out
        r = Result()
        fl = [[f['action'], filter_matches(f)] for f in wc['filters']]
        fails = not o['old']['filters_unchanged']
        if wc['filters'] and fl[0][1] and not wc['raise_flag']:
            fails = fails or (fl[0][0] == 'ignore' and (o['old']['shown'] != 0 or (o['sound'] and o['old']['calls'] != o['new']['calls']))) \
                or (fl[0][0] == 'error' and any(c['raised'] != 'DeprecationWarning' for c in o['old']['calls'])) \
                or (fl[0][0] == 'always' and not o['static'] and (o['old']['shown'] != wc['n'] or o['old']['messages'] != [ALIAS_MSG]))
        out.update({'property_fails': bool(fails), 'observed': o['old'], 'expected': o['new']})
    elif 'hierarchy' in case:
        r = Result()
        b = build_hierarchy(case['hierarchy'])
        if b is None:
            out.update({'property_fails': False, 'note': 'hierarchy refused by python'})
            return out
        one = {**case['hierarchy'], 'calls': [case['call']]}
        for o in hierarchy_calls(one, b):
            judge_hierarchy_call(r, one, o)
        out.update({'property_fails': bool(r.violations), 'observed': [v.get('observed') for v in r.violations][:2], 'expected': [v.get('expected') for v in r.violations][:2]})
    elif 'function' in case:
        r = core.run_isolated('props.c20', 'kw_worker', {'start': 0, 'seed': 0}, timeout=900)
        bad = [e for e in r.get('results', []) if e['func'] == case['function'] and e['diffs']]
        out.update({'property_fails': bool(bad), 'observed': bad[:2]})
    else:
        out.update({'property_fails': False, 'note': 'nothing to replay (no concrete input in this file)'})
    return out
