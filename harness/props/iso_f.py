"""Helper of the checks C04, C09, C10 (not a check itself): run a module's `check_impl` / `replay_impl`
in a fresh interpreter, so that a C++ engine that dies (segmentation fault on a corrupted draw table,
thread block or panel map) is reported as a failure of the case being evaluated - with that case as
the concrete input - instead of killing the check.

The child writes the case it is about to evaluate into a progress file (`note`); when the child
dies, the parent reads it back.
"""

from __future__ import annotations

import importlib
import json
import os
import tempfile

from lib import core

PROGRESS = None  # path of the progress file (set in the child)


def note(case, where=''):
    """called by the streams just before the real code is driven on `case`"""
    if PROGRESS:
        try:
            with open(PROGRESS, 'w') as f:
                json.dump({'case': case, 'where': where}, f, default=str)
        except OSError:
            pass


def _to_json(res: core.Result) -> dict:
    return {
        'evaluations': res.evaluations, 'nontrivial': sorted(res.nontrivial), 'rule': res.rule, 'samples': res.samples,
        'distribution': res.distribution, 'divergences': res.divergences, 'violations': res.violations, 'notes': res.notes,
        'tolerance': res.tolerance, 'exhaustive': res.exhaustive, 'extra_trusted': res.extra_trusted,
        'extra_obligations': res.extra_obligations, 'traces_validated': res.traces_validated,
    }


def _from_json(d: dict) -> core.Result:
    res = core.Result()
    res.evaluations = d['evaluations']
    res.nontrivial = set(d['nontrivial'])
    res.rule = d['rule']
    res.samples = d['samples']
    res.distribution = d['distribution']
    res.divergences = d['divergences']
    res.violations = d['violations']
    res.notes = d['notes']
    res.tolerance = d['tolerance']
    res.exhaustive = d['exhaustive']
    res.extra_trusted = d['extra_trusted']
    res.extra_obligations = d['extra_obligations']
    res.traces_validated = d['traces_validated']
    return res


def child(payload):
    """(fresh process) run module.check_impl or module.replay_impl"""
    import warnings

    warnings.simplefilter('ignore')
    import logging

    logging.disable(logging.WARNING)
    global PROGRESS
    PROGRESS = payload['progress']
    from vcheck import Ctx

    mod = importlib.import_module(payload['module'])
    ctx = Ctx(payload['prop'], payload['tier'], payload['seed'])
    try:
        if payload.get('replay') is not None:
            return {'replay': mod.replay_impl(ctx, payload['replay'])}
        return {'result': _to_json(mod.check_impl(ctx))}
    except core.LeanError as e:
        return {'__lean_error__': str(e)}


def _run(module, ctx, extra, timeout):
    fd, path = tempfile.mkstemp(prefix='vbg_progress_', suffix='.json')
    os.close(fd)
    try:
        payload = {'module': module, 'prop': ctx.prop, 'tier': ctx.tier, 'seed': ctx.seed, 'progress': path, **extra}
        out = core.run_isolated('props.iso_f', 'child', payload, timeout=timeout)
        last = None
        try:
            txt = open(path).read()
            last = json.loads(txt) if txt.strip() else None
        except (OSError, ValueError):
            last = None
        return out, last
    finally:
        try:
            os.unlink(path)
        except OSError:
            pass


def run_check_isolated(module: str, ctx, where_default: str, timeout: int = 20000) -> core.Result:
    out, last = _run(module, ctx, {}, timeout)
    if '__lean_error__' in out:
        raise core.LeanError(out['__lean_error__'])
    if 'result' in out:
        return _from_json(out['result'])
    if out.get('__error__') == 'timeout':
        raise TimeoutError('isolated check timed out')
    # the process died: the last noted case is the concrete failing input
    res = core.Result()
    res.notes.append('the process driving the real code died: ' + json.dumps(out)[-800:])
    res.violate(
        f'the process that drives the real code dies ({out.get("__error__")}) while this case is evaluated',
        (last or {}).get('case') or {'stream': 'unknown (no case had been started)'},
        out.get('__error__'),
        'the entry points return a value',
        where=(last or {}).get('where') or where_default,
    )
    res.evaluations = 1
    return res


def run_replay_isolated(module: str, ctx, obj, timeout: int = 3000) -> dict:
    out, _ = _run(module, ctx, {'replay': obj}, timeout)
    if '__lean_error__' in out:
        raise core.LeanError(out['__lean_error__'])
    if 'replay' in out:
        return out['replay']
    return {'replayed': obj.get('what'), 'property_fails': True, 'note': 'the process driving the real code dies on this input', 'detail': out}
