#!/bin/bash
# usage: seed_batch.sh Cxx   -- evaluates /tmp/seed_Cxx/mutation_{1,2}.diff with their demos (full test suite included)
P=$1
D=/tmp/seed_$P
for k in 1 2; do
  if [ -f $D/mutation_$k.diff ] && [ -f $D/demo_$k.py ]; then
    NEEDS=$(/venv/bin/python -c "
import json,sys
try:
    n=json.load(open('$D/notes.json'))
    e=[x for x in n if str(x.get('mutation','')).endswith('mutation_$k.diff')]
    e=e[0] if e else n[$k-1]
    print((e.get('what_it_needs_to_manifest','') or '')[:400])
except Exception as ex:
    print('')
")
    NOTES=$(/venv/bin/python -c "
import json,sys
try:
    n=json.load(open('$D/notes.json'))
    e=[x for x in n if str(x.get('mutation','')).endswith('mutation_$k.diff')]
    e=e[0] if e else n[$k-1]
    print(((e.get('what_it_changes','') or '')+' || '+(e.get('why_it_breaks_the_property','') or ''))[:700])
except Exception as ex:
    print('')
")
    cd /verif && /venv/bin/python harness/seedtest.py agent_${P}_$k $P $D/mutation_$k.diff $D/demo_$k.py --tests --needs "$NEEDS" --notes "$NOTES"
  fi
done
