#!/venv/bin/python
"""Confirms that seeded changes pass the repository's own test suite, in batches.

  seedsuite.py <glob of seed ids, e.g. 'agent3_*'> [--jobs 2]

Seeds whose patches touch disjoint code are applied TOGETHER in one scratch worktree of /repo HEAD (greedy: a patch
joins the first batch on which `git apply --check` succeeds) and the complete suite is run once per batch.  A test
that fails because of one patch also fails with further, unrelated patches applied, so "the batch passes" confirms
every member; when a batch fails, the failing tests are re-run against each member alone to find the culprit.
Results are merged into seeded/<id>/meta.json under `test_suite` (never touching the check results).  /repo itself
is never modified; worktrees live under a temp dir and are removed.
"""
from __future__ import annotations

import argparse
import fnmatch
import json
import os
import re
import shutil
import subprocess
import tempfile
import time
from concurrent.futures import ThreadPoolExecutor
from pathlib import Path

VERIF = Path(__file__).resolve().parents[1]
PY = '/venv/bin/python'


def sh(cmd, cwd=None, env=None, timeout=7200):
    p = subprocess.run(cmd, cwd=cwd, env=env, capture_output=True, text=True, timeout=timeout)
    return p.returncode, (p.stdout or '') + (p.stderr or '')


BASE = 'HEAD'


def new_wt():
    wt = Path(tempfile.mkdtemp(prefix='suitewt_'))
    shutil.rmtree(wt)
    rc, o = sh(['git', '-C', '/repo', 'worktree', 'add', '--detach', str(wt), BASE])
    assert rc == 0, o
    return wt


def drop_wt(wt):
    sh(['git', '-C', '/repo', 'worktree', 'remove', '--force', str(wt)])
    shutil.rmtree(wt, ignore_errors=True)
    sh(['git', '-C', '/repo', 'worktree', 'prune'])


def run_suite(wt, tests=None):
    env = dict(os.environ, PYTHONPATH=str(wt / 'src'), PYTHONWARNINGS='ignore')
    cmd = [PY, '-m', 'pytest', '-q', '-p', 'no:cacheprovider', '--timeout=900', '--continue-on-collection-errors', '-q'] + (tests or ['tests'])
    t0 = time.time()
    rc, o = sh(cmd, cwd=str(wt), env=env, timeout=7000)
    summary = ([l for l in o.splitlines() if (' passed' in l or ' failed' in l or ' error' in l) and ' in ' in l] or [o[-200:]])[-1]
    failed = re.findall(r'^(?:FAILED|ERROR) (\S+)', o, flags=re.M)
    return rc, summary.strip(), failed, round(time.time() - t0)


def main():
    ap = argparse.ArgumentParser()
    ap.add_argument('pattern')
    ap.add_argument('--jobs', type=int, default=2)
    ap.add_argument('--redo', action='store_true')
    ap.add_argument('--base', default='HEAD', help='commit of /repo the patches were written against (default HEAD)')
    args = ap.parse_args()
    global BASE
    BASE = args.base
    seeds = []
    for d in sorted((VERIF / 'seeded').iterdir()):
        if not fnmatch.fnmatch(d.name, args.pattern) or not (d / 'patch.diff').exists():
            continue
        m = json.loads((d / 'meta.json').read_text())
        ts = m.get('test_suite') or {}
        if not args.redo and 'passed' in str(ts.get('summary', '')) and 'failed' not in str(ts.get('summary', '')):
            continue
        seeds.append(d.name)
    print(len(seeds), 'seeds to confirm')
    # greedy batches
    batches = []  # (wt, [ids])
    unappliable = []
    for s in seeds:
        patch = str(VERIF / 'seeded' / s / 'patch.diff')
        placed = False
        for wt, ids in batches:
            if sh(['git', '-C', str(wt), 'apply', '--check', patch])[0] == 0:
                sh(['git', '-C', str(wt), 'apply', patch])
                ids.append(s)
                placed = True
                break
        if not placed:
            wt = new_wt()
            if sh(['git', '-C', str(wt), 'apply', '--check', patch])[0] == 0:
                sh(['git', '-C', str(wt), 'apply', patch])
                batches.append((wt, [s]))
            else:
                drop_wt(wt)
                unappliable.append(s)
    print(len(batches), 'batches;', 'unappliable on HEAD:', unappliable)

    def record(s, obj):
        p = VERIF / 'seeded' / s / 'meta.json'
        m = json.loads(p.read_text())
        m['test_suite'] = obj
        p.write_text(json.dumps(m, indent=1))

    def do_batch(b):
        wt, ids = b
        try:
            rc, summary, failed, wall = run_suite(wt)
            print('batch', ids, '->', rc, summary, flush=True)
            if rc == 0:
                for s in ids:
                    record(s, {'exit': 0, 'summary': summary, 'wall_s': wall,
                               'how': f'complete suite on /repo {BASE} with {len(ids)} seeded patches touching disjoint code applied together', 'batch': ids})
                return
            # attribute the failures
            for s in ids:
                w2 = new_wt()
                try:
                    sh(['git', '-C', str(w2), 'apply', str(VERIF / 'seeded' / s / 'patch.diff')])
                    rc2, sum2, failed2, wall2 = run_suite(w2, tests=sorted(set(f.split('::')[0] for f in failed)) or None)
                    print('  alone', s, '->', rc2, sum2, flush=True)
                    record(s, {'exit': rc2, 'summary': sum2 + (' (only the test files that failed in the batch: ' + ', '.join(sorted(set(f.split("::")[0] for f in failed))) + ')'),
                               'wall_s': wall2, 'failed': failed2[:10], 'batch': ids, 'batch_summary': summary})
                finally:
                    drop_wt(w2)
        finally:
            drop_wt(wt)

    with ThreadPoolExecutor(max_workers=args.jobs) as ex:
        list(ex.map(do_batch, batches))
    for s in unappliable:
        print('NOT CONFIRMED (patch does not apply on HEAD):', s)


if __name__ == '__main__':
    main()
