#!/venv/bin/python
"""Evaluate a seeded change against the checks, without touching /repo.

  seedtest.py <seed-id> <property> <patch.diff> <demo.py> [--tests] [--tier quick|thorough] [--keep <dir with notes.json>]

1. fresh scratch worktree of /repo HEAD; the demonstration must pass there (exit 0);
2. the patch is applied; the package must import; the demonstration must now fail (exit != 0);
3. with --tests the repository's whole test suite is run against the patched worktree (415 baseline tests must pass);
4. the property's check is run against the patched worktree (PYTHONPATH override, VERIF_OUT scratch);
5. results are written to /verif/seeded/<seed-id>/ (patch.diff, demo.py, meta.json).
"""

from __future__ import annotations

import argparse
import json
import os
import shutil
import subprocess
import sys
import tempfile
import time
from pathlib import Path

VERIF = Path(__file__).resolve().parents[1]
PY = '/venv/bin/python'


def sh(cmd, cwd=None, env=None, timeout=3000):
    p = subprocess.run(cmd, cwd=cwd, env=env, capture_output=True, text=True, timeout=timeout)
    return p.returncode, (p.stdout or '') + (p.stderr or '')


def run_demo(demo: Path, wt: Path):
    d = tempfile.mkdtemp(prefix='seeddemo_')
    try:
        Path(d, 'biogeme.toml').write_text('')
        env = dict(os.environ, PYTHONPATH=str(wt / 'src'), PYTHONWARNINGS='ignore')
        rc, out = sh([PY, str(Path(demo).resolve())], cwd=d, env=env, timeout=900)
        return rc, out[-1500:]
    finally:
        shutil.rmtree(d, ignore_errors=True)


def main():
    ap = argparse.ArgumentParser()
    ap.add_argument('seed_id')
    ap.add_argument('prop')
    ap.add_argument('patch')
    ap.add_argument('demo')
    ap.add_argument('--tests', action='store_true')
    ap.add_argument('--tier', default='quick')
    ap.add_argument('--notes', default='')
    ap.add_argument('--needs', default='')
    args = ap.parse_args()
    wt = Path(tempfile.mkdtemp(prefix='seedwt_'))
    out_dir = Path(tempfile.mkdtemp(prefix='seedout_'))
    meta = {'seed': args.seed_id, 'property': args.prop, 'needs_to_manifest': args.needs, 'notes': args.notes, 'ran': []}
    try:
        shutil.rmtree(wt)
        rc, o = sh(['git', '-C', '/repo', 'worktree', 'add', '--detach', str(wt), 'HEAD'])
        assert rc == 0, o
        meta['repo_head'] = sh(['git', '-C', '/repo', 'rev-parse', '--short', 'HEAD'])[1].strip()
        rc0, o0 = run_demo(Path(args.demo), wt)
        meta['demo_on_clean'] = {'exit': rc0, 'tail': o0[-300:]}
        rc, o = sh(['git', '-C', str(wt), 'apply', str(Path(args.patch).resolve())])
        meta['patch_applies'] = rc == 0
        if rc != 0:
            meta['apply_error'] = o[-500:]
            print(json.dumps(meta, indent=1))
            return 2
        env = dict(os.environ, PYTHONPATH=str(wt / 'src'), PYTHONWARNINGS='ignore')
        rc, o = sh([PY, '-c', 'import biogeme, biogeme.biogeme, biogeme.models, biogeme.results; print(biogeme.__file__)'], cwd='/tmp', env=env)
        meta['imports'] = rc == 0 and str(wt) in o
        rc1, o1 = run_demo(Path(args.demo), wt)
        meta['demo_on_mutant'] = {'exit': rc1, 'tail': o1[-400:]}
        meta['demo_discriminates'] = rc0 == 0 and rc1 != 0
        if args.tests:
            t0 = time.time()
            rc, o = sh([PY, '-m', 'pytest', '-q', '-p', 'no:cacheprovider', '--timeout=900', '--continue-on-collection-errors', '-x', '-q'], cwd=str(wt), env=env, timeout=3600)
            tail = [l for l in o.splitlines() if (' passed' in l or ' failed' in l) and ' in ' in l][-1:] or [o[-200:]]
            meta['test_suite'] = {'exit': rc, 'summary': tail[0], 'wall_s': round(time.time() - t0)}
        # the check
        env2 = dict(env, VERIF_OUT=str(out_dir))
        t0 = time.time()
        cmd = [PY, 'harness/vcheck.py', args.prop, '--tier', args.tier]
        rc, o = sh(cmd, cwd=str(VERIF), env=env2, timeout=7200)
        lines = [l for l in o.splitlines() if l.startswith('VIOLATION') or l.startswith('KNOWN-FINDING') or l.startswith(args.prop + ' ')]
        meta['check'] = {'cmd': ' '.join(cmd), 'exit': rc, 'wall_s': round(time.time() - t0), 'lines': [l[:300] for l in lines[:8]]}
        meta['caught'] = rc == 1 and any(l.startswith('VIOLATION') for l in lines)
        meta['caught_with_concrete_input'] = meta['caught'] and any(l.startswith('VIOLATION') and 'no-failing-input-found' not in l for l in lines)
        # one replay, if any
        for l in lines:
            if l.startswith('VIOLATION') and 'replay=' in l:
                rp = l.split('replay=')[1].split()[0]
                try:
                    obj = json.loads(Path(rp).read_text())
                    meta['replay_example'] = {'kind': obj.get('kind'), 'what': str(obj.get('what'))[:300], 'case': json.dumps(obj.get('case'))[:600]}
                except Exception:  # noqa: BLE001
                    pass
                break
        meta['ran'] = ['demo on clean worktree', 'git apply', 'import', 'demo on mutant'] + (['full pytest suite on mutant'] if args.tests else []) + [meta['check']['cmd'] + f' with PYTHONPATH={wt}/src']
    finally:
        sh(['git', '-C', '/repo', 'worktree', 'remove', '--force', str(wt)])
        shutil.rmtree(wt, ignore_errors=True)
        shutil.rmtree(out_dir, ignore_errors=True)
        sh(['git', '-C', '/repo', 'worktree', 'prune'])
    dest = VERIF / 'seeded' / args.seed_id
    dest.mkdir(parents=True, exist_ok=True)
    if (dest / 'meta.json').exists():
        old = json.loads((dest / 'meta.json').read_text())
        for k in ('test_suite', 'needs_to_manifest', 'notes'):
            if not meta.get(k) and old.get(k):
                meta[k] = old[k]
        meta['first_run_before_strengthening'] = old.get('first_run_before_strengthening') or {'caught': old.get('caught'), 'check': old.get('check', {}).get('lines', [])[-1:]}
    if Path(args.patch).resolve() != (dest / 'patch.diff').resolve():
        shutil.copy(args.patch, dest / 'patch.diff')
    if Path(args.demo).resolve() != (dest / 'demo.py').resolve():
        shutil.copy(args.demo, dest / 'demo.py')
    (dest / 'meta.json').write_text(json.dumps(meta, indent=1))
    print(json.dumps({k: meta.get(k) for k in ('seed', 'property', 'demo_discriminates', 'caught', 'caught_with_concrete_input')}, indent=None), meta.get('check', {}).get('lines', [])[-1:] )
    return 0


if __name__ == '__main__':
    sys.exit(main())
