#!/venv/bin/python
"""Single entry point of the checks:   vcheck.py <Cxx> --tier quick|thorough [--replay f]

Decision procedure (DESIGN.md §3): rebuild (translators, lake build, axiom audit) → corpus →
correspondence → relations on real runs → verdict (failing-input search when anything broke) →
evidence.  Exit 0: the property held on everything explored; exit 1 + `VIOLATION …`; exit 2:
timeout / infrastructure problem (never reported as a violation).
"""

from __future__ import annotations

import argparse
import importlib
import json
import os
import signal
import sys
import time
import traceback
from pathlib import Path

sys.path.insert(0, str(Path(__file__).resolve().parent))
os.environ.setdefault('BIOGEME_VERIF', '1')
os.environ.setdefault('PYTHONWARNINGS', 'ignore')

import warnings  # noqa: E402

warnings.simplefilter('ignore')
import logging  # noqa: E402

logging.disable(logging.CRITICAL)

from lib import core  # noqa: E402


class Ctx:
    def __init__(self, prop, tier, seed):
        self.prop = prop
        self.tier = tier
        self.seed = seed
        self.rng = core.rng_for(prop, seed)
        self.driver = core.Driver(prop)
        self.batch = core.Batch(self.driver)
        self.findings = core.load_findings(prop)
        self.quick = tier == 'quick'

    def n(self, quick: int, thorough: int) -> int:
        return quick if self.quick else thorough


def run_check(mod, ctx, audit, budget):
    import pickle
    import tempfile

    pf = tempfile.mktemp(prefix='vprog_')
    rf = tempfile.mktemp(prefix='vres_')
    core.PROGRESS_FILE = pf
    sys.stdout.flush()
    sys.stderr.flush()
    pid = os.fork()
    if pid == 0:
        code = 0
        try:
            signal.alarm(max(30, budget - 20))
            try:
                res = mod.check(ctx)
            except core.LeanError as e:
                if audit.build_ok:
                    traceback.print_exc()
                    os._exit(4)
                res = core.Result()
                res.notes.append(f'driver unavailable because the build is broken: {e}')
            except BaseException:  # noqa: BLE001
                res = core.Result()
                last = None
                try:
                    last = json.loads(Path(pf).read_text())
                except Exception:  # noqa: BLE001
                    pass
                res.diverge('the check raised an unexpected exception while driving the real code (behaviour outside what the harness expects)',
                            last, 'no exception', traceback.format_exc()[-1500:])
            if ctx.batch.failed:
                if audit.build_ok:
                    print(ctx.batch.failed)
                    os._exit(4)
                res.notes.append('model driver unavailable because the build is broken: ' + ctx.batch.failed[:200])
            with open(rf, 'wb') as f:
                pickle.dump(res, f)
        except BaseException:  # noqa: BLE001
            traceback.print_exc()
            code = 3
        sys.stdout.flush()
        sys.stderr.flush()
        os._exit(code)
    _, status = os.waitpid(pid, 0)
    core.PROGRESS_FILE = None
    res = None
    if os.path.exists(rf):
        with open(rf, 'rb') as f:
            res = pickle.load(f)
        os.unlink(rf)
    last = None
    if os.path.exists(pf):
        try:
            last = json.loads(Path(pf).read_text())
        except Exception:  # noqa: BLE001
            last = None
        os.unlink(pf)
    if os.WIFEXITED(status) and os.WEXITSTATUS(status) == 4:
        return None
    if res is None and os.WIFEXITED(status) and os.WEXITSTATUS(status) == 2:
        # the alarm handler inherited by the child printed TIMEOUT and left with 2: a time-out of the check body is an
        # infrastructure outcome (exit 2), never a violation
        print(f'TIMEOUT property={ctx.prop} (check body; exit 2, not a violation)')
        os._exit(2)
    if res is None:
        sig = os.WTERMSIG(status) if os.WIFSIGNALED(status) else None
        if sig == signal.SIGALRM:
            print(f'TIMEOUT property={ctx.prop} (exit 2, not a violation)')
            os._exit(2)
        res = core.Result()
        res.evaluations = 1
        res.violate(f'the process died (signal {sig}, status {status}) while the real code evaluated this case', last,
                    f'process killed by signal {sig}', 'a value or a library error', where='process crash')
    return res


def forked_search(mod, ctx, res, broken):
    """failing-input search in a child process (the real code may crash there too)"""
    import pickle
    import tempfile

    rf = tempfile.mktemp(prefix='vsearch_')
    sys.stdout.flush()
    pid = os.fork()
    if pid == 0:
        try:
            n0 = len(res.violations)
            mod.search(ctx, res, broken)
            with open(rf, 'wb') as f:
                pickle.dump(res.violations[n0:], f)
        except BaseException:  # noqa: BLE001
            traceback.print_exc()
        sys.stdout.flush()
        os._exit(0)
    os.waitpid(pid, 0)
    if os.path.exists(rf):
        with open(rf, 'rb') as f:
            out = pickle.load(f)
        os.unlink(rf)
        return out
    return []


def selftest() -> int:
    ok, log = core.lean_build([])
    if not ok:
        print(log[-3000:])
        return 1
    d = core.Driver('C15')
    r = d.ask([{'op': 'render', 'name': 'a', 'value': '1.0'}, {'op': 'nonsense'}])
    assert r[0] == {'line': 'a = 1.0'} and r[1] == {'error': 'bad-op'}, r
    print('selftest ok')
    return 0


def main() -> int:
    ap = argparse.ArgumentParser()
    ap.add_argument('prop', nargs='?')
    ap.add_argument('--tier', default=os.environ.get('VERIF_TIER', 'quick'), choices=['quick', 'thorough'])
    ap.add_argument('--replay')
    ap.add_argument('--selftest', action='store_true')
    args = ap.parse_args()
    if args.selftest:
        return selftest()
    prop = args.prop
    seed = int(os.environ.get('VERIF_SEED', '0'))
    mod = importlib.import_module(f'props.{prop.lower()}')
    ctx = Ctx(prop, args.tier, seed)

    if args.replay:
        obj = json.loads(Path(args.replay).read_text())
        out = mod.replay(ctx, obj)
        print(json.dumps(out, indent=1, default=str))
        return 1 if out.get('property_fails') else 0

    budget = int(os.environ.get('VERIF_TIMEOUT', '1500' if args.tier == 'quick' else '7000'))

    def on_alarm(signum, frame):
        print(f'TIMEOUT property={prop} after {budget}s (exit 2, not a violation)')
        os._exit(2)

    signal.signal(signal.SIGALRM, on_alarm)
    signal.alarm(budget)

    t0 = time.time()
    # 1. rebuild: translators, lake build, audit
    extra_obl = []
    try:
        if hasattr(mod, 'translate'):
            extra_obl = mod.translate(ctx) or []
        audit = core.lean_audit(prop, getattr(mod, 'EXTRA_MODULES', None))
    except Exception:
        traceback.print_exc()
        print('infrastructure failure while building the Lean project (exit 2)')
        return 2

    # 2-4. corpus, correspondence, relations — in a child process: a crash of the external engine (segfault, abort)
    # or an unexpected exception of the real code is a finding about the case being evaluated, not the end of the check
    res = run_check(mod, ctx, audit, budget)
    if res is None:
        print('infrastructure failure: Lean driver (exit 2)')
        return 2
    res.extra_obligations = list(extra_obl) + list(res.extra_obligations)

    obligations = list(audit.obligations) + [o['name'] for o in res.extra_obligations]
    discharged = list(audit.discharged) + [o['name'] for o in res.extra_obligations if o.get('ok')]
    broken = list(audit.broken) + [
        {'name': o['name'], 'why': o.get('why', 'generated obligation does not check')}
        for o in res.extra_obligations
        if not o.get('ok')
    ]

    # thorough: independent re-check of the compiled proofs
    lc = None
    if args.tier == 'thorough' and audit.build_ok:
        ok, out = core.leanchecker([f'Props.{prop}'])
        lc = {'ok': ok, 'tail': out[-200:]}
        if not ok:
            broken.append({'name': f'leanchecker Props.{prop}', 'why': out[-200:]})

    # 5. verdict
    lines = []
    n_viol = 0
    # violations that are listed known findings (same call site `where`, and the entry's `match`
    # predicate - implemented by the module in MATCHERS - accepts the concrete case) are not alarms
    matchers = getattr(mod, 'MATCHERS', {})

    def find_known(v):
        for f in ctx.findings:
            if f.get('kind') != 'known' or not v.get('where') or f.get('where') != v.get('where'):
                continue
            pred = matchers.get(f.get('match', ''), None)
            if f.get('match') and pred is None:
                continue
            if pred is None or pred(v.get('case')):
                return f
        return None

    def split_known(items):
        remaining = []
        for v in items:
            hit = find_known(v)
            if hit is None:
                remaining.append(v)
            elif not any(h[0]['id'] == hit['id'] for h in res.known_hits):
                res.known_hits.append((hit, 'e.g. ' + json.dumps(v.get('case'), default=str)[:160]))
        return remaining

    res.violations = split_known(res.violations)
    res.divergences = split_known(res.divergences)
    for f, detail in res.known_hits:
        lines.append(f"KNOWN-FINDING: property={prop} {f['what_fails']} [{f['id']}] {detail}")
    if (res.divergences or broken) and not res.violations and hasattr(mod, 'search'):
        # something broke: look for a concrete failing input on the real code
        found = forked_search(mod, ctx, res, broken)
        if found:
            res.violations.extend(found)
    for v in res.violations[:5]:
        p = core.write_replay(prop, {'property': prop, 'kind': 'failing-input', **v, 'seed': seed,
                                      'how_to_replay': f'/venv/bin/python harness/vcheck.py {prop} --replay <this file>'})
        lines.append(f'VIOLATION property={prop} replay={p}')
        n_viol += 1
    if not res.violations and (res.divergences or broken):
        obj = {
            'property': prop,
            'kind': 'no-failing-input-found',
            'broken_obligations': broken,
            'divergences': res.divergences[:5],
            'seed': seed,
            'note': 'a theorem / generated obligation / model-code correspondence no longer checks; '
            'the failing-input search on the real code found no input on which the property itself fails',
        }
        p = core.write_replay(prop, obj)
        lines.append(f'VIOLATION property={prop} replay={p} no-failing-input-found')
        n_viol += 1

    wall = time.time() - t0
    # 6. evidence
    ev = {
        'property_id': prop,
        'tier': args.tier,
        'seed': seed,
        'level': 'proof',
        'coverage': {
            'obligations': len(obligations),
            'discharged': len(discharged),
            'checker_cmd': f'cd lean && lake build Props.{prop} && lake env lean <generated #print axioms file for every theorem of Props/{prop}.lean>'
            + (' && lake env leanchecker Props.' + prop if args.tier == 'thorough' else ''),
            'trusted_base': core.TRUSTED_BASE_COMMON + list(getattr(mod, 'TRUSTED', [])) + res.extra_trusted,
            'obligation_names': obligations,
            'broken': broken,
            'axioms': audit.axioms,
            'evaluations': res.evaluations,
            'distinct_nontrivial': len(res.nontrivial),
            'rule': res.rule or getattr(mod, 'RULE', ''),
            'samples': res.samples[:3] if res.samples else [{'obligations': obligations[:3]}],
            'input_distribution': res.distribution,
            'tolerance': res.tolerance,
            'divergences_model_vs_code': len(res.divergences),
            'known_findings_reproduced': [f['id'] for f, _ in res.known_hits],
            'traces_validated_against_impl': res.traces_validated,
            'exhaustive': res.exhaustive,
            'notes': res.notes[:20],
            'leanchecker': lc,
        },
        'assumptions': list(getattr(mod, 'ASSUMPTIONS', [])),
        'wall_s': round(wall, 2),
        'violations': n_viol,
    }
    (core.OUT / 'evidence').mkdir(parents=True, exist_ok=True)
    (core.OUT / 'evidence' / f'{prop}.json').write_text(json.dumps(ev, indent=1, default=str))
    for l in lines:
        print(l)
    print(
        f'{prop} {args.tier} seed={seed}: obligations {len(discharged)}/{len(obligations)} discharged, '
        f'{res.evaluations} cases ({len(res.nontrivial)} distinct non-trivial), '
        f'{len(res.divergences)} divergences, {n_viol} violations, {len(res.known_hits)} known findings, {wall:.1f}s'
    )
    return 1 if n_viol else 0


if __name__ == '__main__':
    sys.exit(main())
