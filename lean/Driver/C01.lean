import Driver.Expr
import Model.IdManager
open Lean Drv Expr Engine DrvExpr

def parseDecl (j : Json) : Except String (IdM.Decl String Float) := do
  pure { name := ← getStr j "name", fixed := ← getBool j "fixed", init := ← getFloat j "init" }

def handle (j : Json) : Except String Json := do
  let op ← getStr j "op"
  match op with
  | "eval" =>
    -- value of node `root` under one of the three semantics
    let d ← parseDag (← j.getObjVal? "dag")
    let env ← parseEnv (← j.getObjVal? "env")
    let sem ← semOf (← getStr j "sem")
    let k ← getNat j "root"
    if !wfB d then throw "ill-formed dag" else
    pure (resJson (eval sem d env k))
  | "evalall" =>
    -- the three semantics at once, plus the engine path through emit/load/run
    let d ← parseDag (← j.getObjVal? "dag")
    let env ← parseEnv (← j.getObjVal? "env")
    let t ← parseTable (← j.getObjVal? "table")
    let ee ← parseEE (← j.getObjVal? "ee")
    let k ← getNat j "root"
    if !wfB d then throw "ill-formed dag" else
    pure (Json.mkObj [("math", resJson (eval semMath d env k)),
                      ("engine", resJson (eval semEngine d env k)),
                      ("py", resJson (eval semPy d env k)),
                      ("run", resJson (run t d k ee)),
                      ("byname", resJson (eval semEngine d (envOf t ee) k))])
  | "emit" =>
    let d ← parseDag (← j.getObjVal? "dag")
    let t ← parseTable (← j.getObjVal? "table")
    let k ← getNat j "root"
    pure (Json.mkObj [("names_ok", jBool (namesOKB t d)),
                      ("lines", jArr ((emit t d (k + 1) k).map lineJson))])
  | "runsig" =>
    -- load the REAL signature (decoded by the harness into structured lines) and evaluate
    let ls ← (← getArr j "lines").toList.mapM parseLineJ
    let ee ← parseEE (← j.getObjVal? "ee")
    let root ← getNat j "root"
    match (load [] ls).find root with
    | none => pure (Json.mkObj [("err", jStr "dangling")])
    | some f => pure (resJson (f ee))
  | "prepare" =>
    let decls ← (← getArr j "decls").toList.mapM parseDecl
    let cols ← strList (← j.getObjVal? "cols")
    match IdM.prepare decls [] [] cols with
    | .ok t => pure (Json.mkObj [("free", jStrs t.free), ("fixed", jStrs t.fixed), ("cols", jStrs t.cols),
                                 ("all", jStrs t.all)])
    | .error dups => pure (Json.mkObj [("duplicates", jStrs dups)])
  | _ => throw "bad-op"

def main : IO Unit := Drv.run handle
