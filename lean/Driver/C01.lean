import Driver.Expr
import Model.IdManager
import Model.Sig
import Model.IdState
import Model.ExprMC
import Model.ExprEdit
open Lean Drv Expr Engine DrvExpr

def tableJson (t : IdM.Table String) : Json :=
  Json.mkObj [("free", jStrs t.free), ("fixed", jStrs t.fixed), ("cols", jStrs t.cols)]

def sigJson (o : Option (List (SigLine Float))) : Json :=
  match o with
  | some ls => jArr (ls.map lineJson)
  | none => Json.null

/-- the inputs of one evaluation: the two parameter vectors and the data rows -/
def parseEEs (j : Json) : Except String (List (EngEnv Float)) := do
  let free ← floatList (← j.getObjVal? "free")
  let fixed ← floatList (← j.getObjVal? "fixed")
  let rows ← floatMat (← j.getObjVal? "rows")
  pure (rows.map fun r => { free := free, fixed := fixed, row := r })

/-- one step of a sequence of operations on the numbering state (`Model/IdState.lean`) -/
def idStep (d : Dag Float) (cols : List String) (st : IdState.St) (j : Json) :
    Except String (IdState.St × Json) := do
  let s ← getStr j "s"
  match s with
  | "persist" =>
    -- `IdManager(roots, database, 0)` + `set_id_manager` on each root / `BIOGEME(database, roots)`
    let roots ← natList (← j.getObjVal? "roots")
    match IdState.persist st d roots cols with
    | .ok st' =>
      match st'.tables.getLast? with
      | some t => pure (st', Json.mkObj [("table", tableJson t)])
      | none => throw "bad-op"
    | .error e => pure (st, Json.mkObj [("duplicates", jStrs e)])
  | "function" =>
    -- the preamble of `create_function`
    let k ← getNat j "node"
    match IdState.functionAt st d k cols with
    | .fresh st' => pure (st', Json.mkObj [("pre", jStr "fresh")])
    | .kept => pure (st, Json.mkObj [("pre", jStr "kept")])
    | .mixed => pure (st, Json.mkObj [("pre", jStr "mixed")])
    | .dup e => pure (st, Json.mkObj [("duplicates", jStrs e)])
  | "alone" =>
    -- evaluation with `prepare_ids=True`
    let k ← getNat j "node"
    match IdState.aloneAt st d k cols with
    | .error e => pure (st, Json.mkObj [("duplicates", jStrs e)])
    | .ok (st1, st2) =>
      let table := match IdState.tableAt st1 k with
        | some t => tableJson t
        | none => Json.null
      let vals ← match optField j "ee" with
        | some e => do
          let ees ← parseEEs e
          pure (jArr (ees.map fun ee => resJson (IdState.runSt st1 d k ee)))
        | none => pure Json.null
      pure (st2, Json.mkObj [("table", table), ("lines", sigJson (IdState.sigSt st1 d k)), ("vals", vals)])
  | "ctx" =>
    -- evaluation with `prepare_ids=False` (also the function of `create_function`, `simulate`)
    let k ← getNat j "node"
    let ees ← parseEEs (← j.getObjVal? "ee")
    match st.mgr k with
    | none => pure (st, Json.mkObj [("refused", jStr "out-of-context")])
    | some _ =>
      pure (st, Json.mkObj [("lines", sigJson (IdState.sigSt st d k)),
                            ("vals", jArr (ees.map fun ee => resJson (IdState.runSt st d k ee)))])
  | "sig" =>
    -- `get_signature()` now
    let k ← getNat j "node"
    let table := match IdState.tableAt st k with
      | some t => tableJson t
      | none => Json.null
    pure (st, Json.mkObj [("lines", sigJson (IdState.sigSt st d k)), ("table", table)])
  | "reset" =>
    -- `set_id_manager(None)` on a formula
    let k ← getNat j "node"
    pure (IdState.setMgr st (IdState.reachOf d k) none, Json.mkObj [("reset", jBool true)])
  | _ => throw "bad-op"

def idSeq (d : Dag Float) (cols : List String) : IdState.St → List Json → Except String (List Json)
  | _, [] => pure []
  | st, j :: rest => do
    let (st', out) ← idStep d cols st j
    let outs ← idSeq d cols st' rest
    pure (out :: outs)

def parseDecl (j : Json) : Except String (IdM.Decl String Float) := do
  pure { name := ← getStr j "name", fixed := ← getBool j "fixed", init := ← getFloat j "init" }

/-- `{"token": bits, …}`: the reading of decimal text as a double (Python `float`, standing for
the engine's `std::stod`) is supplied, not modelled -/
def numTable (j : Json) : Except String (List Char → Option Float) := do
  let tbl ← parsePairs j
  pure fun s => tbl.lookup (String.ofList s)

/-! ### round 3: formulas with draws (`Model/ExprMC.lean`) -/

def parseXNode (j : Json) : Except String (ExprMC.XNode Float) := do
  let k ← getStr j "k"
  let x : Option ExprMC.XKind := match k with
    | "draws" => some .draws
    | "monteCarlo" => some .monteCarlo
    | "panelTraj" => some .panelTraj
    | _ => none
  match x with
  | none => pure { x := .base, node := ← parseNode j }
  | some x =>
    let children ← match optField j "c" with
      | some v => natList v
      | none => pure []
    let name ← match optField j "name" with
      | some v => asStr v
      | none => pure ""
    pure { x := x, node := { kind := .num, children := children, name := name, value := 0.0 } }

def parseXTable (j : Json) : Except String (IdM.Table String) := do
  pure { free := ← strList (← j.getObjVal? "free"), fixed := ← strList (← j.getObjVal? "fixed"),
         rvs := [], draws := ← strList (← j.getObjVal? "draws"), cols := ← strList (← j.getObjVal? "cols") }

/-- the inputs of the engine for one individual: parameter vectors, its rows, its draws -/
def parseXE (j : Json) : Except String (ExprMC.XEngEnv Float) := do
  pure { free := ← floatList (← j.getObjVal? "free"), fixed := ← floatList (← j.getObjVal? "fixed"),
         rows := ← floatMat (← j.getObjVal? "rows"), row := 0,
         draws := ← floatMat (← j.getObjVal? "draws"), draw := none }

def handleX (op : String) (j : Json) : Except String Json := do
  match op with
  | "evalx" =>
    let d ← (← getArr j "dag").toList.mapM parseXNode
    let t ← parseXTable (← j.getObjVal? "table")
    let xe ← parseXE (← j.getObjVal? "xe")
    let k ← getNat j "root"
    if !ExprMC.wfXB d then throw "ill-formed dag" else
    pure (Json.mkObj [("run", resJson (ExprMC.runX t d k xe)),
                      ("byname", resJson (ExprMC.evalXRoot semEngine d (ExprMC.xenvOf t xe) k)),
                      ("math", resJson (ExprMC.evalXRoot semMath d (ExprMC.xenvOf t xe) k))])
  | "runtextx" =>
    -- the REAL signature text of a formula with draws read by `parseLineX`, loaded, run per individual
    let ls ← strList (← j.getObjVal? "text")
    let numOf ← numTable (← j.getObjVal? "nums")
    let xes ← (← getArr j "xes").toList.mapM parseXE
    let root ← getNat j "root"
    match ExprMC.loadTextX numOf [] (ls.map String.toList) with
    | none => pure (Json.mkObj [("err", jStr "unreadable")])
    | some st =>
      match st.find root with
      | none => pure (Json.mkObj [("err", jStr "dangling")])
      | some f => pure (Json.mkObj [("vals", jArr (xes.map fun xe => resJson (f xe)))])
  | "parsetextx" =>
    let ls ← strList (← j.getObjVal? "text")
    let numOf ← numTable (← j.getObjVal? "nums")
    pure (jArr (ls.map fun f =>
      match ExprMC.parseLineX numOf f.toList with
      | some l =>
        let tag := match l.x with
          | .base => "base" | .draws => "draws" | .monteCarlo => "monteCarlo" | .panelTraj => "panelTraj"
        Json.mkObj [("x", jStr tag), ("line", lineJson l.line)]
      | none => Json.null))
  | "editeval" =>
    -- an edit of the Beta leaves (Model/ExprEdit.lean) applied to the abstract DAG, then the engine path
    let d ← parseDag (← j.getObjVal? "dag")
    let vals ← parsePairs (← j.getObjVal? "values")
    let f : String → Option Float := fun n => vals.lookup n
    let pre ← getStr j "prefix"
    let suf ← getStr j "suffix"
    let d' ← match (← getStr j "edit") with
      | "change_init" => pure (ExprEdit.changeInit f d)
      | "fix" => pure (ExprEdit.fixBetas f pre suf d)
      | _ => throw "bad-op"
    let t ← parseTable (← j.getObjVal? "table")
    let ee ← parseEE (← j.getObjVal? "ee")
    let k ← getNat j "root"
    if !wfB d' then throw "ill-formed dag" else
    pure (Json.mkObj [("decls", jArr ((ExprEdit.decls d').map fun dc =>
                        Json.mkObj [("name", jStr dc.name), ("fixed", jBool dc.fixed), ("init", fbits dc.init)])),
                      ("run", resJson (run t d' k ee))])
  | _ => throw "bad-op"

def handle (j : Json) : Except String Json := do
  let op ← getStr j "op"
  match op with
  | "eval" =>
    -- value of node `root` under one of the three semantics
    let d ← parseDag (← j.getObjVal? "dag")
    let env ← parseEnv (← j.getObjVal? "env")
    let sem ← semOf (← getStr j "sem")
    let k ← getNat j "root"
    if !wfB d then throw "ill-formed dag" else
    pure (resJson (eval sem d env k))
  | "evalall" =>
    -- the three semantics at once, plus the engine path through emit/load/run
    let d ← parseDag (← j.getObjVal? "dag")
    let env ← parseEnv (← j.getObjVal? "env")
    let t ← parseTable (← j.getObjVal? "table")
    let ee ← parseEE (← j.getObjVal? "ee")
    let k ← getNat j "root"
    if !wfB d then throw "ill-formed dag" else
    pure (Json.mkObj [("math", resJson (eval semMath d env k)),
                      ("engine", resJson (eval semEngine d env k)),
                      ("py", resJson (eval semPy d env k)),
                      ("run", resJson (run t d k ee)),
                      ("byname", resJson (eval semEngine d (envOf t ee) k))])
  | "emit" =>
    let d ← parseDag (← j.getObjVal? "dag")
    let t ← parseTable (← j.getObjVal? "table")
    let k ← getNat j "root"
    pure (Json.mkObj [("names_ok", jBool (namesOKB t d)),
                      ("lines", jArr ((emit t d (k + 1) k).map lineJson))])
  | "runsig" =>
    -- load the REAL signature (decoded by the harness into structured lines) and evaluate
    let ls ← (← getArr j "lines").toList.mapM parseLineJ
    let ee ← parseEE (← j.getObjVal? "ee")
    let root ← getNat j "root"
    match (load [] ls).find root with
    | none => pure (Json.mkObj [("err", jStr "dangling")])
    | some f => pure (resJson (f ee))
  | "parsetext" =>
    -- the REAL signature text read by the model of the engine's reader (`Sig.parseLine`)
    let ls ← strList (← j.getObjVal? "text")
    let numOf ← numTable (← j.getObjVal? "nums")
    pure (jArr (ls.map fun f =>
      match Sig.parseLine numOf f.toList with
      | some l => lineJson l
      | none => Json.null))
  | "runtext" =>
    -- … then loaded and evaluated
    let ls ← strList (← j.getObjVal? "text")
    let numOf ← numTable (← j.getObjVal? "nums")
    let ee ← parseEE (← j.getObjVal? "ee")
    let root ← getNat j "root"
    match Sig.loadText numOf [] (ls.map String.toList) with
    | none => pure (Json.mkObj [("err", jStr "unreadable")])
    | some st =>
      match st.find root with
      | none => pure (Json.mkObj [("err", jStr "dangling")])
      | some f => pure (resJson (f ee))
  | "idseq" =>
    -- a sequence of numbering / evaluation operations on one DAG (state: `IdState.St`)
    let d ← parseDag (← j.getObjVal? "dag")
    let cols ← strList (← j.getObjVal? "cols")
    let steps ← getArr j "steps"
    if !wfB d then throw "ill-formed dag" else
    pure (jArr (← idSeq d cols IdState.St.init steps.toList))
  | "prepare" =>
    let decls ← (← getArr j "decls").toList.mapM parseDecl
    let cols ← strList (← j.getObjVal? "cols")
    let draws ← match optField j "draws" with
      | some v => strList v
      | none => pure []
    match IdM.prepare decls [] draws cols with
    | .ok t => pure (Json.mkObj [("free", jStrs t.free), ("fixed", jStrs t.fixed), ("cols", jStrs t.cols),
                                 ("draws", jStrs t.draws), ("all", jStrs t.all)])
    | .error dups => pure (Json.mkObj [("duplicates", jStrs dups)])
  | "evalx" | "runtextx" | "parsetextx" | "editeval" => handleX op j
  | _ => throw "bad-op"

def main : IO Unit := Drv.run handle
