import Driver.Expr
import Model.IdManager
import Model.Sig
open Lean Drv Expr Engine DrvExpr

def parseDecl (j : Json) : Except String (IdM.Decl String Float) := do
  pure { name := ← getStr j "name", fixed := ← getBool j "fixed", init := ← getFloat j "init" }

/-- `{"token": bits, …}`: the reading of decimal text as a double (Python `float`, standing for
the engine's `std::stod`) is supplied, not modelled -/
def numTable (j : Json) : Except String (List Char → Option Float) := do
  let tbl ← parsePairs j
  pure fun s => tbl.lookup (String.ofList s)

def handle (j : Json) : Except String Json := do
  let op ← getStr j "op"
  match op with
  | "eval" =>
    -- value of node `root` under one of the three semantics
    let d ← parseDag (← j.getObjVal? "dag")
    let env ← parseEnv (← j.getObjVal? "env")
    let sem ← semOf (← getStr j "sem")
    let k ← getNat j "root"
    if !wfB d then throw "ill-formed dag" else
    pure (resJson (eval sem d env k))
  | "evalall" =>
    -- the three semantics at once, plus the engine path through emit/load/run
    let d ← parseDag (← j.getObjVal? "dag")
    let env ← parseEnv (← j.getObjVal? "env")
    let t ← parseTable (← j.getObjVal? "table")
    let ee ← parseEE (← j.getObjVal? "ee")
    let k ← getNat j "root"
    if !wfB d then throw "ill-formed dag" else
    pure (Json.mkObj [("math", resJson (eval semMath d env k)),
                      ("engine", resJson (eval semEngine d env k)),
                      ("py", resJson (eval semPy d env k)),
                      ("run", resJson (run t d k ee)),
                      ("byname", resJson (eval semEngine d (envOf t ee) k))])
  | "emit" =>
    let d ← parseDag (← j.getObjVal? "dag")
    let t ← parseTable (← j.getObjVal? "table")
    let k ← getNat j "root"
    pure (Json.mkObj [("names_ok", jBool (namesOKB t d)),
                      ("lines", jArr ((emit t d (k + 1) k).map lineJson))])
  | "runsig" =>
    -- load the REAL signature (decoded by the harness into structured lines) and evaluate
    let ls ← (← getArr j "lines").toList.mapM parseLineJ
    let ee ← parseEE (← j.getObjVal? "ee")
    let root ← getNat j "root"
    match (load [] ls).find root with
    | none => pure (Json.mkObj [("err", jStr "dangling")])
    | some f => pure (resJson (f ee))
  | "parsetext" =>
    -- the REAL signature text read by the model of the engine's reader (`Sig.parseLine`)
    let ls ← strList (← j.getObjVal? "text")
    let numOf ← numTable (← j.getObjVal? "nums")
    pure (jArr (ls.map fun f =>
      match Sig.parseLine numOf f.toList with
      | some l => lineJson l
      | none => Json.null))
  | "runtext" =>
    -- … then loaded and evaluated
    let ls ← strList (← j.getObjVal? "text")
    let numOf ← numTable (← j.getObjVal? "nums")
    let ee ← parseEE (← j.getObjVal? "ee")
    let root ← getNat j "root"
    match Sig.loadText numOf [] (ls.map String.toList) with
    | none => pure (Json.mkObj [("err", jStr "unreadable")])
    | some st =>
      match st.find root with
      | none => pure (Json.mkObj [("err", jStr "dangling")])
      | some f => pure (resJson (f ee))
  | "prepare" =>
    let decls ← (← getArr j "decls").toList.mapM parseDecl
    let cols ← strList (← j.getObjVal? "cols")
    match IdM.prepare decls [] [] cols with
    | .ok t => pure (Json.mkObj [("free", jStrs t.free), ("fixed", jStrs t.fixed), ("cols", jStrs t.cols),
                                 ("all", jStrs t.all)])
    | .error dups => pure (Json.mkObj [("duplicates", jStrs dups)])
  | _ => throw "bad-op"

def main : IO Unit := Drv.run handle
