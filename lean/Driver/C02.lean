import Driver.Common
import Model.Diff
import Model.FinDiff
import Model.IdManager
import Model.DerivOut
open Lean Drv Diff DerivOut

partial def parseE (j : Json) : Except String (E Float) := do
  let a ← asArr j
  match a.toList with
  | [t, x] =>
    match (← asStr t) with
    | "num" => pure (.num (← asFloat x))
    | "par" => pure (.par (← asStr x))
    | "var" => pure (.var (← asStr x))
    | "neg" => pure (.neg (← parseE x))
    | "exp" => pure (.exp (← parseE x))
    | "log" => pure (.log (← parseE x))
    | _ => throw "bad-op"
  | [t, x, y] =>
    match (← asStr t) with
    | "add" => pure (.add (← parseE x) (← parseE y))
    | "sub" => pure (.sub (← parseE x) (← parseE y))
    | "mul" => pure (.mul (← parseE x) (← parseE y))
    | "div" => pure (.div (← parseE x) (← parseE y))
    | "powc" => pure (.powc (← parseE x) (← asFloat y))
    | _ => throw "bad-op"
  | _ => throw "bad-op"

def lookupF (l : List (String × Float)) (n : String) : Float := (l.lookup n).getD (0.0 / 0.0)

def parsePairs (j : Json) : Except String (List (String × Float)) := do
  (← asArr j).toList.mapM fun e => do
    let a ← asArr e
    match a.toList with
    | [n, v] => pure (← asStr n, ← asFloat v)
    | _ => throw "bad-op"

def parseEnv (j : Json) : Except String (Env Float) := do
  let ps ← parsePairs (← j.getObjVal? "par")
  let vs ← parsePairs (← j.getObjVal? "var")
  pure { par := lookupF ps, var := lookupF vs }

/-- one recorded evaluation of the real function: point, value, gradient, Hessian -/
structure Rec where
  p : List Float
  f : Float
  g : List Float
  h : List (List Float)

def parseRec (j : Json) : Except String Rec := do
  pure { p := ← floatList (← j.getObjVal? "p"), f := ← getFloat j "f", g := ← floatList (← j.getObjVal? "g"),
         h := ← floatMat (← j.getObjVal? "h") }

def samePoint (a b : List Float) : Bool := a.length == b.length && (List.zipWith (· == ·) a b).all id

/-- the function under test as the table of the values the real function returned; a point that was
never evaluated by the real code gives NaN (so that any disagreement on the points shows) -/
def tableFun (n : Nat) (t : List Rec) (p : List Float) : Float × List Float × List (List Float) :=
  let nan : Float := 0.0 / 0.0
  match t.find? fun r => samePoint r.p p with
  | some r => (r.f, r.g, r.h)
  | none => (nan, List.replicate n nan, List.replicate n (List.replicate n nan))

/-! JSON of the outputs of `Model/DerivOut.lean` -/
def jOpt {β} (f : β → Json) : Option β → Json
  | none => Json.null
  | some x => f x

def jNVec (d : NVec Float) : Json := jArr (d.map fun p => jArr [jStr p.1, fbits p.2])
def jNMat (d : NMat Float) : Json := jArr (d.map fun p => jArr [jStr p.1, jNVec p.2])

def jResult : Except String (Result Float) → Json
  | .error e => Json.mkObj [("error", jStr e)]
  | .ok (.agg o) => Json.mkObj [("kind", jStr "agg"), ("f", fbits o.f), ("g", jOpt jFloats o.g), ("h", jOpt jMat o.h), ("b", jOpt jMat o.b)]
  | .ok (.dis o) => Json.mkObj [("kind", jStr "dis"), ("f", jFloats o.fs), ("g", jOpt jMat o.gs),
                                ("h", jOpt (fun l => jArr (l.map jMat)) o.hs), ("b", jOpt (fun l => jArr (l.map jMat)) o.bs)]
  | .ok (.namedAgg o) => Json.mkObj [("kind", jStr "namedAgg"), ("f", fbits o.f), ("g", jOpt jNVec o.g), ("h", jOpt jNMat o.h), ("b", jOpt jNMat o.b)]
  | .ok (.namedDis o) => Json.mkObj [("kind", jStr "namedDis"), ("f", jFloats o.fs), ("g", jOpt (fun l => jArr (l.map jNVec)) o.gs),
                                     ("h", jOpt (fun l => jArr (l.map jNMat)) o.hs), ("b", jOpt (fun l => jArr (l.map jNMat)) o.bs)]

def parseDecls (j : Json) : Except String (List (IdM.Decl String Nat)) := do
  (← asArr j).toList.mapM fun d => do
    let a ← asArr d
    match a.toList with
    | [n, f] => pure ({ name := ← asStr n, fixed := ← asBool f, init := (0 : Nat) } : IdM.Decl String Nat)
    | _ => throw "bad-op"

def parseRows (j : Json) : Except String (List (E Float × Env Float)) := do
  (← asArr j).toList.mapM fun r => do
    let e ← parseE (← r.getObjVal? "expr")
    let env ← parseEnv (← r.getObjVal? "env")
    pure (e, env)

/-- the arrays of the engine for the rows (each row with its own row-wise expanded formula) -/
def rawOf (names : List String) (rows : List (E Float × Env Float)) (aggregation : Bool) : Raw Float :=
  let k := names.length
  let fs := rows.map fun (e, env) => ev env e
  let gs := rows.map fun (e, env) => grad names env e
  let hs := rows.map fun (e, env) => hess names env e
  let bs := gs.map outer
  if aggregation then
    { f := [Num.sum fs], g := [gs.foldr (fun g acc => vadd g acc) (vzero k)],
      h := [hs.foldr (fun h acc => madd h acc) (mzero k)], b := [bhhh k gs] }
  else { f := fs, g := gs, h := hs, b := bs }

def handle (j : Json) : Except String Json := do
  let op ← getStr j "op"
  match op with
  | "rows" =>
    -- per-row expression and environment; returns per-row and aggregated f, g, H and BHHH
    let names ← strList (← j.getObjVal? "names")
    let rows ← (← getArr j "rows").toList.mapM fun r => do
      let e ← parseE (← r.getObjVal? "expr")
      let env ← parseEnv (← r.getObjVal? "env")
      pure (e, env)
    let k := names.length
    let fs := rows.map fun (e, env) => ev env e
    let gs := rows.map fun (e, env) => grad names env e
    let hs := rows.map fun (e, env) => hess names env e
    let aggF := Num.sum fs
    let aggG := gs.foldr (fun g acc => vadd g acc) (vzero k)
    let aggH := hs.foldr (fun h acc => madd h acc) (mzero k)
    pure (Json.mkObj [("f", jFloats fs), ("g", jMat gs), ("h", jArr (hs.map jMat)),
                      ("F", fbits aggF), ("G", jFloats aggG), ("H", jMat aggH), ("B", jMat (bhhh k gs))])
  | "package" =>
    let fl : Flags := { gradient := ← getBool j "gradient", hessian := ← getBool j "hessian", bhhh := ← getBool j "bhhh" }
    match package fl with
    | none => pure (Json.mkObj [("refused", jBool true)])
    | some (g, h, b) => pure (Json.mkObj [("gradient", jBool g), ("hessian", jBool h), ("bhhh", jBool b)])
  | "findiff" =>
    -- tools.derivatives: evaluation points, findiff_g, findiff_h, check_derivatives on the recorded function
    let x ← floatList (← j.getObjVal? "x")
    let table ← (← getArr j "table").toList.mapM parseRec
    let F := tableFun x.length table
    let t : Float := FinDiff.tau
    let c := FinDiff.checkDerivatives t F x
    pure (Json.mkObj [("points", jMat (FinDiff.evalPoints t x)),
                      ("steps", jFloats (x.map (FinDiff.fdStep t))),
                      ("g", jFloats (FinDiff.findiffG t (fun p => (F p).1) x)),
                      ("h", jMat (FinDiff.findiffH t (fun p => (F p).2.1) x)),
                      ("cf", fbits c.f), ("cg", jFloats c.g), ("ch", jMat c.h),
                      ("gdiff", jFloats c.gdiff), ("hdiff", jMat c.hdiff)])
  | "prepare" =>
    -- IdManager.prepare on the declared parameters and the columns of the database
    let decls ← (← getArr j "decls").toList.mapM fun d => do
      let a ← asArr d
      match a.toList with
      | [n, f] => pure ({ name := ← asStr n, fixed := ← asBool f, init := (0 : Nat) } : IdM.Decl String Nat)
      | _ => throw "bad-op"
    let cols ← strList (← j.getObjVal? "cols")
    match IdM.prepare decls [] [] cols with
    | .error dups => pure (Json.mkObj [("refused", jStrs dups)])
    | .ok t => pure (Json.mkObj [("free", jStrs t.free), ("fixed", jStrs t.fixed),
                                 ("ids", jArr (t.free.map fun n => match t.uid n with | some k => jNat k | none => Json.null))])
  | "gvd" =>
    -- shared id manager (declarations of ALL formulas) + get_value_and_derivatives of one formula in several modes
    let decls ← parseDecls (← j.getObjVal? "decls")
    let cols ← strList (← j.getObjVal? "cols")
    match IdM.prepare decls [] [] cols with
    | .error dups => pure (Json.mkObj [("refused", jStrs dups)])
    | .ok t =>
      let rows ← parseRows (← j.getObjVal? "rows")
      let outs ← (← getArr j "modes").toList.mapM fun m => do
        let fl : Flags := { gradient := ← getBool m "gradient", hessian := ← getBool m "hessian", bhhh := ← getBool m "bhhh" }
        let agg ← getBool m "aggregation"
        let hasDb ← getBool m "database"
        let named ← getBool m "named"
        pure (jResult (getValueAndDerivatives t.free fl agg hasDb named (rawOf t.free rows agg)))
      pure (Json.mkObj [("names", jStrs t.free), ("mapping", jArr ((indices t.free).map fun p => jArr [jStr p.1, jNat p.2])),
                        ("outs", jArr outs)])
  | "objective" =>
    -- create_function / create_objective_function at a positional point (one formula, rows = data environments)
    let names ← strList (← j.getObjVal? "names")
    let e ← parseE (← j.getObjVal? "expr")
    let envs ← (← getArr j "envs").toList.mapM parseEnv
    let x ← floatList (← j.getObjVal? "x")
    let jE {β} (f : β → Json) : Except String β → Json := fun r => match r with
      | .error er => Json.mkObj [("error", jStr er)]
      | .ok v => f v
    let j3 : Float × Option (List Float) × Option (List (List Float)) → Json :=
      fun (f, g, h) => Json.mkObj [("f", fbits f), ("g", jOpt jFloats g), ("h", jOpt jMat h)]
    let fl : Flags := { gradient := ← getBool j "gradient", hessian := ← getBool j "hessian", bhhh := ← getBool j "bhhh" }
    pure (Json.mkObj [("f", jE fbits (objF names envs e x)), ("fg", jE j3 (objFG names envs e x)),
                      ("fgh", jE j3 (objFGH names envs e x)),
                      ("fn", jResult ((myFunction names envs e fl x).map .namedAgg)),
                      ("bad", jResult ((myFunction names envs e fl (x ++ [0.5])).map .namedAgg))])
  | "unpack" =>
    let k ← getNat j "n"
    let o : Agg Float := ⟨1.0, some [2.0], none, none⟩
    let (r, p) := Proxy.iter ⟨o, false⟩
    let st := fun (r : Except String (Float × Option (List Float) × Option (List (List Float)) × Option (List (List Float)))) =>
      match r with
      | .ok (f, g, h, b) => jArr [fbits f, jOpt jFloats g, jOpt jMat h, jOpt jMat b]
      | .error e => jStr e
    pure (Json.mkObj [("first", st r), ("later", jArr ((p.iters k).1.map st))])
  | _ => throw "bad-op"

def main : IO Unit := Drv.run handle
