import Driver.Common
import Model.Diff
open Lean Drv Diff

partial def parseE (j : Json) : Except String (E Float) := do
  let a ← asArr j
  match a.toList with
  | [t, x] =>
    match (← asStr t) with
    | "num" => pure (.num (← asFloat x))
    | "par" => pure (.par (← asStr x))
    | "var" => pure (.var (← asStr x))
    | "neg" => pure (.neg (← parseE x))
    | "exp" => pure (.exp (← parseE x))
    | "log" => pure (.log (← parseE x))
    | _ => throw "bad-op"
  | [t, x, y] =>
    match (← asStr t) with
    | "add" => pure (.add (← parseE x) (← parseE y))
    | "sub" => pure (.sub (← parseE x) (← parseE y))
    | "mul" => pure (.mul (← parseE x) (← parseE y))
    | "div" => pure (.div (← parseE x) (← parseE y))
    | "powc" => pure (.powc (← parseE x) (← asFloat y))
    | _ => throw "bad-op"
  | _ => throw "bad-op"

def lookupF (l : List (String × Float)) (n : String) : Float := (l.lookup n).getD (0.0 / 0.0)

def parsePairs (j : Json) : Except String (List (String × Float)) := do
  (← asArr j).toList.mapM fun e => do
    let a ← asArr e
    match a.toList with
    | [n, v] => pure (← asStr n, ← asFloat v)
    | _ => throw "bad-op"

def parseEnv (j : Json) : Except String (Env Float) := do
  let ps ← parsePairs (← j.getObjVal? "par")
  let vs ← parsePairs (← j.getObjVal? "var")
  pure { par := lookupF ps, var := lookupF vs }

def handle (j : Json) : Except String Json := do
  let op ← getStr j "op"
  match op with
  | "rows" =>
    -- per-row expression and environment; returns per-row and aggregated f, g, H and BHHH
    let names ← strList (← j.getObjVal? "names")
    let rows ← (← getArr j "rows").toList.mapM fun r => do
      let e ← parseE (← r.getObjVal? "expr")
      let env ← parseEnv (← r.getObjVal? "env")
      pure (e, env)
    let k := names.length
    let fs := rows.map fun (e, env) => ev env e
    let gs := rows.map fun (e, env) => grad names env e
    let hs := rows.map fun (e, env) => hess names env e
    let aggF := Num.sum fs
    let aggG := gs.foldr (fun g acc => vadd g acc) (vzero k)
    let aggH := hs.foldr (fun h acc => madd h acc) (mzero k)
    pure (Json.mkObj [("f", jFloats fs), ("g", jMat gs), ("h", jArr (hs.map jMat)),
                      ("F", fbits aggF), ("G", jFloats aggG), ("H", jMat aggH), ("B", jMat (bhhh k gs))])
  | "package" =>
    let fl : Flags := { gradient := ← getBool j "gradient", hessian := ← getBool j "hessian", bhhh := ← getBool j "bhhh" }
    match package fl with
    | none => pure (Json.mkObj [("refused", jBool true)])
    | some (g, h, b) => pure (Json.mkObj [("gradient", jBool g), ("hessian", jBool h), ("bhhh", jBool b)])
  | _ => throw "bad-op"

def main : IO Unit := Drv.run handle
