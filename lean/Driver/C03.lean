import Driver.Expr
import Model.IdManager
import Model.IdSeq
import Model.ResultsByName
import Model.IdRename
open Lean Drv Expr Engine DrvExpr

def optF (j : Json) (k : String) : Except String (Option Float) :=
  match j.getObjVal? k with
  | .ok Json.null => pure none
  | .ok v => do pure (some (← asFloat v))
  | .error _ => pure none

def parseDecl (j : Json) : Except String (IdM.Decl String Float) := do
  pure { name := ← getStr j "name", fixed := ← getBool j "fixed", init := ← getFloat j "init",
         lb := ← optF j "lb", ub := ← optF j "ub" }

def jOptF : Option Float → Json
  | none => Json.null
  | some v => fbits v

def declJson (d : IdM.Decl String Float) : Json :=
  Json.mkObj [("name", jStr d.name), ("fixed", jBool d.fixed), ("init", fbits d.init),
              ("lb", jOptF d.lb), ("ub", jOptF d.ub)]

def parseDict (j : Json) : Except String (String → Option Float) := do
  let ps ← parsePairs j
  pure fun n => ps.lookup n

def parseOp (j : Json) : Except String (IdM.Op String Float) := do
  match ← getStr j "k" with
  | "evalDict" => pure (.evalDict (← parseDict (← j.getObjVal? "dict")))
  | "evalNone" => pure .evalNone
  | "setVector" => pure (.setVector (← floatList (← j.getObjVal? "x")))
  | "changeInitE" => pure (.changeInitE (← parseDict (← j.getObjVal? "dict")))
  | "changeInitB" => pure (.changeInitB (← parseDict (← j.getObjVal? "dict")))
  | _ => throw "bad-seq-op"

def outJson : Option (List Float × List Float) → Json
  | none => Json.null
  | some (v, f) => Json.mkObj [("free", jFloats v), ("fixed", jFloats f)]

def optS (j : Json) (k : String) : Except String (Option String) :=
  match j.getObjVal? k with
  | .ok Json.null => pure none
  | .ok v => do pure (some (← asStr v))
  | .error _ => pure none

def optMat (j : Json) (k : String) : Except String (Option (List (List Float))) :=
  match j.getObjVal? k with
  | .ok Json.null => pure none
  | .ok v => do pure (some (← floatMat v))
  | .error _ => pure none

def optStrs (j : Json) : Except String (Option (List String)) :=
  match j with
  | Json.null => pure none
  | v => do pure (some (← strList v))

def rbetaJson (b : IdM.RBeta String Float) : Json :=
  Json.mkObj [("name", jStr b.name), ("value", fbits b.value), ("lb", jOptF b.lb), ("ub", jOptF b.ub),
    ("stdErr", jOptF b.stdErr), ("tTest", jOptF b.tTest), ("robStdErr", jOptF b.robStdErr),
    ("robTTest", jOptF b.robTTest), ("bootStdErr", jOptF b.bootStdErr), ("bootTTest", jOptF b.bootTTest)]

def pairsJson (l : List (String × Float)) : Json := jArr (l.map fun (n, v) => jArr [jStr n, fbits v])

def orNull {β} (f : β → Json) : Option β → Json
  | none => Json.null
  | some v => f v

def frameJson (fr : List ((String × String) × Float)) : Json :=
  jArr (fr.map fun ((a, b), v) => jArr [jStr a, jStr b, fbits v])

def secondJson (tab : List ((String × String) × List (IdM.PairStat Float))) : Json :=
  jArr (tab.map fun ((a, b), st) => jArr [jStr a, jStr b, jArr (st.map fun s => jArr [fbits s.cov, fbits s.test])])

def handle (j : Json) : Except String Json := do
  let op ← getStr j "op"
  match op with
  | "table" =>
    let decls0 ← (← getArr j "decls").toList.mapM parseDecl
    -- optionally the library renames / fixes first (rename_elementary, fix_betas with prefix and suffix)
    let decls1 ← match j.getObjVal? "rename" with
      | .ok r => do
        pure (IdM.renameElem (← strList (← r.getObjVal? "names")) (IdM.affix (← optS r "prefix") (← optS r "suffix")) decls0)
      | .error _ => pure decls0
    let decls ← match j.getObjVal? "fix" with
      | .ok r => do
        pure (IdM.fixBetasRen decls1 (← parseDict (← r.getObjVal? "dict")) (IdM.affix (← optS r "prefix") (← optS r "suffix")))
      | .error _ => pure decls1
    let cols ← strList (← j.getObjVal? "cols")
    let dict ← parseDict (← j.getObjVal? "dict")
    let rvs ← strList (← j.getObjVal? "rvs")
    let draws ← strList (← j.getObjVal? "draws")
    match IdM.prepare decls rvs draws cols with
    | .error dups => pure (Json.mkObj [("duplicates", jStrs dups)])
    | .ok t =>
      pure (Json.mkObj [
        ("free", jStrs t.free), ("fixed", jStrs t.fixed), ("cols", jStrs t.cols),
        ("rvs", jStrs t.rvs), ("draws", jStrs t.draws), ("all", jStrs t.all),
        ("decls", jArr (decls.map declJson)),
        ("freeValues", jFloats (IdM.freeValues t decls dict)),
        ("fixedValues", jFloats (IdM.fixedValues t decls)),
        ("bounds", jArr ((IdM.bounds t decls).map fun (a, b) => jArr [jOptF a, jOptF b])),
        ("dictToList", match IdM.dictToList t dict with
                       | none => Json.null
                       | some l => jFloats l)])
  | "seq" =>
    -- a sequence of public calls on one numbering: what the engine receives at each call
    let decls ← (← getArr j "decls").toList.mapM parseDecl
    let cols ← strList (← j.getObjVal? "cols")
    let ops ← (← getArr j "ops").toList.mapM parseOp
    match IdM.prepare decls [] [] cols with
    | .error dups => pure (Json.mkObj [("duplicates", jStrs dups)])
    | .ok t =>
      let s0 := IdM.initSt t decls
      let s1 := IdM.runState t s0 ops
      pure (Json.mkObj [
        ("free", jStrs t.free), ("fixed", jStrs t.fixed),
        ("outs", jArr ((IdM.run t s0 ops).map outJson)),
        ("finalVec", jFloats s1.vec), ("finalFixed", jFloats s1.fixedVec),
        ("finalDecls", jArr (s1.decls.map declJson))])
  | "results" =>
    -- the reporting layer: a vector and matrices in reported order, paired with names
    let decls ← (← getArr j "decls").toList.mapM parseDecl
    let cols ← strList (← j.getObjVal? "cols")
    let x ← floatList (← j.getObjVal? "x")
    let big ← getFloat j "big"
    let V ← floatMat (← j.getObjVal? "V")
    let R ← floatMat (← j.getObjVal? "R")
    let B ← optMat j "B"
    let reqs ← (← getArr j "reqs").toList.mapM optStrs
    let subsets ← (← getArr j "subsets").toList.mapM optStrs
    let samples ← (← getArr j "samples").toList.mapM fun e => do
      pure (← strList (← e.getObjVal? "req"), ← floatMat (← e.getObjVal? "M"))
    match IdM.prepare decls [] [] cols with
    | .error dups => pure (Json.mkObj [("duplicates", jStrs dups)])
    | .ok t =>
      match IdM.rawBetas t decls x with
      | none => pure (Json.mkObj [("refused", jStr "rawBetas")])
      | some bs0 =>
        match IdM.withStats big V R B bs0 with
        | none => pure (Json.mkObj [("refused", jStr "withStats")])
        | some bs =>
          let names := bs.map (·.name)
          let Ms := [V, R] ++ (match B with | none => [] | some b => [b])
          let tab := IdM.secondOrder big names x Ms
          pure (Json.mkObj [
            ("names", jStrs t.free),
            ("betas", jArr (bs.map rbetaJson)),
            ("betaValues", jArr (reqs.map fun r => orNull pairsJson (IdM.getBetaValues t.free bs r))),
            ("frames", jArr (Ms.map fun M => orNull frameJson (IdM.frame names M))),
            ("second", orNull secondJson tab),
            ("subsets", jArr (subsets.map fun sub =>
              orNull (fun tb => jArr ((IdM.corrSubset tb sub).map fun ((a, b), _) => jArr [jStr a, jStr b])) tab)),
            ("sens", jArr (samples.map fun (req, M) =>
              orNull (fun o => jArr (o.map pairsJson)) (IdM.sens t.free req M)))])
  | "changeInit" =>
    let decls ← (← getArr j "decls").toList.mapM parseDecl
    let dict ← parseDict (← j.getObjVal? "dict")
    pure (Json.mkObj [("decls", jArr ((IdM.changeInit decls dict).map declJson))])
  | "fixBetas" =>
    let decls ← (← getArr j "decls").toList.mapM parseDecl
    let dict ← parseDict (← j.getObjVal? "dict")
    let pre ← optS j "prefix"
    let suf ← optS j "suffix"
    pure (Json.mkObj [("decls", jArr ((IdM.fixBetasRen decls dict (IdM.affix pre suf)).map declJson))])
  | "renameElem" =>
    let decls ← (← getArr j "decls").toList.mapM parseDecl
    let names ← strList (← j.getObjVal? "names")
    let pre ← optS j "prefix"
    let suf ← optS j "suffix"
    pure (Json.mkObj [("decls", jArr ((IdM.renameElem names (IdM.affix pre suf) decls).map declJson))])
  | "eval" =>
    let d ← parseDag (← j.getObjVal? "dag")
    let env ← parseEnv (← j.getObjVal? "env")
    let sem ← semOf (← getStr j "sem")
    let k ← getNat j "root"
    if !wfB d then throw "ill-formed dag" else
    pure (resJson (eval sem d env k))
  | _ => throw "bad-op"

def main : IO Unit := Drv.run handle
