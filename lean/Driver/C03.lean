import Driver.Expr
import Model.IdManager
import Model.IdSeq
open Lean Drv Expr Engine DrvExpr

def optF (j : Json) (k : String) : Except String (Option Float) :=
  match j.getObjVal? k with
  | .ok Json.null => pure none
  | .ok v => do pure (some (← asFloat v))
  | .error _ => pure none

def parseDecl (j : Json) : Except String (IdM.Decl String Float) := do
  pure { name := ← getStr j "name", fixed := ← getBool j "fixed", init := ← getFloat j "init",
         lb := ← optF j "lb", ub := ← optF j "ub" }

def jOptF : Option Float → Json
  | none => Json.null
  | some v => fbits v

def declJson (d : IdM.Decl String Float) : Json :=
  Json.mkObj [("name", jStr d.name), ("fixed", jBool d.fixed), ("init", fbits d.init),
              ("lb", jOptF d.lb), ("ub", jOptF d.ub)]

def parseDict (j : Json) : Except String (String → Option Float) := do
  let ps ← parsePairs j
  pure fun n => ps.lookup n

def parseOp (j : Json) : Except String (IdM.Op String Float) := do
  match ← getStr j "k" with
  | "evalDict" => pure (.evalDict (← parseDict (← j.getObjVal? "dict")))
  | "evalNone" => pure .evalNone
  | "setVector" => pure (.setVector (← floatList (← j.getObjVal? "x")))
  | "changeInitE" => pure (.changeInitE (← parseDict (← j.getObjVal? "dict")))
  | "changeInitB" => pure (.changeInitB (← parseDict (← j.getObjVal? "dict")))
  | _ => throw "bad-seq-op"

def outJson : Option (List Float × List Float) → Json
  | none => Json.null
  | some (v, f) => Json.mkObj [("free", jFloats v), ("fixed", jFloats f)]

def handle (j : Json) : Except String Json := do
  let op ← getStr j "op"
  match op with
  | "table" =>
    let decls ← (← getArr j "decls").toList.mapM parseDecl
    let cols ← strList (← j.getObjVal? "cols")
    let dict ← parseDict (← j.getObjVal? "dict")
    let rvs ← strList (← j.getObjVal? "rvs")
    let draws ← strList (← j.getObjVal? "draws")
    match IdM.prepare decls rvs draws cols with
    | .error dups => pure (Json.mkObj [("duplicates", jStrs dups)])
    | .ok t =>
      pure (Json.mkObj [
        ("free", jStrs t.free), ("fixed", jStrs t.fixed), ("cols", jStrs t.cols),
        ("rvs", jStrs t.rvs), ("draws", jStrs t.draws), ("all", jStrs t.all),
        ("freeValues", jFloats (IdM.freeValues t decls dict)),
        ("fixedValues", jFloats (IdM.fixedValues t decls)),
        ("bounds", jArr ((IdM.bounds t decls).map fun (a, b) => jArr [jOptF a, jOptF b])),
        ("dictToList", match IdM.dictToList t dict with
                       | none => Json.null
                       | some l => jFloats l)])
  | "seq" =>
    -- a sequence of public calls on one numbering: what the engine receives at each call
    let decls ← (← getArr j "decls").toList.mapM parseDecl
    let cols ← strList (← j.getObjVal? "cols")
    let ops ← (← getArr j "ops").toList.mapM parseOp
    match IdM.prepare decls [] [] cols with
    | .error dups => pure (Json.mkObj [("duplicates", jStrs dups)])
    | .ok t =>
      let s0 := IdM.initSt t decls
      let s1 := IdM.runState t s0 ops
      pure (Json.mkObj [
        ("free", jStrs t.free), ("fixed", jStrs t.fixed),
        ("outs", jArr ((IdM.run t s0 ops).map outJson)),
        ("finalVec", jFloats s1.vec), ("finalFixed", jFloats s1.fixedVec),
        ("finalDecls", jArr (s1.decls.map declJson))])
  | "changeInit" =>
    let decls ← (← getArr j "decls").toList.mapM parseDecl
    let dict ← parseDict (← j.getObjVal? "dict")
    pure (Json.mkObj [("decls", jArr ((IdM.changeInit decls dict).map declJson))])
  | "fixBetas" =>
    let decls ← (← getArr j "decls").toList.mapM parseDecl
    let dict ← parseDict (← j.getObjVal? "dict")
    pure (Json.mkObj [("decls", jArr ((IdM.fixBetas decls dict).map declJson))])
  | "eval" =>
    let d ← parseDag (← j.getObjVal? "dag")
    let env ← parseEnv (← j.getObjVal? "env")
    let sem ← semOf (← getStr j "sem")
    let k ← getNat j "root"
    if !wfB d then throw "ill-formed dag" else
    pure (resJson (eval sem d env k))
  | _ => throw "bad-op"

def main : IO Unit := Drv.run handle
