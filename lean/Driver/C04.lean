import Driver.Common
import Model.Likelihood
open Lean Drv Likelihood

def fn (l : List Float) : Nat → Float :=
  let a := l.toArray
  fun n => a.getD n 0.0

def optW (j : Json) : Except String (Option (Nat → Float)) :=
  match j.getObjVal? "w" with
  | .ok Json.null => pure none
  | .ok v => do pure (some (fn (← floatList v)))
  | .error _ => throw "bad-op"

def mat (m : List (List Float)) : Nat → Nat → Float :=
  let a := (m.map List.toArray).toArray
  fun n i => (a.getD n #[]).getD i 0.0

def cube (c : List (List (List Float))) : Nat → Nat → Nat → Float :=
  let a := (c.map fun m => (m.map List.toArray).toArray).toArray
  fun n i j => ((a.getD n #[]).getD i #[]).getD j 0.0

def handle (j : Json) : Except String Json := do
  let op ← getStr j "op"
  match op with
  | "blocks" =>
    let N ← getNat j "N"
    let T ← getNat j "T"
    if T = 0 then throw "bad-op"
    pure (Json.mkObj [("size", jNat (blockSize N T)), ("nblocks", jNat (nBlocks N T)),
      ("blocks", jArr ((blocks N T).map jNats))])
  | "resolve" =>
    let p ← getNat j "param"
    let cpu ← getNat j "cpu"
    pure (Json.mkObj [("threads", jNat (resolveThreads p cpu))])
  | "loglike" =>
    -- engine-order Float evaluation of calculate_likelihood(x, scaled)
    let l ← floatList (← j.getObjVal? "l")
    let w ← optW j
    let p ← getNat j "param"
    let cpu ← getNat j "cpu"
    let scaled ← getBool j "scaled"
    let N := l.length
    if cpu = 0 then throw "bad-op"
    let v := calculateLikelihood w (fn l) N p cpu scaled
    let ref := weightedSum w (fn l) (List.range N)
    pure (Json.mkObj [("value", fbits v), ("rowsum", fbits ref),
      ("threads", jNat (resolveThreads p cpu)),
      ("used", jNat (nBlocks N (resolveThreads p cpu)))])
  | "derivs" =>
    let g ← floatMat (← j.getObjVal? "g")
    let hh ← (← getArr j "h").toList.mapM floatMat
    let w ← optW j
    let T ← getNat j "T"
    let K ← getNat j "K"
    let scaled ← getBool j "scaled"
    if T = 0 then throw "bad-op"
    let N := g.length
    let gi := List.range K
    let sc := fun (x : Float) => scaledBy scaled x N
    pure (Json.mkObj [
      ("grad", jFloats (gi.map fun i => sc (gradEntry w (mat g) N T i))),
      ("hess", jMat (gi.map fun i => gi.map fun k => sc (hessEntry w (cube hh) N T i k))),
      ("bhhh", jMat (gi.map fun i => gi.map fun k => sc (bhhhEntry w (mat g) N T i k)))])
  | _ => throw "bad-op"

def main : IO Unit := Drv.run handle
