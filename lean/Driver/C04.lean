import Driver.Common
import Model.Likelihood
import Model.LikSession
import Model.DbSplit
open Lean Drv Likelihood

def fn (l : List Float) : Nat → Float :=
  let a := l.toArray
  fun n => a.getD n 0.0

def optW (j : Json) : Except String (Option (Nat → Float)) :=
  match j.getObjVal? "w" with
  | .ok Json.null => pure none
  | .ok v => do pure (some (fn (← floatList v)))
  | .error _ => throw "bad-op"

def mat (m : List (List Float)) : Nat → Nat → Float :=
  let a := (m.map List.toArray).toArray
  fun n i => (a.getD n #[]).getD i 0.0

def cube (c : List (List (List Float))) : Nat → Nat → Nat → Float :=
  let a := (c.map fun m => (m.map List.toArray).toArray).toArray
  fun n i j => ((a.getD n #[]).getD i #[]).getD j 0.0

/-- optional description of the data base: `nrows` and `ids` (`null`: not panel; else the panel
column row by row).  Absent: the sample size is the number of per-observation values given. -/
def optData (j : Json) : Except String (Option (Option (List Int) × Nat)) :=
  match j.getObjVal? "nrows" with
  | .error _ => pure none
  | .ok v => do
    let n ← asNat v
    match j.getObjVal? "ids" with
    | .ok Json.null => pure (some (none, n))
    | .ok a => do pure (some (some (← intList a), n))
    | .error _ => throw "bad-op"

def dictItems (j : Json) : Except String (List (String × Nat)) := do
  (← asArr j).toList.mapM fun e => do
    let a ← asArr e
    match a.toList with
    | [k, v] => pure (← asStr k, ← asNat v)
    | _ => throw "bad-op"


/-! round 3: option matrix and histories -/

def jOptMat : Option (List (List Float)) → Json
  | none => Json.null
  | some m => jMat m

def jDerivs (d : Derivs Float) : Json :=
  Json.mkObj [("f", fbits d.f), ("g", jFloats d.g), ("h", jOptMat d.h), ("b", jOptMat d.b)]

/-- a table: rows of column values (columns in the order the harness fixed) -/
abbrev Tab := List (List Float)

def colOf (r : List Float) (j : Nat) : Float := r.getD j 0.0

/-- the concrete edits of the history stream -/
def editOf (j : Json) : Except String (Tab → Tab) := do
  match ← getStr j "k" with
  | "scale" =>
    -- Database.scale_column(col, s): data[col] *= s
    let c ← getNat j "col"
    let s ← getFloat j "s"
    pure fun t => t.map fun r => r.modify c (· * s)
  | "remove" =>
    -- Database.remove(Variable(col)): the rows whose value is not 0 are dropped
    let c ← getNat j "col"
    pure fun t => t.filter fun r => colOf r c == 0.0
  | "addcol" =>
    -- Database.define_variable / add_column(name, Variable(a) * c + Variable(b)): a new last column
    let a ← getNat j "a"
    let b ← getNat j "b"
    let c ← getFloat j "c"
    pure fun t => t.map fun r => r ++ [colOf r a * c + colOf r b]
  | _ => throw "bad-op"

/-- a bootstrap sample: the rows at the given positions of the current table -/
def resampleOf (j : Json) : Except String (Tab → Tab) := do
  let ps ← natList j
  pure fun t => ps.map fun p => t.getD p []

/-- the (weight, value) pairs of the rows for the formulas of the history stream:
`log_like = L − (b − X)·(b − X)` at `b = b0`, `weight = W + 1/4`; columns L, X, W by position -/
def rowsOfTab (b0 : Float) (cl cx cw : Nat) (t : Tab) : List (Float × Float) :=
  t.map fun r => (colOf r cw + 0.25, colOf r cl - (b0 - colOf r cx) * (b0 - colOf r cx))

def handle (j : Json) : Except String Json := do
  let op ← getStr j "op"
  match op with
  | "blocks" =>
    let N ← getNat j "N"
    let T ← getNat j "T"
    if T = 0 then throw "bad-op"
    pure (Json.mkObj [("size", jNat (blockSize N T)), ("nblocks", jNat (nBlocks N T)),
      ("blocks", jArr ((blocks N T).map jNats))])
  | "resolve" =>
    let p ← getNat j "param"
    let cpu ← getNat j "cpu"
    pure (Json.mkObj [("threads", jNat (resolveThreads p cpu))])
  | "betavector" =>
    -- BIOGEME.beta_values_dict_to_list: values cross as opaque bit patterns
    let names ← strList (← j.getObjVal? "names")
    let d ← dictItems (← j.getObjVal? "dict")
    let foreign := jStrs (foreignKeys names d)
    match betaVector names d with
    | .ok vs => pure (Json.mkObj [("ok", jNats vs), ("foreign", foreign)])
    | .error e => pure (Json.mkObj [("missing", jStr e), ("foreign", foreign)])
  | "samplesize" =>
    match ← optData j with
    | none => throw "bad-op"
    | some (panel, n) =>
      let inds := match panel with
        | none => []
        | some ids => distinct ids
      let rows := match panel with
        | none => []
        | some ids => inds.map (individualRows ids)
      pure (Json.mkObj [("size", jNat (sampleSize panel n)), ("individuals", jInts inds),
        ("rows", jArr (rows.map jNats))])
  | "loglike" =>
    -- engine-order Float evaluation of calculate_likelihood(x, scaled)
    let l ← floatList (← j.getObjVal? "l")
    let w ← optW j
    let p ← getNat j "param"
    let cpu ← getNat j "cpu"
    let scaled ← getBool j "scaled"
    let data ← optData j
    let N := match data with
      | none => l.length
      | some (panel, n) => sampleSize panel n
    if cpu = 0 then throw "bad-op"
    let v := match data with
      | none => calculateLikelihood w (fn l) N p cpu scaled
      | some (panel, n) => reported panel n scaled (loglike w (fn l) N (resolveThreads p cpu))
    let ref := weightedSum w (fn l) (List.range N)
    pure (Json.mkObj [("value", fbits v), ("rowsum", fbits ref), ("size", jNat N),
      ("threads", jNat (resolveThreads p cpu)),
      ("used", jNat (nBlocks N (resolveThreads p cpu)))])
  | "derivs" =>
    let g ← floatMat (← j.getObjVal? "g")
    let hh ← (← getArr j "h").toList.mapM floatMat
    let w ← optW j
    let T ← getNat j "T"
    let K ← getNat j "K"
    let scaled ← getBool j "scaled"
    if T = 0 then throw "bad-op"
    let data ← optData j
    let N := match data with
      | none => g.length
      | some (panel, n) => sampleSize panel n
    let gi := List.range K
    let sc := fun (x : Float) => match data with
      | none => scaledBy scaled x N
      | some (panel, n) => reported panel n scaled x
    pure (Json.mkObj [("size", jNat N),
      ("grad", jFloats (gi.map fun i => sc (gradEntry w (mat g) N T i))),
      ("hess", jMat (gi.map fun i => gi.map fun k => sc (hessEntry w (cube hh) N T i k))),
      ("bhhh", jMat (gi.map fun i => gi.map fun k => sc (bhhhEntry w (mat g) N T i k)))])
  | "optmatrix" =>
    -- all 8 cells of calculate_likelihood_and_derivatives + the optimiser's functions
    let l ← floatList (← j.getObjVal? "l")
    let g ← floatMat (← j.getObjVal? "g")
    let hh ← (← getArr j "h").toList.mapM floatMat
    let w ← optW j
    let p ← getNat j "param"
    let cpu ← getNat j "cpu"
    let K ← getNat j "K"
    if cpu = 0 then throw "bad-op"
    match ← optData j with
    | none => throw "bad-op"
    | some (panel, n) =>
      let o : Obs Float := { w := w, l := fn l, g := mat g, h := cube hh }
      let bools := [false, true]
      let cells := bools.flatMap fun sc => bools.flatMap fun hs => bools.map fun bh =>
        Json.mkObj [("scaled", jBool sc), ("hessian", jBool hs), ("bhhh", jBool bh),
          ("out", jDerivs (likelihoodAndDerivatives o K panel n p cpu sc hs bh))]
      pure (Json.mkObj [("cells", jArr cells), ("size", jNat (sampleSize panel n)),
        ("negf", fbits (negF o panel n p cpu)),
        ("negfg", jDerivs (negDerivs o K panel n p cpu false)),
        ("negfgh", jDerivs (negDerivs o K panel n p cpu true))])
  | "session" =>
    -- one data base, several objects, edits in between (Model/LikSession.lean)
    let t0 ← floatMat (← j.getObjVal? "table")
    let b0 ← getFloat j "b0"
    let cl ← getNat j "cl"
    let cx ← getNat j "cx"
    let cw ← getNat j "cw"
    let cpu ← getNat j "cpu"
    if cpu = 0 then throw "bad-op"
    let opsJ ← getArr j "ops"
    -- (state, history so far, (weighted, threads) of the objects, answers)
    let mut st : Sess Tab := Sess.init t0
    let mut hist : List (SOp Tab) := []
    let mut objs : List (Bool × Nat) := []
    let mut out : List Json := []
    for oj in opsJ.toList do
      let kind ← getStr oj "k"
      let op : SOp Tab ← match kind with
        | "build" => do
          let a ← getBool oj "audit"
          pure (SOp.build a)
        | "estimate" => do
          let k ← getNat oj "obj"
          match oj.getObjVal? "boot" with
          | .ok Json.null => pure (SOp.estimate k none)
          | .ok v => do
            let rs ← (← asArr v).toList.mapM resampleOf
            pure (SOp.estimate k (some rs))
          | .error _ => throw "bad-op"
        | "query" => do pure (SOp.query (← getNat oj "obj"))
        | _ => do pure (SOp.edit (← editOf oj))
      if kind == "build" then
        objs := objs ++ [(← getBool oj "weighted", resolveThreads (← getNat oj "T") cpu)]
      st := st.step op
      hist := hist ++ [op]
      if kind == "query" then
        let k ← getNat oj "obj"
        match objs[k]? with
        | none => throw "bad-op"
        | some (wt, T) =>
          let ro := rowsOfTab b0 cl cx cw
          out := out ++ [Json.mkObj [("obj", jNat k),
            ("synced", jBool ((synced hist).2.contains k)),
            ("engine", jMat (st.engines.getD k st.data)), ("data", jMat st.data),
            ("full", jMat st.fullData),
            ("L", fbits (st.reportedLoglike k ro wt T false)),
            ("Ls", fbits (st.reportedLoglike k ro wt T true))]]
    pure (Json.mkObj [("queries", jArr out), ("objects", jNat st.engines.length)])
  | "dbsplit" =>
    -- Database.split(k) after the shuffle (rows by position in the table)
    let sh ← natList (← j.getObjVal? "shuffled")
    let k ← getNat j "k"
    if k = 0 then throw "bad-op"
    pure (Json.mkObj [("pairs", jArr ((dbSplit sh k).map fun p => jArr [jNats p.1, jNats p.2]))])
  | _ => throw "bad-op"

def main : IO Unit := Drv.run handle
