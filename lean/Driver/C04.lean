import Driver.Common
import Model.Likelihood
open Lean Drv Likelihood

def fn (l : List Float) : Nat → Float :=
  let a := l.toArray
  fun n => a.getD n 0.0

def optW (j : Json) : Except String (Option (Nat → Float)) :=
  match j.getObjVal? "w" with
  | .ok Json.null => pure none
  | .ok v => do pure (some (fn (← floatList v)))
  | .error _ => throw "bad-op"

def mat (m : List (List Float)) : Nat → Nat → Float :=
  let a := (m.map List.toArray).toArray
  fun n i => (a.getD n #[]).getD i 0.0

def cube (c : List (List (List Float))) : Nat → Nat → Nat → Float :=
  let a := (c.map fun m => (m.map List.toArray).toArray).toArray
  fun n i j => ((a.getD n #[]).getD i #[]).getD j 0.0

/-- optional description of the data base: `nrows` and `ids` (`null`: not panel; else the panel
column row by row).  Absent: the sample size is the number of per-observation values given. -/
def optData (j : Json) : Except String (Option (Option (List Int) × Nat)) :=
  match j.getObjVal? "nrows" with
  | .error _ => pure none
  | .ok v => do
    let n ← asNat v
    match j.getObjVal? "ids" with
    | .ok Json.null => pure (some (none, n))
    | .ok a => do pure (some (some (← intList a), n))
    | .error _ => throw "bad-op"

def dictItems (j : Json) : Except String (List (String × Nat)) := do
  (← asArr j).toList.mapM fun e => do
    let a ← asArr e
    match a.toList with
    | [k, v] => pure (← asStr k, ← asNat v)
    | _ => throw "bad-op"

def handle (j : Json) : Except String Json := do
  let op ← getStr j "op"
  match op with
  | "blocks" =>
    let N ← getNat j "N"
    let T ← getNat j "T"
    if T = 0 then throw "bad-op"
    pure (Json.mkObj [("size", jNat (blockSize N T)), ("nblocks", jNat (nBlocks N T)),
      ("blocks", jArr ((blocks N T).map jNats))])
  | "resolve" =>
    let p ← getNat j "param"
    let cpu ← getNat j "cpu"
    pure (Json.mkObj [("threads", jNat (resolveThreads p cpu))])
  | "betavector" =>
    -- BIOGEME.beta_values_dict_to_list: values cross as opaque bit patterns
    let names ← strList (← j.getObjVal? "names")
    let d ← dictItems (← j.getObjVal? "dict")
    let foreign := jStrs (foreignKeys names d)
    match betaVector names d with
    | .ok vs => pure (Json.mkObj [("ok", jNats vs), ("foreign", foreign)])
    | .error e => pure (Json.mkObj [("missing", jStr e), ("foreign", foreign)])
  | "samplesize" =>
    match ← optData j with
    | none => throw "bad-op"
    | some (panel, n) =>
      let inds := match panel with
        | none => []
        | some ids => distinct ids
      let rows := match panel with
        | none => []
        | some ids => inds.map (individualRows ids)
      pure (Json.mkObj [("size", jNat (sampleSize panel n)), ("individuals", jInts inds),
        ("rows", jArr (rows.map jNats))])
  | "loglike" =>
    -- engine-order Float evaluation of calculate_likelihood(x, scaled)
    let l ← floatList (← j.getObjVal? "l")
    let w ← optW j
    let p ← getNat j "param"
    let cpu ← getNat j "cpu"
    let scaled ← getBool j "scaled"
    let data ← optData j
    let N := match data with
      | none => l.length
      | some (panel, n) => sampleSize panel n
    if cpu = 0 then throw "bad-op"
    let v := match data with
      | none => calculateLikelihood w (fn l) N p cpu scaled
      | some (panel, n) => reported panel n scaled (loglike w (fn l) N (resolveThreads p cpu))
    let ref := weightedSum w (fn l) (List.range N)
    pure (Json.mkObj [("value", fbits v), ("rowsum", fbits ref), ("size", jNat N),
      ("threads", jNat (resolveThreads p cpu)),
      ("used", jNat (nBlocks N (resolveThreads p cpu)))])
  | "derivs" =>
    let g ← floatMat (← j.getObjVal? "g")
    let hh ← (← getArr j "h").toList.mapM floatMat
    let w ← optW j
    let T ← getNat j "T"
    let K ← getNat j "K"
    let scaled ← getBool j "scaled"
    if T = 0 then throw "bad-op"
    let data ← optData j
    let N := match data with
      | none => g.length
      | some (panel, n) => sampleSize panel n
    let gi := List.range K
    let sc := fun (x : Float) => match data with
      | none => scaledBy scaled x N
      | some (panel, n) => reported panel n scaled x
    pure (Json.mkObj [("size", jNat N),
      ("grad", jFloats (gi.map fun i => sc (gradEntry w (mat g) N T i))),
      ("hess", jMat (gi.map fun i => gi.map fun k => sc (hessEntry w (cube hh) N T i k))),
      ("bhhh", jMat (gi.map fun i => gi.map fun k => sc (bhhhEntry w (mat g) N T i k)))])
  | _ => throw "bad-op"

def main : IO Unit := Drv.run handle
