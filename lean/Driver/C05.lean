/-
JSON-lines driver of the choice-model family (C05 and C06 share the model file and the ops).
Doubles cross as 64-bit patterns.  A `log(0)` of the kernel (`none`) is `null`.

ops
  model     kind ∈ logit|mev|nested|nestedmu|cnl|cnlmu ; alts, V, av (null = None), [logG], [nests], [mu]
            → {"p":[…], "logp":[…|null], "logG":[…|null]}   or {"error": "BiogemeError"|"KeyError"|"TypeError"}
  generating  alts, V, av, nests → {"G":…, "Gy":…, "alone":[…], "logG":[…|null]}
  ordered   cdf ∈ logit|probit ; x, tau, labels, diffs=[[label,bits]…] → {"dict":[[label,bits]…]} or error
  validate  kind ∈ nested|cnl ; alts, nests → {"ok":bool, "alone":[…]} or error
  call      kind ∈ logit|mev|meves ; util=[[label,bits]…] (insertion order of the utility dict),
            av = null | [[label,bits]…] (insertion order of the availability dict, any keys),
            [logG], [corr] dictionaries likewise → {"p":[…], "logp":[…|null]} per key of util, or
            {"error":"KeyError"}   (Model/ModelsBuild.lean: loglogitEval / logmevEval / logmevESEval)
  ordered   takes "tau_beta": bool (is the threshold argument a Beta?) → orderedCall
-/
import Driver.Common
import Model.Models
import Model.ModelsBuild
open Lean Drv Models

def nan : Float := 0.0 / 0.0

/-- a Python dict given as parallel lists; a missing key reads NaN (the model checks the keys
before it reads) -/
def mkFun (keys : List Int) (vals : List Float) : Int → Float :=
  let tbl := keys.zip vals
  fun i => match tbl.lookup i with
    | some v => v
    | none => nan

def optFloats (j : Json) (k : String) (n : Nat) : Except String (Option (List Float)) :=
  match j.getObjVal? k with
  | .ok Json.null => pure none
  | .ok v => do
    let l ← floatList v
    if l.length != n then throw "bad-op"
    pure (some l)
  | .error _ => throw "bad-op"

def jOptF : Option Float → Json
  | none => Json.null
  | some x => fbits x

def parseNest (j : Json) : Except String (Spec (Nest Float)) := do
  let form ← getStr j "form"
  let mu ← getFloat j "mu"
  let alts ← intList (← j.getObjVal? "alts")
  match form with
  | "obj" => pure (.obj ⟨mu, alts⟩)
  | "tup" => pure (.tup ⟨mu, alts⟩)
  | _ => throw "bad-op"

def parseCNest (j : Json) : Except String (Spec (CNest Float)) := do
  let form ← getStr j "form"
  let mu ← getFloat j "mu"
  let al ← (← getArr j "alphas").toList.mapM fun e => do
    match (← asArr e).toList with
    | [k, v] => pure ((← asInt k), (← asFloat v))
    | _ => throw "bad-op"
  match form with
  | "obj" => pure (.obj ⟨mu, al⟩)
  | "tup" => pure (.tup ⟨mu, al⟩)
  | _ => throw "bad-op"

def parseArg {ν} (parse : Json → Except String (Spec ν)) (j : Json) : Except String (NestsArg ν) := do
  let nj ← j.getObjVal? "nests"
  let specs ← (← getArr nj "specs").toList.mapM parse
  match nj.getObjVal? "choice_set" with
  | .ok Json.null => pure (.legacy specs)
  | .ok v => do pure (.object (← intList v) specs)
  | .error _ => throw "bad-op"

def parseDict (j : Json) : Except String (List (Int × Float)) := do
  (← asArr j).toList.mapM fun e => do
    match (← asArr e).toList with
    | [k, v] => pure ((← asInt k), (← asFloat v))
    | _ => throw "bad-op"

def optDict (j : Json) (k : String) : Except String (Option (List (Int × Float))) :=
  match j.getObjVal? k with
  | .ok Json.null => pure none
  | .ok v => do pure (some (← parseDict v))
  | .error _ => throw "bad-op"

structure Common where
  alts : List Int
  V : Int → Float
  av : Int → Float

def parseCommon (j : Json) : Except String Common := do
  let alts ← intList (← j.getObjVal? "alts")
  let v ← floatList (← j.getObjVal? "V")
  if v.length != alts.length then throw "bad-op"
  let avo ← optFloats j "av" alts.length
  let av : Int → Float := match avo with
    | none => fun _ => 1.0
    | some l => mkFun alts l
  pure ⟨alts, mkFun alts v, av⟩

/-- probabilities, log probabilities and `ln G_i` (only where the kernel reads it) of a MEV model -/
def mevOut (c : Common) (logG : Int → Float) : Json :=
  Json.mkObj [
    ("p", jFloats (c.alts.map fun i => mevP c.alts c.V logG c.av i)),
    ("logp", jArr (c.alts.map fun i => jOptF (logMev c.alts c.V logG c.av i))),
    ("logG", jArr (c.alts.map fun i => if avail c.av i then fbits (logG i) else Json.null))]

def liftE {β} : Except String β → Except String (Except String β)
  | .ok v => pure (.ok v)
  | .error e => if e == "bad-op" then throw e else pure (.error e)

def handle (j : Json) : Except String Json := do
  let op ← getStr j "op"
  match op with
  | "model" =>
    let kind ← getStr j "kind"
    let c ← parseCommon j
    match kind with
    | "logit" =>
      pure (Json.mkObj [
        ("p", jFloats (c.alts.map fun i => logitP c.alts c.V c.av i)),
        ("logp", jArr (c.alts.map fun i => jOptF (logLogit c.alts c.V c.av i)))])
    | "mev" =>
      let lg ← floatList (← j.getObjVal? "logG")
      if lg.length != c.alts.length then throw "bad-op"
      pure (mevOut c (mkFun c.alts lg))
    | "nested" =>
      let arg ← parseArg parseNest j
      match nestedSetup c.alts arg false with
      | .error e => pure (errJson e)
      | .ok (nests, _) => pure (mevOut c (nestedLogG nests c.V c.av))
    | "nestedmu" =>
      let arg ← parseArg parseNest j
      let mu ← getFloat j "mu"
      match nestedSetup c.alts arg true with
      | .error e => pure (errJson e)
      | .ok (nests, _) => pure (mevOut c (nestedMuLogG nests mu c.V c.av))
    | "cnl" =>
      let arg ← parseArg parseCNest j
      match cnlSetup c.alts arg false with
      | .error e => pure (errJson e)
      | .ok (nests, _) => pure (mevOut c (cnlLogG nests c.V c.av))
    | "cnlmu" =>
      let arg ← parseArg parseCNest j
      let mu ← getFloat j "mu"
      match cnlSetup c.alts arg true with
      | .error e => pure (errJson e)
      | .ok (nests, _) => pure (mevOut c (cnlMuLogG nests mu c.V c.av))
    | _ => throw "bad-op"
  | "call" =>
    let kind ← getStr j "kind"
    let util ← parseDict (← j.getObjVal? "util")
    let av ← optDict j "av"
    let alts := util.map (·.1)
    let r : Except String (List (Option Float)) ← match kind with
      | "logit" => pure (alts.mapM fun c => loglogitEval util av c)
      | "mev" => do
        let lg ← parseDict (← j.getObjVal? "logG")
        pure (alts.mapM fun c => logmevEval util lg av c)
      | "meves" => do
        let lg ← parseDict (← j.getObjVal? "logG")
        let w ← parseDict (← j.getObjVal? "corr")
        pure (alts.mapM fun c => logmevESEval util lg w av c)
      | _ => throw "bad-op"
    match r with
    | .error e => pure (errJson e)
    | .ok ls => pure (Json.mkObj [("p", jFloats (ls.map expL)), ("logp", jArr (ls.map jOptF))])
  | "generating" =>
    let c ← parseCommon j
    let arg ← parseArg parseNest j
    match nestedSetup c.alts arg true with
    | .error e => pure (errJson e)
    | .ok (nests, al) =>
      let y : Int → Float := fun i => Float.exp (c.V i)
      pure (Json.mkObj [
        ("G", fbits (nestedGofV nests al c.V c.av)),
        ("Gy", fbits (nestedG nests al c.av y)),
        ("alone", jInts al),
        ("logG", jArr (c.alts.map fun i =>
            if avail c.av i then fbits (nestedLogG nests c.V c.av i) else Json.null))])
  | "ordered" =>
    let cdf ← getStr j "cdf"
    let x ← getFloat j "x"
    let tau ← getFloat j "tau"
    let labels ← intList (← j.getObjVal? "labels")
    let diffs ← (← getArr j "diffs").toList.mapM fun e => do
      match (← asArr e).toList with
      | [k, v] => pure ((← asInt k), (← asFloat v))
      | _ => throw "bad-op"
    let diffOf : Int → Float := fun i => match diffs.lookup i with
      | some v => v
      | none => nan
    let F : Float → Float ← match cdf with
      | "logit" => pure (logisticCdf (α := Float))
      | "probit" => pure (Num.normalCdf (α := Float))
      | _ => throw "bad-op"
    let tauBeta ← match j.getObjVal? "tau_beta" with
      | .ok (Json.bool b) => pure b
      | _ => throw "bad-op"
    match orderedCall tauBeta F x tau diffOf labels with
    | .error e => pure (errJson e)
    | .ok d => pure (Json.mkObj [("dict", jArr (d.map fun p => jArr [jInt p.1, fbits p.2]))])
  | "validate" =>
    let kind ← getStr j "kind"
    let alts ← intList (← j.getObjVal? "alts")
    match kind with
    | "nested" =>
      let arg ← parseArg parseNest j
      match resolve (ν := Nest Float) Nest.alts alts arg with
      | .error e => pure (errJson e)
      | .ok o =>
        let lists := o.nests.map Nest.alts
        pure (Json.mkObj [("ok", jBool (checkPartition o.choiceSet lists)),
                          ("alone", jInts (aloneOf o.choiceSet lists))])
    | "cnl" =>
      let arg ← parseArg parseCNest j
      match resolve (ν := CNest Float) CNest.alts alts arg with
      | .error e => pure (errJson e)
      | .ok o =>
        let lists := o.nests.map CNest.alts
        pure (Json.mkObj [("ok", jBool (checkValidity o.choiceSet lists)),
                          ("alone", jInts (aloneOf o.choiceSet lists))])
    | _ => throw "bad-op"
  | _ => throw "bad-op"

def main : IO Unit := Drv.run handle
