import Driver.Common
import Model.Estimate
open Lean Drv Estimate

/-! JSON-lines driver of the C07 model (Model/Estimate.lean on `Float`). -/

def optFloat (j : Json) : Except String (Option Float) :=
  match j with
  | Json.null => pure none
  | v => do pure (some (← asFloat v))

def getOptFloat (j : Json) (k : String) : Except String (Option Float) := do
  optFloat (← j.getObjVal? k)

def getVec (j : Json) (k : String) : Except String (List Float) := do floatList (← j.getObjVal? k)
def getMat (j : Json) (k : String) : Except String (List (List Float)) := do floatMat (← j.getObjVal? k)

def parseBounds (j : Json) : Except String (Bounds Float) := do
  let a ← asArr j
  a.toList.mapM fun e => do
    let p ← asArr e
    match p.toList with
    | [l, u] => pure (← optFloat l, ← optFloat u)
    | _ => throw "bad-op"

def pvalJson : PVal Float → Json
  | .num x => Json.mkObj [("num", fbits x)]
  | .nat n => Json.mkObj [("nat", jNat n)]
  | .bool b => Json.mkObj [("bool", jBool b)]
  | .none => Json.mkObj [("none", jBool true)]

def paramsJson (p : Params Float) : Json := jArr (p.map fun (k, v) => jArr [jStr k, pvalJson v])

def parseCfg (j : Json) : Except String (Cfg Float) := do
  let alg ← getStr j "algorithm"
  let sd ← getFloat j "second_derivatives"
  let tol ← getFloat j "tolerance"
  let st ← getFloat j "steptol"
  let mi ← getNat j "max_iterations"
  let icg ← getBool j "infeasible_cg"
  let ir ← getFloat j "initial_radius"
  let ef ← getFloat j "enlarging_factor"
  let dl ← getBool j "dogleg"
  pure { algorithm := alg, secondDerivatives := sd, tolerance := tol, steptol := st, maxIterations := mi,
         infeasibleCg := icg, initialRadius := ir, enlargingFactor := ef, dogleg := dl }

def maxAbsDiff (a b : List Float) : Float :=
  if a.length != b.length then 1.0 / 0.0
  else (a.zip b).foldl (fun acc (p : Float × Float) =>
    let d := (p.1 - p.2).abs
    if d.isNaN then (if p.1.isNaN && p.2.isNaN then acc else 1.0 / 0.0) else if acc < d then d else acc) 0.0

/-! ### replay of a recorded session (`Estimate.run` on `Float`)

The likelihood of the database is a finite table (point → value and derivatives, recomputed by
independent objects); the optimiser is the replay of the recorded calls (objective tag, starting
point → returned point).  The objective of the k-th bootstrap sample is only a tag: the model
hands it to the optimiser and never evaluates it. -/

def bitsEq (a b : List Float) : Bool :=
  a.length == b.length && (a.zip b).all fun (p : Float × Float) => p.1.toBits == p.2.toBits

structure EvRow where
  x : List Float
  e : Eval Float

structure OptRow where
  tag : Nat
  x0 : List Float
  xs : List Float
  converged : Bool

def nan : Float := 0.0 / 0.0

def tableEval (t : List EvRow) (x : List Float) : Eval Float :=
  match t.find? fun r => bitsEq r.x x with
  | some r => r.e
  | none => { f := nan, g := [], h := [], bhhh := [] }

/-- objective with a tag readable by the replayed optimiser: value −tag at the empty point -/
def taggedObjective (tag : Nat) (t : List EvRow) : Objective Float :=
  { like := fun x => if x.isEmpty then -(tag.toFloat) else (tableEval t x).f,
    ev := fun x => tableEval t x }

def replayOpt (t : List OptRow) : Optimizer Float := fun f _ _ _ x0 =>
  let tag := (f []).toUInt64.toNat
  match t.find? fun r => r.tag == tag && bitsEq r.x0 x0 with
  | some r => { x := r.xs, converged := r.converged }
  | none => { x := [], converged := false }

def optFloatJson : Option Float → Json
  | some x => fbits x
  | none => Json.null

def reportJson (r : Report Float) : Json :=
  Json.mkObj [
    ("x", jFloats r.res.x), ("logLike", fbits r.res.logLike), ("initLogLike", optFloatJson r.res.initLogLike),
    ("g", match r.res.g with | some g => jFloats g | none => Json.null),
    ("h", match r.res.h with | some h => jMat h | none => Json.null),
    ("bhhh", match r.res.bhhh with | some b => jMat b | none => Json.null),
    ("converged", jBool r.res.converged), ("full", jBool r.full),
    ("bootstrap", match r.bootstrap with | some rows => jMat rows | none => Json.null)]

def parseParams (j : Json) (k : String) : Except String (List (Param Float)) := do
  (← getArr j k).toList.mapM fun p => do
    let n ← getStr p "name"
    let v ← getFloat p "value"
    let fx ← getBool p "fixed"
    pure ({ name := n, value := v, fixed := fx } : Param Float)

def paramsOut (ps : List (Param Float)) : Json :=
  jArr (ps.map fun p => Json.mkObj [("name", jStr p.name), ("value", fbits p.value), ("fixed", jBool p.fixed)])

def parseOp (j : Json) : Except String (Op Float) := do
  match (← getStr j "op") with
  | "eval" => pure (.eval (← getVec j "x"))
  | "init" => pure .initLikelihood
  | "quick" => pure .quickEstimate
  | "estimate" =>
    match (← j.getObjVal? "boot") with
    | Json.null => pure (.estimate none)
    | v => do
      let tags ← natList v
      pure (.estimate (some (tags.map fun t => taggedObjective t [])))
  | "change" =>
    let vals ← (← getArr j "vals").toList.mapM fun p => do
      match (← asArr p).toList with
      | [n, v] => pure ((← asStr n), (← asFloat v))
      | _ => throw "bad-op"
    pure (.changeInit vals)
  | _ => throw "bad-op"

def handle (j : Json) : Except String Json := do
  let op ← getStr j "op"
  match op with
  | "negflip" =>
    let f ← getFloat j "f"
    let g ← getVec j "g"
    let h ← getMat j "h"
    let ev : Vec Float → Eval Float := fun _ => { f := f, g := g, h := h, bhhh := [] }
    let like : Vec Float → Float := fun _ => f
    let r3 := negFGH ev []
    let r2 := negFG ev []
    pure (Json.mkObj [("f", fbits (negF like [])), ("fg_f", fbits r2.1), ("fg_g", jFloats r2.2),
      ("fgh_f", fbits r3.1), ("fgh_g", jFloats r3.2.1), ("fgh_h", jMat r3.2.2)])
  | "plumbing" =>
    let c ← parseCfg j
    let complex ← getBool j "complex"
    let ap := algoParameters c complex
    pure (Json.mkObj [
      ("resolved", match resolve c.algorithm with | some a => jStr a.name | none => Json.null),
      ("bound_aware", match resolve c.algorithm with | some a => jBool a.boundAware | none => Json.null),
      ("algo_parameters", match ap with | some p => paramsJson p | none => Json.null),
      ("function_parameters", paramsJson (functionParameters c)),
      ("call", match plumb c complex with
        | some (_, call) => Json.mkObj [("routine", jStr call.routine), ("kwargs", paramsJson call.kwargs)]
        | none => Json.null)])
  | "run" =>
    let alg ← getStr j "algorithm"
    let bounds ← parseBounds (← j.getObjVal? "bounds")
    let x0 ← getVec j "x0"
    let l0 ← getFloat j "L0"
    let xs ← getVec j "xstar"
    let logLike ← getFloat j "logLike"
    let initLL ← getOptFloat j "initLogLike"
    let lre ← getFloat j "L_re"
    let gre ← getVec j "g_re"
    let tol ← getFloat j "tol"
    let slack ← getFloat j "slack"
    let typf ← getFloat j "typf"
    -- reported derivatives (flattened; empty for quick_estimate) and the recomputed ones
    let repD ← getVec j "reported_flat"
    let reD ← getVec j "recomputed_flat"
    match resolve alg with
    | none => pure (Json.mkObj [("resolved", Json.null)])
    | some a =>
      let aware := a.boundAware
      -- the problem the algorithm solves: its own box when bound-aware, the whole space otherwise
      let effBounds : Bounds Float := if aware then bounds else bounds.map fun _ => (none, none)
      pure (Json.mkObj [
        ("resolved", jStr a.name), ("bound_aware", jBool aware),
        ("contract", jBool (contractB aware bounds (negF (fun _ => l0) []) (negF (fun _ => lre) []) xs x0.length)),
        ("in_box", jBool (inBox bounds xs)),
        ("final_ge_init", match initLL with | some i => jBool (decide (i ≤ logLike)) | none => Json.null),
        ("final_ge_start", jBool (decide (l0 ≤ logLike))),
        ("loglike_is_recomputed", jBool (logLike == lre)),
        ("derivatives_maxabs_diff", fbits (maxAbsDiff repD reD)),
        ("rel_proj_grad", fbits (relProjGrad (if aware then some bounds else none) xs gre (negF (fun _ => lre) []) typf)),
        ("proj_grad_norm", fbits (projGradNorm effBounds xs gre)),
        ("kkt", jBool (kktB tol slack effBounds xs gre))])
  | "writeback" =>
    let names ← strList (← j.getObjVal? "names")
    let x ← getVec j "x"
    let ps ← (← getArr j "params").toList.mapM fun p => do
      let n ← getStr p "name"
      let v ← getFloat p "value"
      let fx ← getBool p "fixed"
      pure ({ name := n, value := v, fixed := fx } : Param Float)
    let out := writeBack ps (estimates names x)
    pure (Json.mkObj [("params", jArr (out.map fun p =>
      Json.mkObj [("name", jStr p.name), ("value", fbits p.value), ("fixed", jBool p.fixed)]))])
  | "pair" =>
    let lx ← getFloat j "lx"
    let x ← getVec j "x"
    let g ← getVec j "g"
    let ly ← getFloat j "ly"
    let y ← getVec j "y"
    pure (Json.mkObj [("excess", fbits (firstOrderExcess lx x g ly y)), ("gap", fbits (gapBound x g y))])
  | "diff" =>
    let a ← getVec j "a"
    let b ← getVec j "b"
    pure (Json.mkObj [("maxabs", fbits (maxAbsDiff a b))])
  | "session" =>
    let names ← strList (← j.getObjVal? "names")
    let ps ← parseParams j "params"
    let idv ← getVec j "idValues"
    let bounds ← parseBounds (← j.getObjVal? "bounds")
    let evs ← (← getArr j "evals").toList.mapM fun r => do
      pure ({ x := (← getVec r "x"),
              e := { f := (← getFloat r "f"), g := (← getVec r "g"), h := (← getMat r "h"), bhhh := (← getMat r "bhhh") } } : EvRow)
    let opts ← (← getArr j "opt").toList.mapM fun r => do
      pure ({ tag := (← getNat r "tag"), x0 := (← getVec r "x0"), xs := (← getVec r "xstar"),
              converged := (← getBool r "converged") } : OptRow)
    let ops ← (← getArr j "ops").toList.mapM parseOp
    let initLL ← getOptFloat j "initLogLike"
    let env : Env Float := { names := names, obj := taggedObjective 0 evs, fd := fun _ => [], opt := replayOpt opts, bounds := bounds }
    let s0 : Session Float := { params := ps, idValues := idv, initLogLike := initLL, bootstrap := none }
    let out := run env s0 ops
    -- never default silently: a recorded call or evaluation that the replay did not find
    if out.2.any fun r => r.res.x.isEmpty || !(evs.any fun row => bitsEq row.x r.res.x) then throw "replay-miss"
    if out.2.any fun r => match r.bootstrap with
        | some rows => rows.any fun row => row.isEmpty
        | none => false then throw "replay-miss"
    pure (Json.mkObj [
      ("reports", jArr (out.2.map reportJson)),
      ("state", Json.mkObj [("params", paramsOut out.1.params), ("idValues", jFloats out.1.idValues),
        ("initLogLike", optFloatJson out.1.initLogLike),
        ("bootstrap", match out.1.bootstrap with | some rows => jMat rows | none => Json.null)])])
  | _ => throw "bad-op"

def main : IO Unit := Drv.run handle
