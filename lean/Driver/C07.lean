import Driver.Common
import Model.Estimate
import Model.EstimateFlow
open Lean Drv Estimate

/-! JSON-lines driver of the C07 model (Model/Estimate.lean on `Float`). -/

def optFloat (j : Json) : Except String (Option Float) :=
  match j with
  | Json.null => pure none
  | v => do pure (some (← asFloat v))

def getOptFloat (j : Json) (k : String) : Except String (Option Float) := do
  optFloat (← j.getObjVal? k)

def getVec (j : Json) (k : String) : Except String (List Float) := do floatList (← j.getObjVal? k)
def getMat (j : Json) (k : String) : Except String (List (List Float)) := do floatMat (← j.getObjVal? k)

def parseBounds (j : Json) : Except String (Bounds Float) := do
  let a ← asArr j
  a.toList.mapM fun e => do
    let p ← asArr e
    match p.toList with
    | [l, u] => pure (← optFloat l, ← optFloat u)
    | _ => throw "bad-op"

def pvalJson : PVal Float → Json
  | .num x => Json.mkObj [("num", fbits x)]
  | .nat n => Json.mkObj [("nat", jNat n)]
  | .bool b => Json.mkObj [("bool", jBool b)]
  | .none => Json.mkObj [("none", jBool true)]

def paramsJson (p : Params Float) : Json := jArr (p.map fun (k, v) => jArr [jStr k, pvalJson v])

def parseCfg (j : Json) : Except String (Cfg Float) := do
  let alg ← getStr j "algorithm"
  let sd ← getFloat j "second_derivatives"
  let tol ← getFloat j "tolerance"
  let st ← getFloat j "steptol"
  let mi ← getNat j "max_iterations"
  let icg ← getBool j "infeasible_cg"
  let ir ← getFloat j "initial_radius"
  let ef ← getFloat j "enlarging_factor"
  let dl ← getBool j "dogleg"
  pure { algorithm := alg, secondDerivatives := sd, tolerance := tol, steptol := st, maxIterations := mi,
         infeasibleCg := icg, initialRadius := ir, enlargingFactor := ef, dogleg := dl }

def maxAbsDiff (a b : List Float) : Float :=
  if a.length != b.length then 1.0 / 0.0
  else (a.zip b).foldl (fun acc (p : Float × Float) =>
    let d := (p.1 - p.2).abs
    if d.isNaN then (if p.1.isNaN && p.2.isNaN then acc else 1.0 / 0.0) else if acc < d then d else acc) 0.0

/-! ### replay of a recorded session (`Estimate.run` on `Float`)

The likelihood of the database is a finite table (point → value and derivatives, recomputed by
independent objects); the optimiser is the replay of the recorded calls (objective tag, starting
point → returned point).  The objective of the k-th bootstrap sample is only a tag: the model
hands it to the optimiser and never evaluates it. -/

def bitsEq (a b : List Float) : Bool :=
  a.length == b.length && (a.zip b).all fun (p : Float × Float) => p.1.toBits == p.2.toBits

structure EvRow where
  x : List Float
  e : Eval Float

structure OptRow where
  tag : Nat
  x0 : List Float
  xs : List Float
  converged : Bool

def nan : Float := 0.0 / 0.0

def tableEval (t : List EvRow) (x : List Float) : Eval Float :=
  match t.find? fun r => bitsEq r.x x with
  | some r => r.e
  | none => { f := nan, g := [], h := [], bhhh := [] }

/-- objective with a tag readable by the replayed optimiser: value −tag at the empty point -/
def taggedObjective (tag : Nat) (t : List EvRow) : Objective Float :=
  { like := fun x => if x.isEmpty then -(tag.toFloat) else (tableEval t x).f,
    ev := fun x => tableEval t x }

def replayOpt (t : List OptRow) : Optimizer Float := fun f _ _ _ x0 =>
  let tag := (f []).toUInt64.toNat
  match t.find? fun r => r.tag == tag && bitsEq r.x0 x0 with
  | some r => { x := r.xs, converged := r.converged }
  | none => { x := [], converged := false }

def optFloatJson : Option Float → Json
  | some x => fbits x
  | none => Json.null

def reportJson (r : Report Float) : Json :=
  Json.mkObj [
    ("x", jFloats r.res.x), ("logLike", fbits r.res.logLike), ("initLogLike", optFloatJson r.res.initLogLike),
    ("g", match r.res.g with | some g => jFloats g | none => Json.null),
    ("h", match r.res.h with | some h => jMat h | none => Json.null),
    ("bhhh", match r.res.bhhh with | some b => jMat b | none => Json.null),
    ("converged", jBool r.res.converged), ("full", jBool r.full),
    ("bootstrap", match r.bootstrap with | some rows => jMat rows | none => Json.null)]

def parseParams (j : Json) (k : String) : Except String (List (Param Float)) := do
  (← getArr j k).toList.mapM fun p => do
    let n ← getStr p "name"
    let v ← getFloat p "value"
    let fx ← getBool p "fixed"
    pure ({ name := n, value := v, fixed := fx } : Param Float)

def paramsOut (ps : List (Param Float)) : Json :=
  jArr (ps.map fun p => Json.mkObj [("name", jStr p.name), ("value", fbits p.value), ("fixed", jBool p.fixed)])

def parseOp (j : Json) : Except String (Op Float) := do
  match (← getStr j "op") with
  | "eval" => pure (.eval (← getVec j "x"))
  | "init" => pure .initLikelihood
  | "quick" => pure .quickEstimate
  | "estimate" =>
    match (← j.getObjVal? "boot") with
    | Json.null => pure (.estimate none)
    | v => do
      let tags ← natList v
      pure (.estimate (some (tags.map fun t => taggedObjective t [])))
  | "change" =>
    let vals ← (← getArr j "vals").toList.mapM fun p => do
      match (← asArr p).toList with
      | [n, v] => pure ((← asStr n), (← asFloat v))
      | _ => throw "bad-op"
    pure (.changeInit vals)
  | _ => throw "bad-op"


/-! ### round 3: the extended object (`Estimate.frun`), `NegativeLikelihood` call by call, catalogs -/

structure OptRowT where
  tag : Nat
  x0 : List Float
  xs : List Float
  converged : Bool
  evals : List (List Float)

def replayOptT (t : List OptRowT) : OptimizerT Float := fun f _ _ _ x0 =>
  let tag := (f []).toUInt64.toNat
  match t.find? fun r => r.tag == tag && bitsEq r.x0 x0 with
  | some r => { x := r.xs, converged := r.converged, evals := r.evals }
  | none => { x := [], converged := false, evals := [] }

def parseEvRows (j : Json) (k : String) : Except String (List EvRow) := do
  (← getArr j k).toList.mapM fun r => do
    pure ({ x := (← getVec r "x"),
            e := { f := (← getFloat r "f"), g := (← getVec r "g"), h := (← getMat r "h"), bhhh := (← getMat r "bhhh") } } : EvRow)

def parseOptRowsT (j : Json) (k : String) : Except String (List OptRowT) := do
  (← getArr j k).toList.mapM fun r => do
    let ev ← (← getArr r "evals").toList.mapM fun v => floatList v
    pure ({ tag := (← getNat r "tag"), x0 := (← getVec r "x0"), xs := (← getVec r "xstar"),
            converged := (← getBool r "converged"), evals := ev } : OptRowT)

def parseVals (j : Json) : Except String (List (String × Float)) := do
  (← asArr j).toList.mapM fun p => do
    match (← asArr p).toList with
    | [n, v] => pure ((← asStr n), (← asFloat v))
    | _ => throw "bad-op"

def parseFOp (tables : List (Nat × List EvRow)) (j : Json) : Except String (FOp Float) := do
  match (← getStr j "op") with
  | "like" => pure (.like (← getVec j "x"))
  | "evalD" => pure (.evalD (← getVec j "x"))
  | "init" => pure .initLikelihood
  | "quick" => pure .quickEstimate
  | "estimate" =>
    match (← j.getObjVal? "boot") with
    | Json.null => pure (.estimate none)
    | v => do
      let tags ← natList v
      let objs ← tags.mapM fun t =>
        match tables.lookup t with
        | some tb => pure (taggedObjective t tb)
        | none => throw "replay-miss"
      pure (.estimate (some objs))
  | "change" => pure (.changeInit (← parseVals (← j.getObjVal? "vals")))
  | "setSave" => pure (.setSave (← getBool j "value"))
  | "nullLL" => pure (.nullLL (← getMat j "rows"))
  | "removeFile" => pure .removeFile
  | _ => throw "bad-op"

def valsJson (v : List (String × Float)) : Json := jArr (v.map fun (n, x) => jArr [jStr n, fbits x])

def freportJson (r : FReport Float) : Json :=
  match reportJson r.rep with
  | Json.obj kvs => Json.obj (kvs.insert "nullLL" (optFloatJson r.nullLL))
  | j => j

def negKindOf (s : String) : Except String NegKind :=
  match s with
  | "f" => pure .f
  | "fg" => pure .fg
  | "fgh" => pure .fgh
  | _ => throw "bad-op"

def likeCallJson (c : LikeCall) : Json :=
  Json.mkObj [("derivatives", jBool c.derivatives), ("scaled", jBool c.scaled), ("hessian", jBool c.hessian),
    ("bhhh", jBool c.bhhh), ("batch_none", jBool c.batchNone)]

def handle (j : Json) : Except String Json := do
  let op ← getStr j "op"
  match op with
  | "negflip" =>
    let f ← getFloat j "f"
    let g ← getVec j "g"
    let h ← getMat j "h"
    let ev : Vec Float → Eval Float := fun _ => { f := f, g := g, h := h, bhhh := [] }
    let like : Vec Float → Float := fun _ => f
    let r3 := negFGH ev []
    let r2 := negFG ev []
    pure (Json.mkObj [("f", fbits (negF like [])), ("fg_f", fbits r2.1), ("fg_g", jFloats r2.2),
      ("fgh_f", fbits r3.1), ("fgh_g", jFloats r3.2.1), ("fgh_h", jMat r3.2.2)])
  | "plumbing" =>
    let c ← parseCfg j
    let complex ← getBool j "complex"
    let ap := algoParameters c complex
    pure (Json.mkObj [
      ("resolved", match resolve c.algorithm with | some a => jStr a.name | none => Json.null),
      ("bound_aware", match resolve c.algorithm with | some a => jBool a.boundAware | none => Json.null),
      ("algo_parameters", match ap with | some p => paramsJson p | none => Json.null),
      ("function_parameters", paramsJson (functionParameters c)),
      ("call", match plumb c complex with
        | some (_, call) => Json.mkObj [("routine", jStr call.routine), ("kwargs", paramsJson call.kwargs)]
        | none => Json.null)])
  | "run" =>
    let alg ← getStr j "algorithm"
    let bounds ← parseBounds (← j.getObjVal? "bounds")
    let x0 ← getVec j "x0"
    let l0 ← getFloat j "L0"
    let xs ← getVec j "xstar"
    let logLike ← getFloat j "logLike"
    let initLL ← getOptFloat j "initLogLike"
    let lre ← getFloat j "L_re"
    let gre ← getVec j "g_re"
    let tol ← getFloat j "tol"
    let slack ← getFloat j "slack"
    let typf ← getFloat j "typf"
    -- reported derivatives (flattened; empty for quick_estimate) and the recomputed ones
    let repD ← getVec j "reported_flat"
    let reD ← getVec j "recomputed_flat"
    match resolve alg with
    | none => pure (Json.mkObj [("resolved", Json.null)])
    | some a =>
      let aware := a.boundAware
      -- the problem the algorithm solves: its own box when bound-aware, the whole space otherwise
      let effBounds : Bounds Float := if aware then bounds else bounds.map fun _ => (none, none)
      pure (Json.mkObj [
        ("resolved", jStr a.name), ("bound_aware", jBool aware),
        ("contract", jBool (contractB aware bounds (negF (fun _ => l0) []) (negF (fun _ => lre) []) xs x0.length)),
        ("in_box", jBool (inBox bounds xs)),
        ("final_ge_init", match initLL with | some i => jBool (decide (i ≤ logLike)) | none => Json.null),
        ("final_ge_start", jBool (decide (l0 ≤ logLike))),
        ("loglike_is_recomputed", jBool (logLike == lre)),
        ("derivatives_maxabs_diff", fbits (maxAbsDiff repD reD)),
        ("rel_proj_grad", fbits (relProjGrad (if aware then some bounds else none) xs gre (negF (fun _ => lre) []) typf)),
        ("proj_grad_norm", fbits (projGradNorm effBounds xs gre)),
        ("kkt", jBool (kktB tol slack effBounds xs gre))])
  | "writeback" =>
    let names ← strList (← j.getObjVal? "names")
    let x ← getVec j "x"
    let ps ← (← getArr j "params").toList.mapM fun p => do
      let n ← getStr p "name"
      let v ← getFloat p "value"
      let fx ← getBool p "fixed"
      pure ({ name := n, value := v, fixed := fx } : Param Float)
    let out := writeBack ps (estimates names x)
    pure (Json.mkObj [("params", jArr (out.map fun p =>
      Json.mkObj [("name", jStr p.name), ("value", fbits p.value), ("fixed", jBool p.fixed)]))])
  | "pair" =>
    let lx ← getFloat j "lx"
    let x ← getVec j "x"
    let g ← getVec j "g"
    let ly ← getFloat j "ly"
    let y ← getVec j "y"
    pure (Json.mkObj [("excess", fbits (firstOrderExcess lx x g ly y)), ("gap", fbits (gapBound x g y))])
  | "diff" =>
    let a ← getVec j "a"
    let b ← getVec j "b"
    pure (Json.mkObj [("maxabs", fbits (maxAbsDiff a b))])
  | "session" =>
    let names ← strList (← j.getObjVal? "names")
    let ps ← parseParams j "params"
    let idv ← getVec j "idValues"
    let bounds ← parseBounds (← j.getObjVal? "bounds")
    let evs ← (← getArr j "evals").toList.mapM fun r => do
      pure ({ x := (← getVec r "x"),
              e := { f := (← getFloat r "f"), g := (← getVec r "g"), h := (← getMat r "h"), bhhh := (← getMat r "bhhh") } } : EvRow)
    let opts ← (← getArr j "opt").toList.mapM fun r => do
      pure ({ tag := (← getNat r "tag"), x0 := (← getVec r "x0"), xs := (← getVec r "xstar"),
              converged := (← getBool r "converged") } : OptRow)
    let ops ← (← getArr j "ops").toList.mapM parseOp
    let initLL ← getOptFloat j "initLogLike"
    let env : Env Float := { names := names, obj := taggedObjective 0 evs, fd := fun _ => [], opt := replayOpt opts, bounds := bounds }
    let s0 : Session Float := { params := ps, idValues := idv, initLogLike := initLL, bootstrap := none }
    let out := run env s0 ops
    -- never default silently: a recorded call or evaluation that the replay did not find
    if out.2.any fun r => r.res.x.isEmpty || !(evs.any fun row => bitsEq row.x r.res.x) then throw "replay-miss"
    if out.2.any fun r => match r.bootstrap with
        | some rows => rows.any fun row => row.isEmpty
        | none => false then throw "replay-miss"
    pure (Json.mkObj [
      ("reports", jArr (out.2.map reportJson)),
      ("state", Json.mkObj [("params", paramsOut out.1.params), ("idValues", jFloats out.1.idValues),
        ("initLogLike", optFloatJson out.1.initLogLike),
        ("bootstrap", match out.1.bootstrap with | some rows => jMat rows | none => Json.null)])])
  | "negcalls" =>
    -- every call recorded during a real optimisation: kind, what the BIOGEME object returned
    let calls ← (← getArr j "calls").toList.mapM fun c => do
      let k ← negKindOf (← getStr c "kind")
      let f ← getFloat c "f"
      let g ← getVec c "g"
      let h ← getMat c "h"
      let ev : Vec Float → Eval Float := fun _ => { f := f, g := g, h := h, bhhh := [] }
      let out := negCall (fun _ => f) ev k []
      pure (Json.mkObj [("flags", likeCallJson (negFlags k)), ("f", fbits out.f),
        ("g", match out.g with | some g => jFloats g | none => Json.null),
        ("h", match out.h with | some h => jMat h | none => Json.null)])
    pure (Json.mkObj [("calls", jArr calls)])
  | "nullll" =>
    pure (Json.mkObj [("value", fbits (nullLogLike (← getMat j "rows")))])
  | "flow" =>
    let names ← strList (← j.getObjVal? "names")
    let ps ← parseParams j "params"
    let idv ← getVec j "idValues"
    let bounds ← parseBounds (← j.getObjVal? "bounds")
    let evs ← parseEvRows j "evals"
    let bootTables ← (← getArr j "boot_tables").toList.mapM fun t => do
      pure ((← getNat t "tag"), (← parseEvRows t "evals"))
    let opts ← parseOptRowsT j "opt"
    let ops ← (← getArr j "ops").toList.mapM (parseFOp bootTables)
    let file ← match (← j.getObjVal? "file") with
      | Json.null => pure none
      | v => do pure (some (← parseVals v))
    let save ← getBool j "save"
    -- never default silently: every point of a recorded trace must be in the table of its objective
    for r in opts do
      let tb ← if r.tag == 0 then pure evs else match bootTables.lookup r.tag with
        | some t => pure t
        | none => throw "replay-miss"
      if r.evals.any fun x => !(tb.any fun row => bitsEq row.x x) then throw "replay-miss"
    let env : EnvT Float := { names := names, obj := taggedObjective 0 evs, fd := fun _ => [], opt := replayOptT opts, bounds := bounds }
    let s0 : FState Float := { s := { params := ps, idValues := idv, initLogLike := none, bootstrap := none },
                               it := { best := none, file := file }, nullLL := none, save := save }
    let out := frun env s0 ops
    if out.2.any fun r => r.rep.res.x.isEmpty || !(evs.any fun row => bitsEq row.x r.rep.res.x) then throw "replay-miss"
    if out.2.any fun r => match r.rep.bootstrap with
        | some rows => rows.any fun row => row.isEmpty
        | none => false then throw "replay-miss"
    pure (Json.mkObj [
      ("reports", jArr (out.2.map freportJson)),
      ("state", Json.mkObj [("params", paramsOut out.1.s.params), ("idValues", jFloats out.1.s.idValues),
        ("initLogLike", optFloatJson out.1.s.initLogLike),
        ("bootstrap", match out.1.s.bootstrap with | some rows => jMat rows | none => Json.null),
        ("file", match out.1.it.file with | some v => valsJson v | none => Json.null),
        ("best", optFloatJson out.1.it.best), ("nullLL", optFloatJson out.1.nullLL), ("save", jBool out.1.save)])])
  | "catalog" =>
    let quick ← getBool j "quick"
    let cfgs ← (← getArr j "configs").toList.mapM fun c => do
      let names ← strList (← c.getObjVal? "names")
      let ps ← parseParams c "params"
      let idv ← getVec c "idValues"
      let bounds ← parseBounds (← c.getObjVal? "bounds")
      let evs ← parseEvRows c "evals"
      let opts ← (← getArr c "opt").toList.mapM fun r => do
        pure ({ tag := (← getNat r "tag"), x0 := (← getVec r "x0"), xs := (← getVec r "xstar"),
                converged := (← getBool r "converged") } : OptRow)
      let env : Env Float := { names := names, obj := taggedObjective 0 evs, fd := fun _ => [], opt := replayOpt opts, bounds := bounds }
      pure ({ id := (← getStr c "id"), env := env,
              s0 := { params := ps, idValues := idv, initLogLike := none, bootstrap := none } } : Config Float)
    let out := estimateCatalog quick (fun _ => none) cfgs
    if out.any fun p => p.2.res.x.isEmpty then throw "replay-miss"
    pure (Json.mkObj [("results", jArr (out.map fun p => Json.mkObj [("id", jStr p.1), ("report", reportJson p.2)]))])
  | _ => throw "bad-op"

def main : IO Unit := Drv.run handle
