import Driver.Common
import Model.Stats
import Model.StatsReports
import Model.StatsCompile
open Lean Drv Stats

/-! JSON-lines driver of the C08 model (Model/Stats.lean on `Float`). -/

def optFloat (j : Json) : Except String (Option Float) :=
  match j with
  | Json.null => pure none
  | v => do pure (some (← asFloat v))

def getOptFloat (j : Json) (k : String) : Except String (Option Float) := do
  optFloat (← j.getObjVal? k)

def getMat (j : Json) (k : String) : Except String (Mat Float) := do floatMat (← j.getObjVal? k)

def getOptMat (j : Json) (k : String) : Except String (Option (Mat Float)) := do
  match (← j.getObjVal? k) with
  | Json.null => pure none
  | v => do pure (some (← floatMat v))

def jOptF : Option Float → Json
  | none => Json.null
  | some x => fbits x

def jChars (l : List Char) : Json := jStr (String.ofList l)

def maxAbs (n : Nat) (A : Mat Float) : Float :=
  (List.range n).foldl (fun acc i => (List.range n).foldl (fun a j =>
    let v := (ent A i j).abs
    if v.isNaN then v else if a < v then v else a) acc) 0.0

def msub (n : Nat) (A B : Mat Float) : Mat Float := build n n fun i j => ent A i j - ent B i j

/-- residuals of the four Penrose equations (max-norm) and the two norms -/
def penrose (n : Nat) (A X : Mat Float) : List Float :=
  let AX := mmul n A X
  let XA := mmul n X A
  [maxAbs n (msub n (mmul n AX A) A), maxAbs n (msub n (mmul n XA X) X),
   maxAbs n (msub n (transpose n AX) AX), maxAbs n (msub n (transpose n XA) XA),
   maxAbs n A, maxAbs n X]

def parseBounds (j : Json) : Except String (List (Option Float × Option Float)) := do
  let a ← asArr j
  a.toList.mapM fun e => do
    let p ← asArr e
    match p.toList with
    | [l, u] => pure (← optFloat l, ← optFloat u)
    | _ => throw "bad-op"

def famJson (K : Nat) (beta : List Float) (V : Mat Float) : Json :=
  Json.mkObj [
    ("se", jFloats (famSe K V)), ("t", jFloats (famT K beta V)), ("p", jFloats (famP K beta V)),
    ("corr", jMat (corr K V)),
    ("corr_entry", jMat (build K K fun i j => corrEntry V i j)),
    ("allpos", jBool (allPos K V)),
    ("pairs", jArr ((pairs K).map fun (i, j) =>
       jArr [jNat i, jNat j, fbits (pairR V i j), fbits (pairT beta V i j), fbits (pOf (pairT beta V i j))]))]

def tableJson (rows : List (List Char × List (Option Float))) : Json :=
  jArr (rows.map fun (n, cells) => jArr [jChars n, jArr (cells.map jOptF)])

def parseRep (j : Json) : Except String (Rep Float) := do
  let names := (← strList (← j.getObjVal? "names")).map String.toList
  let beta ← floatList (← j.getObjVal? "beta")
  let bounds ← parseBounds (← j.getObjVal? "bounds")
  let V ← getMat j "V"
  let R ← getMat j "R"
  let Bt ← getOptMat j "Bt"
  let nBoot ← getNat j "nboot"
  let K := beta.length
  pure { K := K, names := names, beta := beta,
         active := (List.range K).map fun k =>
           boundActive (vget beta k) ((bounds.getD k (none, none)).1) ((bounds.getD k (none, none)).2),
         cls := V, rob := R, boot := Bt.map fun m => (nBoot, m) }

def parseRaw (j : Json) : Except String (Raw Float) := do
  pure { K := (← getNat j "K"), nFree := (← getNat j "nfree"), sampleSize := (← getNat j "N"),
         nObs := (← getNat j "nobs"), excluded := (← getNat j "excluded"),
         logLike := (← getFloat j "L"), initLL := (← getOptFloat j "init"), nullLL := (← getOptFloat j "null"),
         gradNorm := (← getOptFloat j "gnorm"), monteCarlo := (← getBool j "mc"), nDraws := (← getNat j "ndraws"),
         hasBoot := (← getBool j "hasboot"), threads := (← getNat j "threads") }

def gvalJson : GVal Float → Json
  | .nat n => Json.mkObj [("nat", jNat n)]
  | .num x => Json.mkObj [("num", fbits x)]
  | .onum x => Json.mkObj [("onum", jOptF x)]
  | .opaque => Json.mkObj [("opaque", jBool true)]

def cellJson : Cell Float → Json
  | .g v => Json.mkObj [("g", gvalJson v)]
  | .num x => Json.mkObj [("num", fbits x)]
  | .fmt v se t => Json.mkObj [("fmt", jArr [fbits v, jOptF se, jOptF t])]

def parseGLabel (s : String) : Except String GLabel :=
  match GLabel.all.find? (fun l => l.render == s) with
  | some l => pure l
  | none => throw "unknown-statistic"

def txtJson (fmt : GLabel → Fmt) (lab : GLabel → String) : Txt (GLabel × GVal Float) → Json
  | .error => Json.mkObj [("error_text", jBool true)]
  | .ok items => Json.mkObj [("items", jArr (items.map fun (l, v) =>
      jArr [jStr (lab l), gvalJson v, jStr (fmt l).code]))]

def f12Json (raw : Raw Float) (rep : Rep Float) (tbl : List (List Float)) (rob : Bool) : Json :=
  Json.mkObj [
    ("coef", jArr ((List.range rep.K).map fun k =>
      let c := f12Coef rep rob k
      jArr [jBool c.1, fbits c.2.1, fbits c.2.2])),
    ("stats", jArr [jNat (f12Stats raw).1, jOptF (f12Stats raw).2.1, fbits (f12Stats raw).2.2]),
    ("corr", jFloats (f12CorrOf tbl rob))]

def handle (j : Json) : Except String Json := do
  let op ← getStr j "op"
  match op with
  | "report" =>
    let rep ← parseRep j
    let K := rep.K
    let H ← getMat j "H"
    let B ← getMat j "B"
    let S ← getOptMat j "S"
    let A := nanToNumMat K H
    let modelRob := robust K rep.cls B
    let modelBoot := S.map (sampleCov K)
    -- the report as `mkRep` builds it from the raw outcome and the supplied pseudo-inverse
    let bounds ← parseBounds (← j.getObjVal? "bounds")
    let chain := mkRep rep.names rep.beta bounds rep.cls B S
    pure (Json.mkObj [
      ("penrose", jFloats (penrose K A (mneg K rep.cls))),
      ("robust", jMat modelRob),
      ("samplecov", match modelBoot with | some m => jMat m | none => Json.null),
      ("active", jArr (rep.active.map jBool)),
      ("cls", famJson K rep.beta rep.cls),
      ("rob", famJson K rep.beta rep.rob),
      ("boot", match rep.boot with | some (_, m) => famJson K rep.beta m | none => Json.null),
      ("chain_rob", famJson K rep.beta chain.rob),
      ("chain_boot", match chain.boot with | some (_, m) => famJson K rep.beta m | none => Json.null),
      ("second_order", jArr ((pairs K).map fun (i, j) => jFloats (secondOrderEntry rep i j))),
      ("param_cols_robust", jStrs ((paramColumns rep.anyActive true (rep.boot.map (·.1))).map PLabel.render)),
      ("param_cols_all", jStrs ((paramColumns rep.anyActive false (rep.boot.map (·.1))).map PLabel.render)),
      ("param_robust", tableJson (paramTable rep true)),
      ("param_all", tableJson (paramTable rep false)),
      ("corr_cols", jStrs ((corrColumns rep.boot.isSome).map CLabel.render)),
      ("corr_table", tableJson (corrTable rep))])
  | "general" =>
    let raw ← parseRaw j
    let s := summary raw
    pure (Json.mkObj [
      ("stats", jArr ((generalStatistics raw).map fun (l, v) => jArr [jStr l.render, gvalJson v])),
      ("summary", Json.mkObj [
        ("lrtNull", jOptF s.lrtNull), ("lrtInit", jOptF s.lrtInit),
        ("rho2Init", jOptF s.rho2Init), ("rho2Null", jOptF s.rho2Null),
        ("rhoBar2Init", jOptF s.rhoBar2Init), ("rhoBar2Null", jOptF s.rhoBar2Null),
        ("akaike", fbits s.akaike), ("bayesian", fbits s.bayesian)])])
  | "compile" =>
    let stats ← (← strList (← j.getObjVal? "statistics")).mapM parseGLabel
    let bp ← getBool j "params"
    let bs ← getBool j "std"
    let bt ← getBool j "ttest"
    let bf ← getBool j "formatted"
    let o : CompileOpts :=
      { statistics := stats, includeParams := bp, includeStd := bs, includeT := bt, formatted := bf }
    let ms ← (← getArr j "models").toList.mapM fun m => do
      let raw ← parseRaw (← m.getObjVal? "raw")
      let rep ← parseRep (← m.getObjVal? "rep")
      pure (raw, rep)
    -- entries with an error path: `null` = the name of a file that cannot be read
    let es ← match (j.getObjVal? "entries").toOption with
      | none => pure (ms.map some)
      | some e => do
        let idx ← (← asArr e).toList.mapM fun x => match x with
          | Json.null => pure (none : Option Nat)
          | v => do pure (some (← v.getNat?))
        idx.mapM fun i => match i with
          | none => pure (none : Option (Raw Float × Rep Float))
          | some n => match ms[n]? with
            | some m => pure (some m)
            | none => throw "bad-op"
    let tbl := compileTableE o es
    pure (Json.mkObj [("rows", jArr (tbl.map fun (l, cells) =>
      jArr [jChars l.render, jArr (cells.map fun c => match c with
        | none => Json.null
        | some c => cellJson c)]))])
  | "lr" =>
    let l1 ← getFloat j "l1"
    let l2 ← getFloat j "l2"
    let k1 ← getInt j "k1"
    let k2 ← getInt j "k2"
    match lrRoles l1 k1 l2 k2 with
    | .refused => pure (Json.mkObj [("refused", jBool true)])
    | .ok stat df llU llR kU kR =>
      let thr ← getOptFloat j "threshold"
      pure (Json.mkObj [("refused", jBool false), ("stat", fbits stat), ("df", jInt df),
        ("llU", fbits llU), ("llR", fbits llR), ("kU", jInt kU), ("kR", jInt kR),
        ("reject", match thr with | some t => jBool (lrReject stat t) | none => Json.null)])
  | "text" =>
    let raw ← parseRaw (← j.getObjVal? "raw")
    let rep ← parseRep (← j.getObjVal? "rep")
    let tbl := secondOrderTable rep
    pure (Json.mkObj [
      ("print_general", txtJson GLabel.format GLabel.render (printGeneral raw)),
      ("short", txtJson GLabel.textFormat GLabel.textLabel (shortSummary raw)),
      ("str_stats", txtJson GLabel.textFormat GLabel.textLabel (strStats raw)),
      ("beta_lines", jArr ((List.range rep.K).map fun k => jFloats ((betaLine rep k).map (·.2)))),
      ("pair_lines", jArr (tbl.map fun v => jFloats (strPairLineOf v))),
      ("html_general", jArr ((htmlGeneral raw).map fun (l, v) =>
        jArr [jStr l.render, gvalJson v, jStr l.format.code])),
      ("html_pair_names", jArr ((pairs rep.K).map fun (i, j) =>
        jArr [jChars (htmlPairNames rep i j).1, jChars (htmlPairNames rep i j).2])),
      ("f12_robust", f12Json raw rep tbl true),
      ("f12_classical", f12Json raw rep tbl false)])
  | "lr_results" =>
    let self ← parseRaw (← j.getObjVal? "self")
    let other ← parseRaw (← j.getObjVal? "other")
    match lrOnResults self other with
    | .refused => pure (Json.mkObj [("refused", jBool true)])
    | .ok stat df llU llR kU kR =>
      pure (Json.mkObj [("refused", jBool false), ("stat", fbits stat), ("df", jInt df),
        ("llU", fbits llU), ("llR", fbits llR), ("kU", jInt kU), ("kR", jInt kR)])
  | "subset" =>
    let rep ← parseRep (← j.getObjVal? "rep")
    let sub := (← strList (← j.getObjVal? "subset")).map String.toList
    pure (Json.mkObj [("rows", tableJson (corrTableSubset rep sub))])
  | "sens" =>
    let names := (← strList (← j.getObjVal? "names")).map String.toList
    let req := (← strList (← j.getObjVal? "req")).map String.toList
    let S ← getMat j "S"
    match sensDraws names req S with
    | none => pure (Json.mkObj [("unknown_name", jBool true)])
    | some rows => pure (Json.mkObj [("rows", jArr (rows.map fun row =>
        jArr (row.map fun (n, v) => jArr [jChars n, fbits v])))])
  | "pvalue" =>
    let ts ← floatList (← j.getObjVal? "t")
    pure (Json.mkObj [("p", jFloats (ts.map pOf))])
  | "tstat" =>
    let b ← getFloat j "b"
    let s ← getFloat j "s"
    pure (Json.mkObj [("t", fbits (tOf b s)), ("p", fbits (pOf (tOf b s)))])
  | _ => throw "bad-op"

def main : IO Unit := Drv.run handle
