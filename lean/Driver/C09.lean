import Driver.Common
import Model.Panel
import Model.PanelCode
open Lean Drv Panel

def entryJson (e : Entry) : Json := jArr [jInt e.id, jNat e.first, jNat e.last]

def outerFn (name : String) : Except String (Float → Float) :=
  match name with
  | "log" => pure Float.log
  | "id" => pure id
  | _ => throw "bad-op"

partial def parseExpr (j : Json) : Except String PExpr := do
  let k ← getStr j "k"
  match k with
  | "num" => pure (.num (← getInt j "v"))
  | "beta" => pure (.beta (← getStr j "n"))
  | "var" => pure (.var (← getStr j "n"))
  | "draws" => pure (.draws (← getStr j "n"))
  | "un" => pure (.un (← getStr j "op") (← parseExpr (← j.getObjVal? "e")))
  | "bin" => pure (.bin (← getStr j "op") (← parseExpr (← j.getObjVal? "l")) (← parseExpr (← j.getObjVal? "r")))
  | "traj" => pure (.traj (← parseExpr (← j.getObjVal? "e")))
  | "mc" => pure (.mc (← parseExpr (← j.getObjVal? "e")))
  | _ => throw "bad-op"

/-- integrand family of the check: `P·exp(b·X·ξ₀)·(1 + q·ξ₁)` (ξ₁ absent: factor 1) -/
def integrand (P X : Array Float) (b q : Float) (K : Nat) (t : Nat) (xi : Nat → Float) : Float :=
  let base := P.getD t 0.0 * Float.exp (b * X.getD t 0.0 * xi 0)
  if K ≥ 2 then base * (1.0 + q * xi 1) else base

def handle (j : Json) : Except String Json := do
  let op ← getStr j "op"
  match op with
  | "panel" =>
    let ids ← intList (← j.getObjVal? "ids")
    let s := sortIds ids
    pure (Json.mkObj [("ok", jBool (panelOk ids)), ("groups", jNat (countGroups ids)),
      ("individuals", jNat (countGroups s)), ("sorted", jInts s),
      ("groups_code", jNat (countGroupsCode ids)), ("individuals_code", jNat (countGroupsCode s)),
      ("ok_code", jBool (panelOkCode ids)),
      ("map", jArr ((panelMap s).map entryJson)), ("sample_size", jNat (sampleSize s))])
  | "values" =>
    -- formula outer(PanelLikelihoodTrajectory(P)) on a table given in its original order
    let ids ← intList (← j.getObjVal? "ids")
    let p ← floatList (← j.getObjVal? "p")
    let outer ← outerFn (← getStr j "outer")
    if ids.length != p.length then throw "bad-op"
    let vals := tableValues outer (fun (x : Float) => x) 0.0 (ids.zip p)
    pure (Json.mkObj [("ids", jInts (vals.map (·.1))), ("values", jFloats (vals.map (·.2)))])
  | "mc" =>
    -- outer(MonteCarlo(PanelLikelihoodTrajectory(integrand))) on a table already sorted by id
    let ids ← intList (← j.getObjVal? "ids")
    let p ← floatList (← j.getObjVal? "p")
    let x ← floatList (← j.getObjVal? "x")
    let b ← getFloat j "b"
    let q ← getFloat j "q"
    let K ← getNat j "K"
    let R ← getNat j "R"
    let outer ← outerFn (← getStr j "outer")
    let dr ← (← getArr j "draws").toList.mapM floatMat       -- [individual][r][k]
    let da := (dr.map fun m => (m.map List.toArray).toArray).toArray
    let draws : Nat → Nat → Nat → Float := fun i r k => ((da.getD i #[]).getD r #[]).getD k 0.0
    if R = 0 then throw "bad-op"
    let vals := panelValuesMC outer (integrand p.toArray x.toArray b q K) draws ids R
    pure (Json.mkObj [("values", jFloats vals), ("sample_size", jNat (sampleSize ids))])
  | "audit" =>
    let e ← parseExpr (← j.getObjVal? "e")
    pure (Json.mkObj [("outside", jStrs (checkPanelTrajectory e)), ("ntraj", jNat (countTraj e)),
      ("draws_outside", jStrs (checkDraws e)), ("audit_errors", jNat (auditErrors e)),
      ("accepts", jBool (initAccepts e)), ("has_traj", jBool (hasTraj e))])
  | "history" =>
    -- tables assigned to database.data one after the other, one evaluation of
    -- outer(PanelLikelihoodTrajectory(P)) after each; the database starts with the map of `first`
    let outer ← outerFn (← getStr j "outer")
    let readTable (t : Json) : Except String (List (Int × Float)) := do
      let ids ← intList (← t.getObjVal? "ids")
      let p ← floatList (← t.getObjVal? "p")
      if ids.length != p.length then throw "bad-op"
      pure (ids.zip p)
    let first ← readTable (← j.getObjVal? "first")
    let tables ← (← getArr j "tables").toList.mapM readTable
    let st0 : DbState Float := DbState.rebuild ⟨first, []⟩
    let steps := DbState.history outer (fun (x : Float) => x) 0.0 st0 tables
    pure (Json.mkObj [("steps", jArr (steps.map fun (m, vals) =>
      Json.mkObj [("map", jArr (m.map entryJson)), ("ids", jInts (vals.map (·.1))),
        ("values", jFloats (vals.map (·.2)))]))])
  | "multi" =>
    -- comb(PLT(col₀), PLT(col₁), …) on a table given in its original order; comb = latent class with weight w
    let ids ← intList (← j.getObjVal? "ids")
    let cols ← floatMat (← j.getObjVal? "cols")          -- [column][row]
    let w ← getFloat j "w"
    if cols.any (fun c => c.length != ids.length) then throw "bad-op"
    let n := cols.length
    let rows : List (Int × Array Float) := ids.zipIdx.map fun (a, i) => (a, (cols.map fun c => c.getD i 0.0).toArray)
    let gs : List (Array Float → Float) := (List.range n).map fun k => fun r => r.getD k 0.0
    let comb ← match (← getStr j "comb") with
      | "latent" => pure (latentClass w)
      | _ => throw "bad-op"
    let vals := tableValuesMulti comb gs #[] rows
    pure (Json.mkObj [("ids", jInts (vals.map (·.1))), ("values", jFloats (vals.map (·.2)))])
  | "mc_table" =>
    -- outer(MonteCarlo(PanelLikelihoodTrajectory(integrand))) on a table given in its ORIGINAL order:
    -- sorting, map and the assignment of the draw rows are all the model's
    let ids ← intList (← j.getObjVal? "ids")
    let p ← floatList (← j.getObjVal? "p")
    let x ← floatList (← j.getObjVal? "x")
    let b ← getFloat j "b"
    let q ← getFloat j "q"
    let K ← getNat j "K"
    let R ← getNat j "R"
    let outer ← outerFn (← getStr j "outer")
    let dr ← (← getArr j "draws").toList.mapM floatMat       -- [row of the draw table][r][k]
    let da := (dr.map fun m => (m.map List.toArray).toArray).toArray
    let draws : Nat → Nat → Nat → Float := fun i r k => ((da.getD i #[]).getD r #[]).getD k 0.0
    if R = 0 || p.length != ids.length || x.length != ids.length then throw "bad-op"
    let rows : List (Int × (Float × Float)) := ids.zip (p.zip x)
    let g : (Float × Float) → (Nat → Float) → Float := fun r xi =>
      let base := r.1 * Float.exp (b * r.2 * xi 0)
      if K ≥ 2 then base * (1.0 + q * xi 1) else base
    let vals := tableValuesMC outer g (0.0, 0.0) draws R rows
    pure (Json.mkObj [("ids", jInts (vals.map (·.1))), ("values", jFloats (vals.map (·.2)))])
  | "bootstrap" =>
    -- ids: sorted id column; samples: one list of picks per bootstrap sample; ops: public calls on one object
    let ids ← intList (← j.getObjVal? "ids")
    let samples ← (← getArr j "samples").toList.mapM natList
    let m := panelMap ids
    let ops ← (← getArr j "ops").toList.mapM fun o => do
      match (← asStr o) with
      | "likelihood" => pure SOp.likelihood
      | "simulate" => pure SOp.simulate
      | "estimate" => pure (SOp.estimate [])
      | "estimate-bootstrap" => pure (SOp.estimate samples)
      | _ => throw "bad-op"
    let used := (Sess.init m).run ops
    pure (Json.mkObj [("map", jArr (m.map entryJson)),
      ("resampled", jArr (samples.map fun pk => jArr ((resample m pk).map entryJson))),
      ("used", jArr (used.map fun mm => jArr (mm.map entryJson)))])
  | "scores" =>
    -- ids: sorted id column; x: per-row score of the single parameter; f g h b: unscaled output
    let ids ← intList (← j.getObjVal? "ids")
    let x ← floatList (← j.getObjVal? "x")
    let xa := x.toArray
    let m := panelMap ids
    let xf : Nat → Float := fun i => xa.getD i 0.0
    let f ← getFloat j "f"
    let g ← floatList (← j.getObjVal? "g")
    let h ← floatList (← j.getObjVal? "h")
    let b ← floatList (← j.getObjVal? "b")
    let so := scaledOutput ids f g h b
    pure (Json.mkObj [("grad", fbits (gradPanel xf m)), ("bhhh", fbits (bhhhPanel xf m)),
      ("sf", fbits so.1), ("sg", jFloats so.2.1), ("sh", jFloats so.2.2.1), ("sb", jFloats so.2.2.2)])
  | "object" =>
    -- one BIOGEME object created on `first`; tables assigned to database.data one after the other, one
    -- evaluation of outer(PanelLikelihoodTrajectory(P)) on the SAME object after each (repaired behaviour)
    let outer ← outerFn (← getStr j "outer")
    let readTable (t : Json) : Except String (List (Int × Float)) := do
      let ids ← intList (← t.getObjVal? "ids")
      let p ← floatList (← t.getObjVal? "p")
      if ids.length != p.length then throw "bad-op"
      pure (ids.zip p)
    let first ← readTable (← j.getObjVal? "first")
    let tables ← (← getArr j "tables").toList.mapM readTable
    let o : Obj Float := Obj.create ⟨first, []⟩
    let steps := Obj.history outer (fun (x : Float) => x) 0.0 o tables
    pure (Json.mkObj [("steps", jArr (steps.map fun r =>
      match r with
      | none => Json.mkObj [("refused", jBool true)]
      | some vals => Json.mkObj [("refused", jBool false), ("ids", jInts (vals.map (·.1))),
          ("values", jFloats (vals.map (·.2)))]))])
  | "scaled" =>
    -- quantities returned with scaled=True for a sorted id column
    let ids ← intList (← j.getObjVal? "ids")
    let v ← floatList (← j.getObjVal? "v")
    pure (Json.mkObj [("values", jFloats (v.map (scaledBy ids))), ("sample_size", jNat (sampleSize ids))])
  | _ => throw "bad-op"

def main : IO Unit := Drv.run handle
