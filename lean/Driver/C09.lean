import Driver.Common
import Model.Panel
open Lean Drv Panel

def entryJson (e : Entry) : Json := jArr [jInt e.id, jNat e.first, jNat e.last]

def outerFn (name : String) : Except String (Float → Float) :=
  match name with
  | "log" => pure Float.log
  | "id" => pure id
  | _ => throw "bad-op"

partial def parseExpr (j : Json) : Except String PExpr := do
  let k ← getStr j "k"
  match k with
  | "num" => pure (.num (← getInt j "v"))
  | "beta" => pure (.beta (← getStr j "n"))
  | "var" => pure (.var (← getStr j "n"))
  | "draws" => pure (.draws (← getStr j "n"))
  | "un" => pure (.un (← getStr j "op") (← parseExpr (← j.getObjVal? "e")))
  | "bin" => pure (.bin (← getStr j "op") (← parseExpr (← j.getObjVal? "l")) (← parseExpr (← j.getObjVal? "r")))
  | "traj" => pure (.traj (← parseExpr (← j.getObjVal? "e")))
  | "mc" => pure (.mc (← parseExpr (← j.getObjVal? "e")))
  | _ => throw "bad-op"

/-- integrand family of the check: `P·exp(b·X·ξ₀)·(1 + q·ξ₁)` (ξ₁ absent: factor 1) -/
def integrand (P X : Array Float) (b q : Float) (K : Nat) (t : Nat) (xi : Nat → Float) : Float :=
  let base := P.getD t 0.0 * Float.exp (b * X.getD t 0.0 * xi 0)
  if K ≥ 2 then base * (1.0 + q * xi 1) else base

def handle (j : Json) : Except String Json := do
  let op ← getStr j "op"
  match op with
  | "panel" =>
    let ids ← intList (← j.getObjVal? "ids")
    let s := sortIds ids
    pure (Json.mkObj [("ok", jBool (panelOk ids)), ("groups", jNat (countGroups ids)),
      ("individuals", jNat (countGroups s)), ("sorted", jInts s),
      ("map", jArr ((panelMap s).map entryJson)), ("sample_size", jNat (sampleSize s))])
  | "values" =>
    -- formula outer(PanelLikelihoodTrajectory(P)) on a table given in its original order
    let ids ← intList (← j.getObjVal? "ids")
    let p ← floatList (← j.getObjVal? "p")
    let outer ← outerFn (← getStr j "outer")
    if ids.length != p.length then throw "bad-op"
    let vals := tableValues outer (fun (x : Float) => x) 0.0 (ids.zip p)
    pure (Json.mkObj [("ids", jInts (vals.map (·.1))), ("values", jFloats (vals.map (·.2)))])
  | "mc" =>
    -- outer(MonteCarlo(PanelLikelihoodTrajectory(integrand))) on a table already sorted by id
    let ids ← intList (← j.getObjVal? "ids")
    let p ← floatList (← j.getObjVal? "p")
    let x ← floatList (← j.getObjVal? "x")
    let b ← getFloat j "b"
    let q ← getFloat j "q"
    let K ← getNat j "K"
    let R ← getNat j "R"
    let outer ← outerFn (← getStr j "outer")
    let dr ← (← getArr j "draws").toList.mapM floatMat       -- [individual][r][k]
    let da := (dr.map fun m => (m.map List.toArray).toArray).toArray
    let draws : Nat → Nat → Nat → Float := fun i r k => ((da.getD i #[]).getD r #[]).getD k 0.0
    if R = 0 then throw "bad-op"
    let vals := panelValuesMC outer (integrand p.toArray x.toArray b q K) draws ids R
    pure (Json.mkObj [("values", jFloats vals), ("sample_size", jNat (sampleSize ids))])
  | "audit" =>
    let e ← parseExpr (← j.getObjVal? "e")
    pure (Json.mkObj [("outside", jStrs (checkPanelTrajectory e)), ("ntraj", jNat (countTraj e)),
      ("draws_outside", jStrs (checkDraws e)), ("audit_errors", jNat (auditErrors e)),
      ("accepts", jBool (initAccepts e)), ("has_traj", jBool (hasTraj e))])
  | "history" =>
    -- tables assigned to database.data one after the other, one evaluation of
    -- outer(PanelLikelihoodTrajectory(P)) after each; the database starts with the map of `first`
    let outer ← outerFn (← getStr j "outer")
    let readTable (t : Json) : Except String (List (Int × Float)) := do
      let ids ← intList (← t.getObjVal? "ids")
      let p ← floatList (← t.getObjVal? "p")
      if ids.length != p.length then throw "bad-op"
      pure (ids.zip p)
    let first ← readTable (← j.getObjVal? "first")
    let tables ← (← getArr j "tables").toList.mapM readTable
    let st0 : DbState Float := DbState.rebuild ⟨first, []⟩
    let steps := DbState.history outer (fun (x : Float) => x) 0.0 st0 tables
    pure (Json.mkObj [("steps", jArr (steps.map fun (m, vals) =>
      Json.mkObj [("map", jArr (m.map entryJson)), ("ids", jInts (vals.map (·.1))),
        ("values", jFloats (vals.map (·.2)))]))])
  | "scaled" =>
    -- quantities returned with scaled=True for a sorted id column
    let ids ← intList (← j.getObjVal? "ids")
    let v ← floatList (← j.getObjVal? "v")
    pure (Json.mkObj [("values", jFloats (v.map (scaledBy ids))), ("sample_size", jNat (sampleSize ids))])
  | _ => throw "bad-op"

def main : IO Unit := Drv.run handle
