import Driver.Common
import Model.Integrals
open Lean Drv Integrals

partial def parseI (j : Json) : Except String IExpr := do
  let k ← getStr j "k"
  match k with
  | "num" => pure (.num (← getNat j "m") (← getBool j "neg") (← getNat j "e"))
  | "nat" => pure (.nat (← getNat j "v"))
  | "beta" => pure (.beta (← getNat j "i"))
  | "var" => pure (.var (← getNat j "j"))
  | "draw" => pure (.draw (← getStr j "n"))
  | "add" => pure (.add (← parseI (← j.getObjVal? "a")) (← parseI (← j.getObjVal? "b")))
  | "sub" => pure (.sub (← parseI (← j.getObjVal? "a")) (← parseI (← j.getObjVal? "b")))
  | "mul" => pure (.mul (← parseI (← j.getObjVal? "a")) (← parseI (← j.getObjVal? "b")))
  | "exp" => pure (.exp (← parseI (← j.getObjVal? "a")))
  | _ => throw "bad-op"

def errName : Err → String
  | .unknownType => "BiogemeError:unknown-type"
  | .wrongShape => "BiogemeError:wrong-shape"
  | .reservedKeyword => "ValueError:reserved"

def jCube (c : List (List (List Float))) : Json := jArr (c.map jMat)

/-- list of (key, value) pairs given as [[k, v], …] -/
def pairs (j : Json) : Except String (List (String × String)) := do
  let a ← asArr j
  a.toList.mapM fun e => do
    match (← strList e) with
    | [n, v] => pure (n, v)
    | _ => throw "bad-op"

def handle (j : Json) : Except String Json := do
  let op ← getStr j "op"
  match op with
  | "ids" =>
    let declared ← strList (← j.getObjVal? "declared")
    let s := sortNames declared
    pure (Json.mkObj [("names", jStrs s), ("ids", jNats (declared.map (drawId declared)))])
  | "set_user" =>
    let native ← strList (← j.getObjVal? "native")
    let rng ← strList (← j.getObjVal? "rng")
    match setUserGenerators native rng with
    | .ok u => pure (Json.mkObj [("ok", jStrs u)])
    | .error e => pure (Json.mkObj [("err", jStr (errName e))])
  | "gen_draws" =>
    -- what each generator returns is data: [[type, table], …]
    let native ← strList (← j.getObjVal? "native")
    let user ← strList (← j.getObjVal? "user")
    let types ← pairs (← j.getObjVal? "types")
    let names ← strList (← j.getObjVal? "names")
    let N ← getNat j "N"
    let R ← getNat j "R"
    let outs ← (← getArr j "outputs").toList.mapM fun e => do
      let a ← asArr e
      match a.toList with
      | [t, tbl] => pure ((← asStr t), (← floatMat tbl))
      | _ => throw "bad-op"
    let typeOf := fun n => (types.lookup n).getD "?"
    let gen : Source → Nat → Nat → List (List Float) := fun src _ _ =>
      match src with
      | .native t => (outs.lookup t).getD []
      | .user t => (outs.lookup t).getD []
    match generateDraws 0.0 native user typeOf gen names N R with
    | .ok t => pure (Json.mkObj [("table", jCube t)])
    | .error e => pure (Json.mkObj [("err", jStr (errName e))])
  | "mc" =>
    let declared ← strList (← j.getObjVal? "declared")
    let table ← (← getArr j "table").toList.mapM floatMat
    let betas ← floatList (← j.getObjVal? "betas")
    let rows ← floatMat (← j.getObjVal? "rows")
    let R ← getNat j "R"
    let e ← parseI (← j.getObjVal? "e")
    if R = 0 then throw "bad-op"
    let vals := rows.zipIdx.map fun (row, n) => monteCarlo declared table betas row n R e
    pure (Json.mkObj [("values", jFloats vals)])
  | "derive" =>
    let betas ← floatList (← j.getObjVal? "betas")
    let rows ← floatMat (← j.getObjVal? "rows")
    let e ← parseI (← j.getObjVal? "e")
    let wrt ← getStr j "wrt"
    let idx ← getNat j "idx"
    let d ← match wrt with
      | "beta" => pure (diffBeta idx e)
      | "var" => pure (diffVar idx e)
      | _ => throw "bad-op"
    let xi : String → Float := fun _ => 0.0
    pure (Json.mkObj [("values", jFloats (rows.map fun row => evalI betas row xi d)),
      ("f", jFloats (rows.map fun row => evalI betas row xi e))])
  | _ => throw "bad-op"

def main : IO Unit := Drv.run handle
