import Driver.Common
import Model.Integrals
import Model.McSession
open Lean Drv Integrals McSession

partial def parseI (j : Json) : Except String IExpr := do
  let k ← getStr j "k"
  match k with
  | "num" => pure (.num (← getNat j "m") (← getBool j "neg") (← getNat j "e"))
  | "nat" => pure (.nat (← getNat j "v"))
  | "beta" => pure (.beta (← getNat j "i"))
  | "var" => pure (.var (← getNat j "j"))
  | "draw" => pure (.draw (← getStr j "n"))
  | "add" => pure (.add (← parseI (← j.getObjVal? "a")) (← parseI (← j.getObjVal? "b")))
  | "sub" => pure (.sub (← parseI (← j.getObjVal? "a")) (← parseI (← j.getObjVal? "b")))
  | "mul" => pure (.mul (← parseI (← j.getObjVal? "a")) (← parseI (← j.getObjVal? "b")))
  | "exp" => pure (.exp (← parseI (← j.getObjVal? "a")))
  | _ => throw "bad-op"

def errName : Err → String
  | .unknownType => "BiogemeError:unknown-type"
  | .wrongShape => "BiogemeError:wrong-shape"
  | .reservedKeyword => "ValueError:reserved"

def jCube (c : List (List (List Float))) : Json := jArr (c.map jMat)

/-- list of (key, value) pairs given as [[k, v], …] -/
def pairs (j : Json) : Except String (List (String × String)) := do
  let a ← asArr j
  a.toList.mapM fun e => do
    match (← strList e) with
    | [n, v] => pure (n, v)
    | _ => throw "bad-op"


/-! ### sessions (Model/McSession.lean on the describing instance `logEnv`) -/

def srcName : Source → String
  | .native t => "native:" ++ t
  | .user t => "user:" ++ t

def evJson : Ev → Json
  | .seed s => jArr [jStr "seed", jNat s]
  | .consume k => jArr [jStr "consume", jNat k]
  | .call src N R => jArr [jStr "call", jStr (srcName src), jNat N, jNat R]

def parseOp (j : Json) : Except String Op := do
  match (← getStr j "k") with
  | "new" => pure (.newBiogeme (← getNat j "seed") (← pairs (← j.getObjVal? "decl")) (← getNat j "R"))
  | "setR" => pure (.setNumberOfDraws (← getNat j "i") (← getNat j "R"))
  | "evalB" => pure (.evalBiogeme (← getNat j "i"))
  | "evalE" => pure (.evalExpr (← pairs (← j.getObjVal? "decl")) (← getNat j "R"))
  | "consume" => pure (.consume (← getNat j "n"))
  | "createF" => pure (.createFunction (← pairs (← j.getObjVal? "decl")) (← getNat j "R"))
  | "callF" => pure .callFunction
  | _ => throw "bad-op"

structure StepOut where
  err : Option Err
  db : Option (Table Cell)
  engine : Option (Table Cell)
  ids : List (String × Nat)
  nd : Option Nat

abbrev CallKey := List Ev

def tableKeys (t : Table Cell) : List CallKey :=
  (t.flatMap fun m => m.flatMap fun row => row.map fun c => c.log).eraseDups

def jTable (keys : List CallKey) : Option (Table Cell) → Json
  | none => Json.null
  | some t => jArr (t.map fun m => jArr (m.map fun row => jArr (row.map fun c =>
      jArr [jNat (keys.idxOf c.log), jNat c.n, jNat c.r])))

def idsOf (d : Decl) : List (String × Nat) := (declNames d).map fun n => (n, drawId (declNames d) n)

/-- one operation on the model + what the harness compares after it -/
def sessionStep (E : Env (List Ev) Cell) (fdecl : Decl) (w : World (List Ev) Cell) (op : Op) : World (List Ev) Cell × StepOut :=
  let r := step E w op
  let w' := r.1
  match op with
  | .newBiogeme _ d _ =>
    let created := w'.objs.length > w.objs.length
    let o := if created then w'.objs.getLast? else none
    (w', ⟨r.2, w'.theDraws, o.bind (·.engine), idsOf d, o.map (·.numberOfDraws)⟩)
  | .evalBiogeme i =>
    let o := w'.objs[i]?
    (w', ⟨r.2, w'.theDraws, o.bind (·.engine), (o.map fun x => idsOf x.decl).getD [], o.map (·.numberOfDraws)⟩)
  | .setNumberOfDraws i _ =>
    let o := w'.objs[i]?
    (w', ⟨r.2, w'.theDraws, o.bind (·.engine), (o.map fun x => idsOf x.decl).getD [], o.map (·.numberOfDraws)⟩)
  | .evalExpr d _ => (w', ⟨r.2, w'.theDraws, none, idsOf d, none⟩)
  | .consume _ => (w', ⟨r.2, w'.theDraws, none, [], none⟩)
  | .createFunction d _ => (w', ⟨r.2, w'.theDraws, none, idsOf d, none⟩)
  | .callFunction => (w', ⟨r.2, w'.theDraws, none, idsOf fdecl, none⟩)

/-- `fdecl`: the draw variables of the function created last (the one `callFunction` calls) -/
def sessionRun (E : Env (List Ev) Cell) : Decl → World (List Ev) Cell → List Op → List StepOut
  | _, _, [] => []
  | fdecl, w, op :: rest =>
    let fdecl' := match op with | .createFunction d _ => d | _ => fdecl
    let r := sessionStep E fdecl' w op
    r.2 :: sessionRun E fdecl' r.1 rest

def handle (j : Json) : Except String Json := do
  let op ← getStr j "op"
  match op with
  | "ids" =>
    let declared ← strList (← j.getObjVal? "declared")
    let s := sortNames declared
    pure (Json.mkObj [("names", jStrs s), ("ids", jNats (declared.map (drawId declared)))])
  | "set_user" =>
    let native ← strList (← j.getObjVal? "native")
    let rng ← strList (← j.getObjVal? "rng")
    match setUserGenerators native rng with
    | .ok u => pure (Json.mkObj [("ok", jStrs u)])
    | .error e => pure (Json.mkObj [("err", jStr (errName e))])
  | "gen_draws" =>
    -- what each generator returns is data: [[type, table], …]
    let native ← strList (← j.getObjVal? "native")
    let user ← strList (← j.getObjVal? "user")
    let types ← pairs (← j.getObjVal? "types")
    let names ← strList (← j.getObjVal? "names")
    let N ← getNat j "N"
    let R ← getNat j "R"
    let outs ← (← getArr j "outputs").toList.mapM fun e => do
      let a ← asArr e
      match a.toList with
      | [t, tbl] => pure ((← asStr t), (← floatMat tbl))
      | _ => throw "bad-op"
    let typeOf := fun n => (types.lookup n).getD "?"
    let gen : Source → Nat → Nat → List (List Float) := fun src _ _ =>
      match src with
      | .native t => (outs.lookup t).getD []
      | .user t => (outs.lookup t).getD []
    match generateDraws 0.0 native user typeOf gen names N R with
    | .ok t => pure (Json.mkObj [("table", jCube t)])
    | .error e => pure (Json.mkObj [("err", jStr (errName e))])
  | "mc" =>
    let declared ← strList (← j.getObjVal? "declared")
    let table ← (← getArr j "table").toList.mapM floatMat
    let betas ← floatList (← j.getObjVal? "betas")
    let rows ← floatMat (← j.getObjVal? "rows")
    let R ← getNat j "R"
    let e ← parseI (← j.getObjVal? "e")
    if R = 0 then throw "bad-op"
    let vals := rows.zipIdx.map fun (row, n) => monteCarlo declared table betas row n R e
    pure (Json.mkObj [("values", jFloats vals)])
  | "derive" =>
    let betas ← floatList (← j.getObjVal? "betas")
    let rows ← floatMat (← j.getObjVal? "rows")
    let e ← parseI (← j.getObjVal? "e")
    let wrt ← getStr j "wrt"
    let idx ← getNat j "idx"
    let d ← match wrt with
      | "beta" => pure (diffBeta idx e)
      | "var" => pure (diffVar idx e)
      | _ => throw "bad-op"
    let xi : String → Float := fun _ => 0.0
    pure (Json.mkObj [("values", jFloats (rows.map fun row => evalI betas row xi d)),
      ("f", jFloats (rows.map fun row => evalI betas row xi e))])
  | "derive_lit" =>
    -- Derive(e, name) through the global numbering of the id manager and the engine's literal ids
    let free ← strList (← j.getObjVal? "free")
    let fixed ← strList (← j.getObjVal? "fixed")
    let rvs ← strList (← j.getObjVal? "rvs")
    let draws ← strList (← j.getObjVal? "draws")
    let cols ← strList (← j.getObjVal? "cols")
    let bnames ← strList (← j.getObjVal? "bnames")
    let vnames ← strList (← j.getObjVal? "vnames")
    let name ← getStr j "name"
    let all := allLiterals free fixed rvs draws cols
    let idx := literalIndex all name
    -- the two numbers of every draw variable's signature line: literal id and column of the draw table
    let drawIds := jArr (draws.map fun n => jArr [jStr n, jNat (literalIndex all n), jNat (drawId draws n)])
    if !(← getBool j "eval") then
      pure (Json.mkObj [("index", jNat idx), ("count", jNat all.length), ("draw_ids", drawIds)])
    else
      let betas ← floatList (← j.getObjVal? "betas")
      let rows ← floatMat (← j.getObjVal? "rows")
      let e ← parseI (← j.getObjVal? "e")
      let d := deriveNamed all (fun i => bnames.getD i "\x00") (fun k => vnames.getD k "\x00") name e
      let mc ← getBool j "mc"
      if mc then
        let table ← (← getArr j "table").toList.mapM floatMat
        let R ← getNat j "R"
        if R = 0 then throw "bad-op"
        let vals := rows.zipIdx.map fun (row, n) => monteCarlo draws table betas row n R d
        pure (Json.mkObj [("index", jNat idx), ("count", jNat all.length), ("draw_ids", drawIds), ("values", jFloats vals)])
      else
        let xi : String → Float := fun _ => 0.0
        pure (Json.mkObj [("index", jNat idx), ("count", jNat all.length), ("draw_ids", drawIds),
          ("values", jFloats (rows.map fun row => evalI betas row xi d))])
  | "session" =>
    let native ← strList (← j.getObjVal? "native")
    let user ← strList (← j.getObjVal? "user")
    let N ← getNat j "N"
    let seed0 ← getNat j "seed0"
    let ops ← (← getArr j "ops").toList.mapM parseOp
    let E := logEnv native user N
    let outs := sessionRun E [] ⟨[.seed seed0], none, []⟩ ops
    let keys := (outs.flatMap fun o => (o.db.map tableKeys).getD [] ++ (o.engine.map tableKeys).getD []).eraseDups
    pure (Json.mkObj [
      ("calls", jArr (keys.map fun k => jArr (k.map evJson))),
      ("steps", jArr (outs.map fun o => Json.mkObj [
        ("err", match o.err with | some e => jStr (errName e) | none => Json.null),
        ("db", jTable keys o.db), ("engine", jTable keys o.engine),
        ("ids", jArr (o.ids.map fun p => jArr [jStr p.1, jNat p.2])),
        ("nd", match o.nd with | some n => jNat n | none => Json.null)]))])
  | "seed_policy" =>
    let seed ← getNat j "seed"
    pure (Json.mkObj [("state", jStr (seedPolicy (fun s => s!"fresh:{s}") seed "current"))])
  | _ => throw "bad-op"

def main : IO Unit := Drv.run handle
