import Driver.Common
import Model.Integrals
open Lean Drv Integrals

partial def parseI (j : Json) : Except String IExpr := do
  let k ← getStr j "k"
  match k with
  | "num" => pure (.num (← getNat j "m") (← getBool j "neg") (← getNat j "e"))
  | "nat" => pure (.nat (← getNat j "v"))
  | "beta" => pure (.beta (← getNat j "i"))
  | "var" => pure (.var (← getNat j "j"))
  | "draw" => pure (.draw (← getStr j "n"))
  | "add" => pure (.add (← parseI (← j.getObjVal? "a")) (← parseI (← j.getObjVal? "b")))
  | "sub" => pure (.sub (← parseI (← j.getObjVal? "a")) (← parseI (← j.getObjVal? "b")))
  | "mul" => pure (.mul (← parseI (← j.getObjVal? "a")) (← parseI (← j.getObjVal? "b")))
  | "exp" => pure (.exp (← parseI (← j.getObjVal? "a")))
  | _ => throw "bad-op"

def errName : Err → String
  | .unknownType => "BiogemeError:unknown-type"
  | .wrongShape => "BiogemeError:wrong-shape"
  | .reservedKeyword => "ValueError:reserved"

def jCube (c : List (List (List Float))) : Json := jArr (c.map jMat)

/-- list of (key, value) pairs given as [[k, v], …] -/
def pairs (j : Json) : Except String (List (String × String)) := do
  let a ← asArr j
  a.toList.mapM fun e => do
    match (← strList e) with
    | [n, v] => pure (n, v)
    | _ => throw "bad-op"

def handle (j : Json) : Except String Json := do
  let op ← getStr j "op"
  match op with
  | "ids" =>
    let declared ← strList (← j.getObjVal? "declared")
    let s := sortNames declared
    pure (Json.mkObj [("names", jStrs s), ("ids", jNats (declared.map (drawId declared)))])
  | "set_user" =>
    let native ← strList (← j.getObjVal? "native")
    let rng ← strList (← j.getObjVal? "rng")
    match setUserGenerators native rng with
    | .ok u => pure (Json.mkObj [("ok", jStrs u)])
    | .error e => pure (Json.mkObj [("err", jStr (errName e))])
  | "gen_draws" =>
    -- what each generator returns is data: [[type, table], …]
    let native ← strList (← j.getObjVal? "native")
    let user ← strList (← j.getObjVal? "user")
    let types ← pairs (← j.getObjVal? "types")
    let names ← strList (← j.getObjVal? "names")
    let N ← getNat j "N"
    let R ← getNat j "R"
    let outs ← (← getArr j "outputs").toList.mapM fun e => do
      let a ← asArr e
      match a.toList with
      | [t, tbl] => pure ((← asStr t), (← floatMat tbl))
      | _ => throw "bad-op"
    let typeOf := fun n => (types.lookup n).getD "?"
    let gen : Source → Nat → Nat → List (List Float) := fun src _ _ =>
      match src with
      | .native t => (outs.lookup t).getD []
      | .user t => (outs.lookup t).getD []
    match generateDraws 0.0 native user typeOf gen names N R with
    | .ok t => pure (Json.mkObj [("table", jCube t)])
    | .error e => pure (Json.mkObj [("err", jStr (errName e))])
  | "mc" =>
    let declared ← strList (← j.getObjVal? "declared")
    let table ← (← getArr j "table").toList.mapM floatMat
    let betas ← floatList (← j.getObjVal? "betas")
    let rows ← floatMat (← j.getObjVal? "rows")
    let R ← getNat j "R"
    let e ← parseI (← j.getObjVal? "e")
    if R = 0 then throw "bad-op"
    let vals := rows.zipIdx.map fun (row, n) => monteCarlo declared table betas row n R e
    pure (Json.mkObj [("values", jFloats vals)])
  | "derive" =>
    let betas ← floatList (← j.getObjVal? "betas")
    let rows ← floatMat (← j.getObjVal? "rows")
    let e ← parseI (← j.getObjVal? "e")
    let wrt ← getStr j "wrt"
    let idx ← getNat j "idx"
    let d ← match wrt with
      | "beta" => pure (diffBeta idx e)
      | "var" => pure (diffVar idx e)
      | _ => throw "bad-op"
    let xi : String → Float := fun _ => 0.0
    pure (Json.mkObj [("values", jFloats (rows.map fun row => evalI betas row xi d)),
      ("f", jFloats (rows.map fun row => evalI betas row xi e))])
  | "derive_lit" =>
    -- Derive(e, name) through the global numbering of the id manager and the engine's literal ids
    let free ← strList (← j.getObjVal? "free")
    let fixed ← strList (← j.getObjVal? "fixed")
    let rvs ← strList (← j.getObjVal? "rvs")
    let draws ← strList (← j.getObjVal? "draws")
    let cols ← strList (← j.getObjVal? "cols")
    let bnames ← strList (← j.getObjVal? "bnames")
    let vnames ← strList (← j.getObjVal? "vnames")
    let name ← getStr j "name"
    let all := allLiterals free fixed rvs draws cols
    let idx := literalIndex all name
    if !(← getBool j "eval") then
      pure (Json.mkObj [("index", jNat idx), ("count", jNat all.length)])
    else
      let betas ← floatList (← j.getObjVal? "betas")
      let rows ← floatMat (← j.getObjVal? "rows")
      let e ← parseI (← j.getObjVal? "e")
      let d := deriveNamed all (fun i => bnames.getD i "\x00") (fun k => vnames.getD k "\x00") name e
      let mc ← getBool j "mc"
      if mc then
        let table ← (← getArr j "table").toList.mapM floatMat
        let R ← getNat j "R"
        if R = 0 then throw "bad-op"
        let vals := rows.zipIdx.map fun (row, n) => monteCarlo draws table betas row n R d
        pure (Json.mkObj [("index", jNat idx), ("count", jNat all.length), ("values", jFloats vals)])
      else
        let xi : String → Float := fun _ => 0.0
        pure (Json.mkObj [("index", jNat idx), ("count", jNat all.length),
          ("values", jFloats (rows.map fun row => evalI betas row xi d))])
  | "seed_policy" =>
    let seed ← getNat j "seed"
    pure (Json.mkObj [("state", jStr (seedPolicy (fun s => s!"fresh:{s}") seed "current"))])
  | _ => throw "bad-op"

def main : IO Unit := Drv.run handle
