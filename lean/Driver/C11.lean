import Driver.Common
import Model.Draws
import Model.DrawsSession
import Generated.DrawCatalogue
open Lean Drv Draws

def famJ : Family → Json
  | .uniform => Json.mkObj [("family", jStr "uniform")]
  | .halton b s => Json.mkObj [("family", jStr "halton"), ("base", jNat b), ("skip", jNat s)]
  | .mlhs => Json.mkObj [("family", jStr "mlhs")]
  | .unknown => Json.mkObj [("family", jStr "opaque")]

def branchJ : Branch → Json
  | .central => jStr "central"
  | .zero => jStr "zero"
  | .middle => jStr "middle"
  | .far => jStr "far"

def errStr : GenErr → String
  | .badDraws => "BiogemeError:draws"
  | .badSample => "BiogemeError:sample"
  | .oddDraws => "BiogemeError:odd"
  | .unknown => "opaque"

def parseGen (j : Json) : Except String Gen := do
  let fam ← getStr j "family"
  let f : Family ← match fam with
    | "uniform" => pure Family.uniform
    | "mlhs" => pure Family.mlhs
    | "halton" => do pure (Family.halton (← getNat j "base") (← getNat j "skip"))
    | _ => throw "bad-op"
  pure { family := f, symmetric := ← getBool j "symmetric", antithetic := ← getBool j "antithetic",
         normal := ← getBool j "normal" }

def callErrStr : CallErr → String
  | .gen e => errStr e
  | .uniformCount => "BiogemeError:uniform_numbers"

def arrJ : Arr Float → Json
  | .ok rows => Json.mkObj [("rows", jMat rows)]
  | .error e => Json.mkObj [("err", jStr (callErrStr e))]

def genOf (j : Json) : Except String Gen :=
  match j.getObjVal? "name" with
  | .ok (Json.str name) =>
    match Generated.drawCatalogue.find? (fun e => e.name == name) with
    | some e => pure e.gen
    | none => throw "unknown-type"
  | _ => parseGen j

/-- one operation of a session (Model/DrawsSession.lean) -/
def parseOp (j : Json) : Except String (Op Float) := do
  let t ← getStr j "t"
  match t with
  | "cat" =>
    pure (.call (.cat (← genOf j) (← getNat j "n") (← getNat j "R") (← floatList (← j.getObjVal? "us"))
      (← natList (← j.getObjVal? "perm"))))
  | "halton" =>
    pure (.call (.halton (← getNat j "base") (← getNat j "skip") (← getNat j "n") (← getNat j "R")
      (← getBool j "symmetric") (← getBool j "shuffled") (← natList (← j.getObjVal? "perm"))))
  | "lhs" =>
    pure (.call (.lhs (← getNat j "n") (← getNat j "R") (← getBool j "symmetric")
      (← floatList (← j.getObjVal? "us")) (← natList (← j.getObjVal? "perm"))))
  | "wichura" =>
    pure (.call (.wichura (← getNat j "n") (← getNat j "R") (← getBool j "antithetic")
      (← floatList (← j.getObjVal? "us"))))
  | "scale" => pure (.scale (← getNat j "k") (← getFloat j "c"))
  | "fill" => pure (.fill (← getNat j "k") (← getFloat j "c"))
  | "reverse" => pure (.reverse (← getNat j "k"))
  | _ => throw "bad-op"

def handle (j : Json) : Except String Json := do
  let op ← getStr j "op"
  match op with
  | "catalogue" =>
    let es := Generated.drawCatalogue.map fun e =>
      Json.mkObj [("name", jStr e.name), ("gen", famJ e.gen.family), ("symmetric", jBool e.gen.symmetric),
                  ("antithetic", jBool e.gen.antithetic), ("normal", jBool e.gen.normal), ("ok", jBool e.ok)]
    pure (Json.mkObj [("entries", jArr es), ("distinct", jBool (distinctBasesOK Generated.drawCatalogue))])
  | "generate" =>
    let n ← getNat j "n"
    let r ← getNat j "R"
    let us ← floatList (← j.getObjVal? "us")
    let perm ← natList (← j.getObjVal? "perm")
    let g : Gen ← match j.getObjVal? "name" with
      | .ok (Json.str name) =>
        match Generated.drawCatalogue.find? (fun e => e.name == name) with
        | some e => pure e.gen
        | none => throw "unknown-type"
      | _ => parseGen j
    match generate g n r us perm with
    | .error e => pure (Json.mkObj [("err", jStr (errStr e))])
    | .ok rows => pure (Json.mkObj [("rows", jMat rows), ("shape_ok", jBool (shapeAccepted n r rows)),
                                    ("needs", jNat (uniformsNeeded g n r))])
  | "generate_draws" =>
    -- Database.generate_draws on what the generators delivered (shape + row-major elements)
    let n ← getNat j "n"
    let r ← getNat j "R"
    let vs ← getArr j "vars"
    let vars : List (Delivered Float) ← vs.toList.mapM fun v => do
      pure { dims := ← natList (← v.getObjVal? "dims"), flat := ← floatList (← v.getObjVal? "flat") }
    match generateDraws n r vars with
    | .error v => pure (Json.mkObj [("refused", jNat v)])
    | .ok t => pure (Json.mkObj [("table", jArr (t.map jMat)),
                                 ("accepted", jArr (vars.map fun d => jBool (dimsAccepted n r d.dims))),
                                 ("counts", jNats (vars.map fun d => dimsCount d.dims))])
  | "registry" =>
    -- a history of set_random_number_generators on one Database, then the resolution of type names
    let sets ← (← getArr j "sets").toList.mapM fun x => do
      let a ← asArr x
      a.toList.mapM asStr
    let names ← (← getArr j "names").toList.mapM asStr
    let cat := Generated.drawCatalogue
    let step := fun (acc : List Bool × List String) (keys : List String) =>
      let r := setGenerators cat acc.2 keys
      (acc.1 ++ [r.1], r.2)
    let (accepted, reg) := sets.foldl step ([], [])
    let resJ : Resolved → Json
      | .native _ => jStr "native"
      | .user k => jStr ("user:" ++ k)
      | .unknownType => jStr "unknown"
    pure (Json.mkObj [("accepted", jArr (accepted.map jBool)), ("registry", jStrs reg),
                      ("same", jBool (reg == registryAfter cat sets)),
                      ("resolved", jArr (names.map fun n => resJ (resolve cat reg n)))])
  | "session" =>
    let ops ← (← getArr j "ops").toList.mapM parseOp
    let s := run ops
    pure (Json.mkObj [("returned", jArr (s.returned.map arrJ)), ("held", jArr (s.held.map arrJ)),
                      ("calls", jNat (callsOf ops).length)])
  | "halton" =>
    let b ← getNat j "base"
    let skip ← getNat j "skip"
    let len ← getNat j "len"
    let sym ← getBool j "symmetric"
    let ds : List Float := haltonDraws b skip len sym
    let ri : List Float := (List.range len).map fun k => radInv b (k + skip + 1)
    let q := (List.range len).map fun k =>
      let p := radInvQ b (k + skip + 2) (k + skip + 1)
      jNats [p.1, p.2]
    pure (Json.mkObj [("draws", jFloats ds), ("radinv", jFloats ri), ("q", jArr q)])
  | "lhs" =>
    let us ← floatList (← j.getObjVal? "us")
    let perm ← natList (← j.getObjVal? "perm")
    let sym ← getBool j "symmetric"
    pure (Json.mkObj [("draws", jFloats (lhsDraws us perm sym))])
  | "wichura" =>
    let us ← floatList (← j.getObjVal? "us")
    pure (Json.mkObj [("code", jFloats (us.map wichuraCode)), ("ref", jFloats (us.map as241)),
                      ("branch_code", jArr (us.map fun u => branchJ (branchOf (codeCentral u) u))),
                      ("branch_ref", jArr (us.map fun u => branchJ (branchOf (refCentral u) u)))])
  | _ => throw "bad-op"

def main : IO Unit := Drv.run handle
