import Driver.Expr
import Model.Audit
open Lean Drv Audit

def kindOf : String → Except String AKind
  | "leaf" => pure .leaf | "var" => pure .var | "draws" => pure .draws | "rv" => pure .rv
  | "op" => pure .op | "monteCarlo" => pure .monteCarlo | "integrate" => pure .integrate
  | "panelTraj" => pure .panelTraj | "logLogit" => pure .logLogit | "catalog" => pure .catalog
  | "beta" => pure .beta | "betaFixed" => pure .betaFixed
  | _ => throw "bad-op"

def parseNode (j : Json) : Except String ANode := do
  let kind ← kindOf (← getStr j "kind")
  let children ← match j.getObjVal? "c" with
    | .ok v => natList v
    | .error _ => pure []
  let name ← match j.getObjVal? "name" with
    | .ok v => asStr v
    | .error _ => pure ""
  let mm ← match j.getObjVal? "mismatch" with
    | .ok v => asBool v
    | .error _ => pure false
  let ci ← match j.getObjVal? "choiceInvalid" with
    | .ok v => asBool v
    | .error _ => pure false
  pure { kind, children, name, keysMismatch := mm, choiceInvalid := ci }

def faultStr : Fault → String
  | .unknownColumn n => s!"unknownColumn:{n}"
  | .drawsOutside n => s!"drawsOutside:{n}"
  | .rvOutside n => s!"rvOutside:{n}"
  | .varOutsideTraj n => s!"varOutsideTraj:{n}"
  | .mcNoDraws => "mcNoDraws" | .mcNested => "mcNested" | .mcPanelNoTraj => "mcPanelNoTraj"
  | .intNoRv => "intNoRv" | .trajNonPanel => "trajNonPanel" | .logitKeys => "logitKeys"
  | .logitChoice => "logitChoice"
  | .duplicateName n => s!"duplicateName:{n}"

def dataFaultStr : DataFault → String
  | .nonNumeric c => s!"nonNumeric:{c}" | .nan => "nan" | .empty => "empty"

def parseCol (j : Json) : Except String ColInfo := do
  pure { name := ← getStr j "name", numeric := ← getBool j "numeric", hasNaN := ← getBool j "hasNaN" }

/-- elementary expressions have no children (hypothesis `LeafWF` of the theorems) -/
def leafWfB (d : ADag) : Bool :=
  d.all fun n =>
    !(n.kind == .beta || n.kind == .betaFixed || n.kind == .rv || n.kind == .draws || n.kind == .var) || n.children.isEmpty

def wfB (d : ADag) : Bool :=
  (List.range d.length).all fun k =>
    match d[k]? with
    | none => true
    | some n => n.children.all (· < k)

def handle (j : Json) : Except String Json := do
  let op ← getStr j "op"
  match op with
  | "audit" =>
    let d ← (← getArr j "dag").toList.mapM parseNode
    let root ← getNat j "root"
    let cols ← strList (← j.getObjVal? "cols")
    let panel ← getBool j "panel"
    if !wfB d then throw "ill-formed dag" else
    let db : Db := { cols, panel }
    pure (Json.mkObj [("bio", jStrs ((topAuditBio d db root).map faultStr)),
                      ("expr", jStrs ((topAuditExpr d db root).map faultStr))])
  | "stages" =>
    -- id assignment + audit in the order of each entry path (Audit.stagedExpr / stagedBio)
    let d ← (← getArr j "dag").toList.mapM parseNode
    let root ← getNat j "root"
    let cols ← strList (← j.getObjVal? "cols")
    let panel ← getBool j "panel"
    if !wfB d || !leafWfB d then throw "ill-formed dag" else
    let db : Db := { cols, panel }
    pure (Json.mkObj [("prepare", jStrs ((prepareFaults d db root).map faultStr)),
                      ("setid", jStrs ((setIdFaults d db root).map faultStr)),
                      ("expr", jStrs ((stagedExpr d db root).map faultStr)),
                      ("bio", jStrs ((stagedBio d db root false).map faultStr)),
                      ("bio_skip", jStrs ((stagedBio d db root true).map faultStr))])
  | "dataaudit" =>
    let cols ← (← getArr j "cols").toList.mapM parseCol
    let rows ← getNat j "rows"
    let f : FrameInfo := { cols, rows }
    pure (Json.mkObj [("new", jStrs ((dataAuditNew f).map dataFaultStr)),
                      ("bio", jStrs ((dataAuditBio f).map dataFaultStr))])
  | "evalmissing" =>
    -- the engine semantics with the missing-data test of bioExprVariable
    let d ← DrvExpr.parseDag (← j.getObjVal? "dag")
    let env ← DrvExpr.parseEnv (← j.getObjVal? "env")
    let code ← getFloat j "code"
    let k ← getNat j "root"
    if !Expr.wfB d then throw "ill-formed dag" else
    pure (Json.mkObj [("missing", DrvExpr.resJson (Expr.eval (Expr.semMissing code) d env k)),
                      ("engine", DrvExpr.resJson (Expr.eval Expr.semEngine d env k))])
  | _ => throw "bad-op"

def main : IO Unit := Drv.run handle
